import CardVerif.Proofs.GinViews
/-!
# Gin views for games started from an explicit public card map (C17, `DealH`)

`GinInv.lean` / `GinViews.lean` prove one-step preservation lemmas and instantiate them for a fresh `Deal` (map
`{up-card: TOP}`, opening turn).  Here the base cases are redone for `DealH`: any truthful map (also `{}`), any
observable turn.

The only invariant that depends on the start is `Live.last_draw` ("on a discard turn `lastDraw` names a card of the
mover's hand"): the model's constructor takes no `last_draw`, so a game handed over on a discard turn starts with
`lastDraw = none`.  `gvh_LiveW` is `Live` with that field weakened to "… *if* `lastDraw` names a card"; one accepted
move from a `gvh_LiveW` state gives a `Live` state again (`gvh_LiveW.step`), so everything else is reused.

* §1 `gvh_LiveW`, its step lemma, the invariant `gvh_Inv` of the states reachable from a `DealH`;
* §2 the map stays truthful (`gvh_reach_hudSound`);
* §3 secrecy w.r.t. `PReachH` (`gvh_preach_secret`);
* §4 `getAction`, `view`;
* §5 the map stays a dict (duplicate-free keys) – not needed by the theorems, but part of "the map is a dict".
-/
namespace CardVerif.Gin
open CardVerif

/-! ## §1 the invariant -/

/-- `Live` with the last-draw clause weakened to what holds for a game handed over on a discard turn -/
structure gvh_LiveW (g : GState) : Prop where
  p1_len : g.p1.length = g.params.cardsDealt + (if g.turn = .p1Discards then 1 else 0)
  p2_len : g.p2.length = g.params.cardsDealt + (if g.turn = .p2Discards then 1 else 0)
  no_draw_from_deck : g.turn.isDrawFromDeck = false
  knock_rummy : g.turn.isKnock = true → g.params.variant = .rummy
  stock : g.turn.isDiscard = false → g.turn.isKnock = false → g.params.endCardsInDeck < g.deck.length
  stock_le : g.params.endCardsInDeck ≤ g.deck.length
  last_draw : g.turn.isDiscard = true → ∀ c, g.lastDraw = some c → c ∈ g.handOf g.turn.owner

theorem Live.gvh_toW {g : GState} (hl : Live g) : gvh_LiveW g :=
  ⟨hl.p1_len, hl.p2_len, hl.no_draw_from_deck, hl.knock_rummy, hl.stock, hl.stock_le, fun ht c hc => by
    obtain ⟨c', h1, h2⟩ := hl.last_draw ht
    rw [h1] at hc; cases hc; exact h2⟩

/-- off the discard turns the two notions agree -/
theorem gvh_LiveW.toLive {g : GState} (hl : gvh_LiveW g) (ht : g.turn.isDiscard = false) : Live g :=
  ⟨hl.p1_len, hl.p2_len, hl.no_draw_from_deck, hl.knock_rummy, hl.stock, hl.stock_le, fun h => by
    rw [ht] at h; cases h⟩

/-- the moves other than a discard are accepted off the discard turns only -/
theorem gvh_not_discard_of_pass {g g' : GState} (h : g.firstTurnPass = .ok g') : g.turn.isDiscard = false := by
  have := (firstTurnPass_ok.1 h).1
  cases hT : g.turn <;> simp_all [Turn.isFirstDraw, Turn.isDiscard]

theorem gvh_not_discard_of_draw {g g' : GState} {d : Bool} (h : g.drawCard d = .ok g') :
    g.turn.isDiscard = false := by
  cases d
  · obtain ⟨c, rest, hturn, -⟩ := drawCard_false_ok.1 h
    cases hT : g.turn <;> simp_all [Turn.isDraw, Turn.isDrawFromDeck, Turn.isDiscard]
  · obtain ⟨c, rest, hturn, -⟩ := drawCard_true_ok.1 h
    cases hT : g.turn <;> simp_all [Turn.isDraw, Turn.isDrawFromDeck, Turn.isDiscard, Turn.isFirstDraw]

theorem gvh_not_discard_of_knock {shuffle : List Card → List Card} {g g' : GState} {k : Bool}
    {ms : Option (List (List Card))} (h : g.decideKnock shuffle k ms = .ok g') : g.turn.isDiscard = false := by
  have := (decideKnock_ok.1 h).1
  cases hT : g.turn <;> simp_all [Turn.isKnock, Turn.isDiscard]

/-- `Live.discardCard` does not look at the last-draw clause (the proof is the one of `GinInv.lean`) -/
theorem gvh_LiveW.discardCard {shuffle : List Card → List Card} (hs : ∀ l, (shuffle l).Perm l) {g g' : GState}
    {c : Card} (hv : IsVariant g.params) (hn : g.allCards.Nodup) (hl : gvh_LiveW g)
    (h : g.discardCard shuffle c = .ok g') (hc : g'.complete = false) : Live g' := by
  obtain ⟨hturn, hlen, hmem, dw, -, ⟨-, rfl⟩ | ⟨-, oppDw, -, rfl⟩⟩ := discardCard_ok.1 h
  · obtain ⟨heq, -, hwall⟩ := discardFinish_live shuffle _ hc
    rw [heq]
    have hn1 : g.p1.Nodup := by
      unfold GState.allCards at hn
      exact (List.nodup_append.1 (List.nodup_append.1 hn).1).2.1
    have hn2 : g.p2.Nodup := by
      unfold GState.allCards at hn
      exact (List.nodup_append.1 hn).2.1
    have hp1 := hl.p1_len
    have hp2 := hl.p2_len
    have hsl := hl.stock_le
    clear hl
    -- the hands after the discard
    have hlens : (discardCore g c (discardTurn g.params.variant g.turn dw)).p1.length = g.params.cardsDealt ∧
        (discardCore g c (discardTurn g.params.variant g.turn dw)).p2.length = g.params.cardsDealt := by
      cases hT : g.turn <;> simp [hT, Turn.isDiscard] at hturn <;>
        simp [hT, Turn.owner, GState.handOf] at hlen hmem <;> simp [hT] at hp1 hp2
      · have := length_filter_bne hn1 hmem
        simp [discardCore, hT, Turn.owner]
        omega
      · have := length_filter_bne hn2 hmem
        simp [discardCore, hT, Turn.owner]
        omega
    by_cases hk : g.params.variant = .rummy ∧ dw ≤ 10
    · -- knock offered: no wall check
      have htn : discardTurn g.params.variant g.turn dw = ownMayKnock g.turn.owner := if_pos hk
      rw [htn] at hlens ⊢
      have hk' : (ownMayKnock g.turn.owner).isKnock = true := by cases g.turn.owner <;> rfl
      have hpre : discardPre shuffle (discardCore g c (ownMayKnock g.turn.owner)) =
          { discardCore g c (ownMayKnock g.turn.owner) with turns := g.turns + 1 } := by
        rw [discardPre_eq, if_pos (by exact hk')]; rfl
      rw [hpre]
      constructor <;> cases hO : g.turn.owner <;>
        simp_all [discardCore, ownMayKnock, Turn.isDrawFromDeck, Turn.isKnock, Turn.isDiscard]
    · -- the opponent draws next: wall check
      have htn : discardTurn g.params.variant g.turn dw = oppDraws g.turn.owner := if_neg hk
      rw [htn] at hlens hwall ⊢
      have hk' : (oppDraws g.turn.owner).isKnock = false := by cases g.turn.owner <;> rfl
      have hst := checkWall_stock shuffle hs (g := discardCore g c (oppDraws g.turn.owner)) hv hsl
        (fun _ => by simp [discardCore]) (hwall hk')
      have hpre : discardPre shuffle (discardCore g c (oppDraws g.turn.owner)) =
          { ((discardCore g c (oppDraws g.turn.owner)).checkWall shuffle).2 with turns := g.turns + 1 } := by
        rw [discardPre_eq, if_neg (by simp [discardCore, hk'])]
        simp [discardCore]
      rw [hpre]
      constructor <;> cases hO : g.turn.owner <;>
        simp_all [oppDraws, Turn.isDrawFromDeck, Turn.isKnock, Turn.isDiscard] <;> omega
  · have := (discardFinish_live shuffle _ hc).2.1
    simp [discardCore] at this

/-- one accepted move from a weakly live state gives a `Live` state (if the game goes on) -/
theorem gvh_LiveW.step {shuffle : List Card → List Card} (hs : ∀ l, (shuffle l).Perm l) {g g' : GState} {m : Move}
    (hv : IsVariant g.params) (hn : g.allCards.Nodup) (hl : gvh_LiveW g) (h : g.apply shuffle m = .ok g')
    (hc : g'.complete = false) : Live g' := by
  cases m with
  | pass => exact (hl.toLive (gvh_not_discard_of_pass h)).firstTurnPass h
  | draw d => exact (hl.toLive (gvh_not_discard_of_draw h)).drawCard h
  | discard c => exact hl.discardCard hs hv hn h hc
  | knock k ms => exact (hl.toLive (gvh_not_discard_of_knock h)).decideKnock hs hv h hc

/-- what the C17 theorems need of a reachable state -/
structure gvh_Inv (g : GState) : Prop where
  variant : IsVariant g.params
  nodup : g.allCards.Nodup
  live : g.complete = false → gvh_LiveW g

/-- the fields of a game built with an explicit map -/
theorem DealH.gvh_init {g0 : GState} (hd : DealH g0) :
    g0.firstTurn = g0.turn ∧ g0.lastDraw = none ∧ g0.lastFromDiscard = none ∧ g0.complete = false ∧
      g0.turns = 0 ∧ g0.shuffles = 0 ∧ g0.p1Points = none ∧ g0.p2Points = none := by
  obtain ⟨params, deck, discard, p1, p2, turn, h, hnew⟩ := hd.fresh
  simp only [newGameWith, Except.ok.injEq] at hnew
  subst hnew
  exact ⟨rfl, rfl, rfl, rfl, rfl, rfl, rfl, rfl⟩

theorem DealH.gvh_liveW {g0 : GState} (hd : DealH g0) : gvh_LiveW g0 :=
  ⟨hd.p1_len, hd.p2_len, hd.observable, hd.knock_rummy, hd.stock, hd.stock_le, fun _ c hc => by
    rw [hd.gvh_init.2.1] at hc; cases hc⟩

theorem DealH.gvh_inv {g0 : GState} (hd : DealH g0) : gvh_Inv g0 :=
  ⟨hd.variant, hd.nodup, fun _ => hd.gvh_liveW⟩

theorem gvh_Inv.step {shuffle : List Card → List Card} (hs : ∀ l, (shuffle l).Perm l) {g g' : GState} {m : Move}
    (hi : gvh_Inv g) (hc : g.complete = false) (h : g.apply shuffle m = .ok g') : gvh_Inv g' := by
  obtain ⟨hp, -⟩ := apply_frame h
  have hperm := apply_perm hs hi.nodup h
  exact ⟨by rw [hp]; exact hi.variant, hperm.symm.nodup_iff.1 hi.nodup,
    fun hc' => ((hi.live hc).step hs hi.variant hi.nodup h hc').gvh_toW⟩

/-- **the invariant holds in every state reachable from a game started with a map** -/
theorem gvh_reach_inv {shuffle : List Card → List Card} (hs : ∀ l, (shuffle l).Perm l) {g0 g : GState}
    (hd : DealH g0) (h : Reach shuffle g0 g) : gvh_Inv g := by
  induction h with
  | init => exact hd.gvh_inv
  | step m _ hc happ ih => exact ih.step hs hc happ

/-! ## §2 the map stays truthful -/

/-- `HudSound.step` under the weak invariant (only a draw looks at the turn) -/
theorem gvh_hudSound_step {shuffle : List Card → List Card} {g g' : GState} {m : Move} (hl : gvh_LiveW g)
    (hs : HudSound g) (h : g.apply shuffle m = .ok g') : HudSound g' := by
  cases m with
  | pass => exact hs.firstTurnPass h
  | draw d => exact hs.drawCard (hl.toLive (gvh_not_discard_of_draw h)) h
  | discard c => exact hs.discardCard h
  | knock k ms => exact hs.decideKnock h

/-- **the public card map is truthful in every state reachable from a game started with a truthful map** -/
theorem gvh_reach_hudSound {shuffle : List Card → List Card} (hs : ∀ l, (shuffle l).Perm l) {g0 g : GState}
    (hd : DealH g0) (h : Reach shuffle g0 g) : HudSound g := by
  induction h with
  | init => exact hd.hud_sound
  | @step g g' m hr hc happ ih => exact gvh_hudSound_step ((gvh_reach_inv hs hd hr).live hc) ih happ

/-! ## §3 secrecy -/

theorem mem_hudHand {hud : List (Card × Hud)} {l : Hud} {c : Card} : c ∈ hudHand hud l ↔ (c, l) ∈ hud := by
  unfold hudHand
  simp only [List.mem_map, List.mem_filter, beq_iff_eq]
  constructor
  · rintro ⟨⟨x, l'⟩, ⟨hm, rfl⟩, rfl⟩
    exact hm
  · intro hm
    exact ⟨(c, l), ⟨hm, rfl⟩, rfl⟩

/-- forgetting the ghost state -/
theorem PReachH.gvh_reach {shuffle : List Card → List Card} {g0 : GState} {ps : PState}
    (h : PReachH shuffle g0 ps) : Reach shuffle g0 ps.g := by
  induction h with
  | init => exact .init
  | step m _ hc happ ih => rw [pubStep_g]; exact .step m ih hc happ

/-- what a truthful map says about the hands is no secret -/
theorem gvh_secret_initH {g0 : GState} (hs : HudSound g0) : Secret (PState.initH g0) := by
  rw [hudSound_iff] at hs
  refine ⟨?_, ?_, ?_⟩
  · rintro ⟨x, l⟩ hm
    change (x, l) ∈ g0.hud at hm
    constructor <;> intro h <;> simp only at h <;> subst h <;> exact mem_hudHand.2 hm
  · intro c hc
    exact hs c .p1 (mem_hudHand.1 hc)
  · intro c hc
    exact hs c .p2 (mem_hudHand.1 hc)

/-- `Secret.step` under the weak invariant (the discard case is the one of `GinViews.lean`; it does not look at the
invariant) -/
theorem gvh_secret_step {shuffle : List Card → List Card} {ps : PState} {g' : GState} {m : Move}
    (hl : gvh_LiveW ps.g) (hsec : Secret ps) (hs' : HudSound g') (h : ps.g.apply shuffle m = .ok g') :
    Secret (pubStep ps m g') := by
  cases m with
  | pass => exact hsec.step (hl.toLive (gvh_not_discard_of_pass h)) hs' h
  | draw d => exact hsec.step (hl.toLive (gvh_not_discard_of_draw h)) hs' h
  | knock k ms => exact hsec.step (hl.toLive (gvh_not_discard_of_knock h)) hs' h
  | discard c =>
    rw [pubStep_eq]
    split
    · exact Secret.of_hudSound hs'
    · obtain ⟨g, a, b⟩ := ps
      simp only at hl h
      have key : ∀ g1 : GState, g1.hud = g.hud → g1.p1 = g.p1 → g1.p2 = g.p2 → g1.turn = g.turn →
          g1.discard = g.discard → ∀ t,
          Secret ⟨discardFinish shuffle (Gin.discardCore g1 c t), (pubNext ⟨g, a, b⟩ (.discard c)).1,
            (pubNext ⟨g, a, b⟩ (.discard c)).2⟩ := by
        intro g1 e1 e2 e3 e4 e5 t
        have h1 : Secret ⟨g1, a, b⟩ := hsec.of_sub (by rw [e1]; exact fun _ h => h) e2 e3
        have h2 := (h1.discardCore c t).of_sub (discardFinish_hud_sub shuffle _) (by simp) (by simp)
        rw [e4] at h2
        simp only [pubNext]
        cases ho : g.turn.owner <;> simpa [ho] using h2
      obtain ⟨-, -, -, dw, -, ⟨-, rfl⟩ | ⟨-, oppDw, -, rfl⟩⟩ := discardCard_ok.1 h
      · exact key g rfl rfl rfl rfl rfl _
      · exact key (g.endGame _ _ _) rfl rfl rfl rfl rfl _

/-- **secrecy holds along every play of a game started with a truthful map** -/
theorem gvh_preach_secret {shuffle : List Card → List Card} (hs : ∀ l, (shuffle l).Perm l) {g0 : GState}
    {ps : PState} (hd : DealH g0) (h : PReachH shuffle g0 ps) : Secret ps := by
  induction h with
  | init => exact gvh_secret_initH hd.hud_sound
  | @step ps g' m hp hc happ ih =>
    have hr := hp.gvh_reach
    have hl := (gvh_reach_inv hs hd hr).live hc
    exact gvh_secret_step hl ih (gvh_reach_hudSound hs hd (.step m hr hc happ)) happ

/-- a fresh deal starts with nothing public: its `PReach` is a `PReachH` -/
theorem gvh_preach_of_deal {shuffle : List Card → List Card} {g0 : GState} {ps : PState} (hd : Deal g0)
    (h : PReach shuffle g0 ps) : PReachH shuffle g0 ps := by
  induction h with
  | init =>
    obtain ⟨up, -, -, -, -, -, hhud, -⟩ := hd.init
    have : PState.initH g0 = ⟨g0, [], []⟩ := by
      unfold PState.initH hudHand
      rw [hhud]
      rfl
    rw [← this]
    exact .init
  | step m _ hc happ ih => exact .step m ih hc happ

/-! ## §4 views -/

/-- `getAction_wait` only needs the turn to be observable -/
theorem gvh_getAction_wait {g : GState} (hc : g.complete = false) (hl : gvh_LiveW g) :
    g.getAction g.turn.owner ≠ .wait ∧ g.getAction (!g.turn.owner) = .wait := by
  have hnd := hl.no_draw_from_deck
  clear hl
  cases hT : g.turn <;>
    simp_all [GState.getAction, Turn.p1, Turn.owner, Turn.isDraw, Turn.isDiscard, Turn.isKnock,
      Turn.isDrawFromDeck]

/-- the drawn card a view shows is the viewer's own -/
theorem gvh_view_drawn {g : GState} (hl : gvh_LiveW g) (isP1 : Bool) (c : Card)
    (hdc : (if g.getAction isP1 == .discard then g.lastDraw else none) = some c) : c ∈ g.handOf isP1 := by
  by_cases ha : g.getAction isP1 = .discard
  · obtain ⟨-, hp, ht⟩ := getAction_eq_discard ha
    have : g.lastDraw = some c := by simpa [ha] using hdc
    rw [hp]
    exact hl.last_draw ht c this
  · simp [ha] at hdc

/-! ## §5 the map stays a dict -/

/-- the keys of a map are pairwise different -/
def gvh_KeysNodup (h : List (Card × Hud)) : Prop := (h.map (·.1)).Nodup

theorem gvh_keys_hudSet {h : List (Card × Hud)} (c : Card) (v : Hud) (hn : gvh_KeysNodup h) :
    gvh_KeysNodup (hudSet h c v) := by
  unfold hudSet
  split
  · have : (h.map fun e => if (e.1 == c) = true then (c, v) else e).map (·.1) = h.map (·.1) := by
      rw [List.map_map]
      refine List.map_congr_left fun e _ => ?_
      by_cases hec : e.1 = c <;> simp [hec]
    unfold gvh_KeysNodup
    rw [this]
    exact hn
  · rename_i hany
    simp only [List.any_eq_true, beq_iff_eq, not_exists, not_and] at hany
    unfold gvh_KeysNodup at hn ⊢
    rw [List.map_append, List.nodup_append]
    refine ⟨hn, by simp, ?_⟩
    intro a ha b hb
    simp only [List.map_cons, List.map_nil, List.mem_singleton] at hb
    subst hb
    obtain ⟨e, he, rfl⟩ := List.mem_map.1 ha
    exact hany e he

theorem gvh_keys_foldl (l base : List (Card × Hud)) (hn : gvh_KeysNodup base) :
    gvh_KeysNodup (l.foldl (fun h e => hudSet h e.1 e.2) base) := by
  induction l generalizing base with
  | nil => exact hn
  | cons a t ih => exact ih _ (gvh_keys_hudSet a.1 a.2 hn)

theorem gvh_keys_revealHud (p1 p2 : List Card) : gvh_KeysNodup (revealHud p1 p2) :=
  gvh_keys_foldl _ _ (gvh_keys_foldl _ _ List.nodup_nil)

theorem gvh_keys_filter {h : List (Card × Hud)} (p : Card × Hud → Bool) (hn : gvh_KeysNodup h) :
    gvh_KeysNodup (h.filter p) :=
  List.Nodup.sublist ((List.filter_sublist (l := h)).map (·.1)) hn

theorem gvh_keys_checkWall (shuffle : List Card → List Card) {g : GState} (hn : gvh_KeysNodup g.hud) :
    gvh_KeysNodup (g.checkWall shuffle).2.hud := by
  rcases checkWall_hud_cases shuffle g with ⟨h, -⟩ | ⟨h, -⟩ <;> rw [h]
  · exact hn
  · exact gvh_keys_filter _ hn

theorem gvh_keys_discardFinish (shuffle : List Card → List Card) {g : GState} (hn : gvh_KeysNodup g.hud) :
    gvh_KeysNodup (discardFinish shuffle g).hud := by
  rw [discardFinish_hud, discardPre_eq]
  split
  · exact hn
  · exact gvh_keys_checkWall shuffle hn

theorem gvh_keys_discardCore {g : GState} (c : Card) (t : Turn) (hn : gvh_KeysNodup g.hud) :
    gvh_KeysNodup (discardCore g c t).hud := by
  unfold discardCore
  apply gvh_keys_hudSet
  cases g.discard.getLast? with
  | none => exact hn
  | some top => exact gvh_keys_hudSet _ _ hn

/-- every accepted move keeps the keys of the map pairwise different -/
theorem gvh_keys_step {shuffle : List Card → List Card} {g g' : GState} {m : Move} (hn : gvh_KeysNodup g.hud)
    (h : g.apply shuffle m = .ok g') : gvh_KeysNodup g'.hud := by
  cases m with
  | pass =>
    obtain ⟨-, ⟨-, rfl⟩ | ⟨-, c, rest, -, rfl⟩⟩ := firstTurnPass_ok.1 h
    · exact hn
    · show gvh_KeysNodup (if rest.isEmpty then _ else _)
      split
      · exact gvh_keys_revealHud _ _
      · exact hn
  | draw d =>
    cases d
    · obtain ⟨c, rest, -, -, -, -, rfl⟩ := drawCard_false_ok.1 h
      show gvh_KeysNodup (if rest.isEmpty then _ else _)
      split
      · exact gvh_keys_revealHud _ _
      · exact hn
    · obtain ⟨c, rest, -, -, -, -, rfl⟩ := drawCard_true_ok.1 h
      exact gvh_keys_hudSet _ _ hn
  | discard c =>
    obtain ⟨-, -, -, dw, -, ⟨-, rfl⟩ | ⟨-, oppDw, -, rfl⟩⟩ := discardCard_ok.1 h
    · exact gvh_keys_discardFinish shuffle (gvh_keys_discardCore c _ hn)
    · exact gvh_keys_discardFinish shuffle (gvh_keys_discardCore (g := g.endGame _ _ _) c _ hn)
  | knock k ms =>
    obtain ⟨-, ⟨-, ⟨-, rfl⟩ | ⟨-, -, rfl⟩⟩ | ⟨-, a, b, -, -, rfl⟩⟩ := decideKnock_ok.1 h
    · exact gvh_keys_checkWall shuffle hn
    · exact gvh_keys_checkWall shuffle hn
    · exact hn

theorem gvh_reach_keys {shuffle : List Card → List Card} {g0 g : GState} (hd : DealH g0)
    (h : Reach shuffle g0 g) : gvh_KeysNodup g.hud := by
  induction h with
  | init => exact hd.hud_keys
  | step m _ _ happ ih => exact gvh_keys_step ih happ

end CardVerif.Gin
