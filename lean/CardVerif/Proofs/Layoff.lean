import CardVerif.Proofs.GinProtocol
import CardVerif.Proofs.MeldEnum
import CardVerif.Proofs.MeldSearch
/-!
# C12 — gin lay-offs: helper lemmas for `layoff_deadwood`

* part A: how `_split_sets_runs` reads legal melds (`classify_set`, `classify_run`, `splitSetsRuns_spec`);
* part B: the chains built by `_get_suit_run_layoffs` (`extendLow_spec`, `extendHigh_spec`, the fold invariant `Inv`,
  `suitRunLayoffs_sound`, `suitRunLayoffs_reach`);
* part C: `_get_set_layoffs` / `_get_run_layoffs` on cards;
* part D: the candidates of `layoff_deadwood` (`layoffDeadwood_spec`, `candidate_sound`, `candidate_optimal`).
-/

/-!
# C12 — lay-offs, part A: how `_split_sets_runs` reads legal melds
-/
namespace CardVerif.Gin
namespace Layoff
open List MeldSearch

/-! ## generic list helpers -/

theorem eq_singleton_of_nodup {α : Type} {l : List α} {k : α} (hnd : l.Nodup) (hall : ∀ x ∈ l, x = k)
    (hne : l ≠ []) : l = [k] := by
  match l, hnd, hall, hne with
  | [a], _, hall, _ => rw [hall a mem_cons_self]
  | a :: b :: t, hnd, hall, _ =>
    have h1 := hall a mem_cons_self
    have h2 := hall b (mem_cons_of_mem _ mem_cons_self)
    rw [nodup_cons] at hnd
    exact absurd (by rw [h1, h2]; exact mem_cons_self) hnd.1

theorem dedupFirst_const {α : Type} [DecidableEq α] {l : List α} {k : α} (hne : l ≠ []) (hall : ∀ x ∈ l, x = k) :
    dedupFirst l = [k] := by
  apply eq_singleton_of_nodup (nodup_dedupFirst l)
  · intro x hx; exact hall x ((mem_dedupFirst l x).1 hx)
  · obtain ⟨a, ha⟩ := exists_mem_of_ne_nil l hne
    exact ne_nil_of_mem ((mem_dedupFirst l a).2 ha)

theorem part_single (key val : Card → Nat) {cards : List Card} {k : Nat} (hne : cards ≠ [])
    (hall : ∀ c ∈ cards, key c = k) : part key val cards = [(k, cards.map val)] := by
  unfold part
  have h1 : dedupFirst (cards.map key) = [k] := by
    apply dedupFirst_const
    · simpa using hne
    · intro x hx
      obtain ⟨c, hc, rfl⟩ := mem_map.1 hx
      exact hall c hc
  rw [h1]
  simp only [map_cons, map_nil, vals]
  congr 3
  rw [filter_eq_self]
  intro c hc
  simp [hall c hc]

theorem length_part (key val : Card → Nat) (cards : List Card) :
    (part key val cards).length = (dedupFirst (cards.map key)).length := by
  simp [part]

/-! ## sets -/

/-- a set is read as `(rank, number of cards)` -/
theorem classify_set {m : List Card} (hs : IsSet m) :
    ∃ r, (∀ c ∈ m, c.rank = r) ∧ classify m = .ok (.inl (r, m.length)) := by
  obtain ⟨hnd, hl, r, hr⟩ := hs
  refine ⟨r, hr, ?_⟩
  have hne : m ≠ [] := by intro h; rw [h] at hl; simp at hl
  have hrp : rankPartition m = [(r, m.map Card.suit)] := by
    rw [rankPartition_eq]; exact part_single _ _ hne hr
  have hsp : (suitPartition m).length ≠ 1 := by
    rw [suitPartition_eq, length_part]
    intro h1
    match m, hnd, hl, hr with
    | a :: b :: t, hnd, _, hr =>
      obtain ⟨x, hx⟩ := length_eq_one_iff.1 h1
      have ha : a.suit ∈ dedupFirst ((a :: b :: t).map Card.suit) := (mem_dedupFirst _ _).2 (by simp)
      have hb : b.suit ∈ dedupFirst ((a :: b :: t).map Card.suit) := (mem_dedupFirst _ _).2 (by simp)
      rw [hx, mem_singleton] at ha hb
      have hab : a = b := by
        have h1 := hr a mem_cons_self
        have h2 := hr b (mem_cons_of_mem _ mem_cons_self)
        cases a; cases b; simp_all
      rw [nodup_cons] at hnd
      exact hnd.1 (hab ▸ mem_cons_self)
  unfold classify
  rcases hsp' : suitPartition m with _ | ⟨⟨s, rs⟩, _ | ⟨e2, t⟩⟩
  · simp [hrp]
  · rw [hsp'] at hsp; simp at hsp
  · simp [hrp]

/-! ## runs -/

/-- the ranks of the run `lo, len` sorted ace-low -/
def aceLowRanks (lo len : Nat) : List Nat :=
  if lo = 1 then 14 :: List.range' 2 (len - 1)
  else if lo + len = 15 then 14 :: List.range' lo (len - 1)
  else List.range' lo len

/-- what `_split_sets_runs` records for the run `lo, len`: its end values; the full suit is read as `2 … A` -/
def recRun (lo len : Nat) : Nat × Nat := if lo = 1 ∧ len = 13 then (2, 14) else (lo, lo + len - 1)

theorem map_rankOfValue_range' {a n : Nat} (ha : 2 ≤ a) : (List.range' a n).map rankOfValue = List.range' a n := by
  conv_rhs => rw [← List.map_id (List.range' a n)]
  apply map_congr_left
  intro v hv
  rw [mem_range'_1] at hv
  rw [rankOfValue_of_ne_one v (by omega)]; rfl

theorem aceLowRanks_perm {lo len : Nat} (h3 : 3 ≤ len) (hlo : 1 ≤ lo) (hhi : lo + len ≤ 15) :
    (aceLowRanks lo len).Perm ((List.range' lo len).map rankOfValue) := by
  unfold aceLowRanks
  obtain ⟨k, rfl⟩ : ∃ k, len = k + 1 := ⟨len - 1, by omega⟩
  split
  · rename_i h1
    subst h1
    rw [List.range'_succ, map_cons, map_rankOfValue_range' (by omega)]
    exact Perm.refl _
  · split
    · rename_i h1 h15
      rw [List.range'_1_concat, map_append, map_rankOfValue_range' (by omega)]
      have : lo + k = 14 := by omega
      simp only [Nat.add_sub_cancel, map_cons, map_nil, this]
      exact (perm_append_singleton _ _).symm
    · rw [map_rankOfValue_range' (by omega)]

theorem lowValue_of_ne {r : Nat} (h : r ≠ 14) : lowValue r = r := by simp [lowValue, h]

theorem aceLowRanks_sorted {lo len : Nat} (h3 : 3 ≤ len) (h13 : len ≤ 13) (hlo : 1 ≤ lo) (hhi : lo + len ≤ 15) :
    (aceLowRanks lo len).Pairwise (fun a b => lowValue a ≤ lowValue b) := by
  have key : ∀ a n, 2 ≤ a → a + n ≤ 14 → (List.range' a n).Pairwise (fun a b => lowValue a ≤ lowValue b) := by
    intro a n ha hn
    refine Pairwise.imp_of_mem ?_ (List.pairwise_lt_range' (s := a) (n := n))
    intro x y hx hy hxy
    rw [mem_range'_1] at hx hy
    rw [lowValue_of_ne (by omega), lowValue_of_ne (by omega)]; omega
  have key2 : ∀ a n, 2 ≤ a → a + n ≤ 14 →
      (14 :: List.range' a n).Pairwise (fun a b => lowValue a ≤ lowValue b) := by
    intro a n ha hn
    refine pairwise_cons.2 ⟨?_, key a n ha hn⟩
    intro x hx
    rw [mem_range'_1] at hx
    rw [lowValue_of_ne (show x ≠ 14 by omega)]
    have : lowValue 14 = 1 := rfl
    rw [this]; omega
  unfold aceLowRanks
  split
  · exact key2 2 (len - 1) (by omega) (by omega)
  · split
    · exact key2 lo (len - 1) (by omega) (by omega)
    · exact key lo len (by omega) (by omega)

theorem pairwise_insertBy_key {α : Type} (key : α → Nat) (x : α) (l : List α)
    (h : l.Pairwise (fun a b => key a ≤ key b)) :
    (insertBy (fun a b => decide (key a ≤ key b)) x l).Pairwise (fun a b => key a ≤ key b) := by
  induction l with
  | nil => simp [insertBy]
  | cons y ys ih =>
    simp only [insertBy]
    split
    · rename_i hxy
      have hxy : key x ≤ key y := of_decide_eq_true hxy
      rw [pairwise_cons] at h
      refine pairwise_cons.2 ⟨?_, pairwise_cons.2 h⟩
      intro a ha
      rcases mem_cons.1 ha with rfl | ha
      · exact hxy
      · exact Nat.le_trans hxy (h.1 a ha)
    · rename_i hxy
      have hxy : ¬ key x ≤ key y := fun hh => hxy (decide_eq_true hh)
      rw [pairwise_cons] at h
      refine pairwise_cons.2 ⟨?_, ih h.2⟩
      intro a ha
      have := (insertBy_perm _ x ys).mem_iff.1 ha
      rcases mem_cons.1 this with rfl | h'
      · omega
      · exact h.1 a h'

theorem pairwise_sortBy_key {α : Type} (key : α → Nat) (l : List α) :
    (sortBy (fun a b => decide (key a ≤ key b)) l).Pairwise (fun a b => key a ≤ key b) := by
  induction l with
  | nil => exact Pairwise.nil
  | cons y ys ih => exact pairwise_insertBy_key key y _ ih

/-- sorting the ranks of a run ace-low -/
theorem sort_run_ranks {ranks : List Nat} {lo len : Nat} (h3 : 3 ≤ len) (h13 : len ≤ 13) (hlo : 1 ≤ lo)
    (hhi : lo + len ≤ 15)
    (hp : ranks.Perm ((List.range' lo len).map rankOfValue)) :
    sortBy (fun a b => decide (lowValue a ≤ lowValue b)) ranks = aceLowRanks lo len := by
  have hperm : (sortBy (fun a b => decide (lowValue a ≤ lowValue b)) ranks).Perm (aceLowRanks lo len) :=
    (sortBy_perm _ ranks).trans (hp.trans (aceLowRanks_perm h3 hlo hhi).symm)
  refine Perm.eq_of_pairwise (le := fun a b => lowValue a ≤ lowValue b) ?_ (pairwise_sortBy_key lowValue ranks)
    (aceLowRanks_sorted h3 h13 hlo hhi) hperm
  intro a b ha hb h1 h2
  have hbnd : ∀ x ∈ aceLowRanks lo len, 2 ≤ x ∧ x ≤ 14 := by
    intro x hx
    have := (aceLowRanks_perm h3 hlo hhi).mem_iff.1 hx
    obtain ⟨v, hv, rfl⟩ := mem_map.1 this
    rw [mem_range'_1] at hv
    by_cases hv1 : v = 1
    · subst hv1; simp [rankOfValue]
    · rw [rankOfValue_of_ne_one v hv1]; omega
  have ha' := hbnd a (hperm.mem_iff.1 ha)
  have hb' := hbnd b hb
  by_cases ha14 : a = 14 <;> by_cases hb14 : b = 14
  · rw [ha14, hb14]
  · rw [ha14, lowValue_of_ne hb14] at h2
    have : lowValue 14 = 1 := rfl
    omega
  · rw [hb14, lowValue_of_ne ha14] at h1
    have : lowValue 14 = 1 := rfl
    omega
  · rw [lowValue_of_ne ha14, lowValue_of_ne hb14] at h1 h2
    omega

theorem classifyRun_run (s : Nat) {ranks : List Nat} {lo len : Nat} (h3 : 3 ≤ len) (h13 : len ≤ 13) (hlo : 1 ≤ lo)
    (hhi : lo + len ≤ 15) (hp : ranks.Perm ((List.range' lo len).map rankOfValue)) :
    classifyRun s ranks = .ok (.inr (s, recRun lo len)) := by
  unfold classifyRun
  simp only [sort_run_ranks h3 h13 hlo hhi hp]
  unfold aceLowRanks recRun
  obtain ⟨k, rfl⟩ : ∃ k, len = k + 3 := ⟨len - 3, by omega⟩
  have e : k + 3 - 1 = (k + 1) + 1 := by omega
  have hlast : ∀ (a b : Nat) (l : List Nat), (a :: (l ++ [b])).getLast? = some b := by
    intro a b l; rw [← cons_append, getLast?_concat]
  by_cases h1 : lo = 1
  · subst h1
    rw [if_pos rfl, e, List.range'_1_concat, hlast]
    simp only [head?_cons, tail_cons, List.range'_succ, cons_append]
    by_cases hk : k = 10
    · subst hk; simp [lowValue]
    · have h2 : ¬ (1 + (k + 3) - 1 = 13) := by omega
      have h3 : ¬ (1 + (k + 3) - 1 = 14) := by omega
      have h4 : ¬ (k + 3 = 13) := by omega
      have h7 : lowValue 14 = 1 := rfl
      have h8 : 2 + (k + 1) = 1 + (k + 3) - 1 := by omega
      simp only [beq_iff_eq, h2, h3, h4, if_false, and_false, h7, h8, Bool.and_eq_true]
  · rw [if_neg h1]
    have hne : ¬ (lo = 1 ∧ k + 3 = 13) := fun h => h1 h.1
    rw [if_neg hne]
    by_cases h15 : lo + (k + 3) = 15
    · rw [if_pos h15, e, List.range'_1_concat, hlast]
      simp only [head?_cons, tail_cons, List.range'_succ, cons_append]
      have h2 : lo + (k + 1) = 13 := by omega
      have h5 : lo ≠ 14 := by omega
      have : lo + (k + 3) - 1 = 14 := by omega
      simp only [h2, beq_self_eq_true, Bool.and_self, if_true, lowValue_of_ne h5, this]
    · rw [if_neg h15]
      have e2 : k + 3 = (k + 2) + 1 := by omega
      have hl : (List.range' lo (k + 3)).getLast? = some (lo + (k + 2)) := by
        rw [e2, List.range'_1_concat, getLast?_concat]
      rw [hl]
      simp only [e2, List.range'_succ, head?_cons]
      have h5 : lo ≠ 14 := by omega
      have h6 : ¬ (lo + (k + 2) = 14) := by omega
      have : lo + (k + 2) = lo + (k + 2 + 1) - 1 := by omega
      simp only [beq_iff_eq, h5, if_false, lowValue_of_ne h5, h6, ← this, Bool.and_eq_true, false_and]

/-- a run is read as `(suit, (low value, high value))` -/
theorem classify_run {m : List Card} {s lo len : Nat} (h3 : 3 ≤ len) (h13 : len ≤ 13) (hlo : 1 ≤ lo)
    (hhi : lo + len ≤ 15) (hp : m.Perm (runCards s lo len)) :
    classify m = .ok (.inr (s, recRun lo len)) := by
  have hne : m ≠ [] := by
    intro h; rw [h] at hp; have := hp.length_eq; simp at this; omega
  have hsuit : ∀ c ∈ m, c.suit = s := by
    intro c hc
    obtain ⟨v, _, _, rfl⟩ := (mem_runCards ..).1 (hp.mem_iff.1 hc); rfl
  have hsp : suitPartition m = [(s, m.map Card.rank)] := by
    rw [suitPartition_eq]; exact part_single _ _ hne hsuit
  have hr : (m.map Card.rank).Perm ((List.range' lo len).map rankOfValue) := by
    have := hp.map Card.rank
    simpa [runCards, Function.comp_def] using this
  unfold classify
  rw [hsp]
  exact classifyRun_run s h3 h13 hlo hhi hr

/-- the full suit read ace-low and ace-high -/
theorem runCards_full (s : Nat) : (runCards s 1 13).Perm (runCards s 2 13) := by
  unfold runCards
  have e1 : List.range' 1 13 = 1 :: List.range' 2 12 := rfl
  have e2 : List.range' 2 13 = List.range' 2 12 ++ [14] := rfl
  rw [e1, e2, map_cons, map_append]
  exact (perm_append_singleton _ _).symm

/-- how a legal meld is read; a run is given by its normalised reading (the full suit as `2 … A`) -/
theorem classify_legal {m : List Card} (h : LegalMeld m) :
    (∃ r, IsSet m ∧ (∀ c ∈ m, c.rank = r) ∧ classify m = .ok (.inl (r, m.length))) ∨
    (∃ s lo len, 3 ≤ len ∧ len ≤ 13 ∧ 1 ≤ lo ∧ lo + len ≤ 15 ∧ m.Perm (runCards s lo len) ∧
      classify m = .ok (.inr (s, (lo, lo + len - 1)))) := by
  rcases h with hs | ⟨s, lo, len, h3, h13, hlo, hhi, hp⟩
  · obtain ⟨r, hr, hc⟩ := classify_set hs
    exact .inl ⟨r, hs, hr, hc⟩
  · right
    by_cases hfull : lo = 1 ∧ len = 13
    · obtain ⟨rfl, rfl⟩ := hfull
      have hp' := hp.trans (runCards_full s)
      exact ⟨s, 2, 13, by omega, by omega, by omega, by omega, hp',
        classify_run (by omega) (by omega) (by omega) (by omega) hp'⟩
    · refine ⟨s, lo, len, h3, h13, hlo, hhi, hp, ?_⟩
      rw [classify_run h3 h13 hlo hhi hp, recRun, if_neg hfull]

/-! ## `_split_sets_runs` on legal melds -/

/-- the classification as a total function -/
def clf (m : List Card) : Sum (Nat × Nat) (Nat × (Nat × Nat)) :=
  match classify m with | .ok x => x | .error _ => .inl (0, 0)

theorem clf_of_ok {m : List Card} {x} (h : classify m = .ok x) : clf m = x := by simp [clf, h]

theorem mapM_classify {K : List (List Card)} (h : ∀ m ∈ K, ∃ x, classify m = .ok x) :
    K.mapM classify = .ok (K.map clf) := by
  induction K with
  | nil => rfl
  | cons m K ih =>
    obtain ⟨x, hx⟩ := h m mem_cons_self
    rw [List.mapM_cons, hx, ih (fun m' hm' => h m' (mem_cons_of_mem _ hm'))]
    simp [bind, Except.bind, pure, Except.pure, clf_of_ok hx]

def selSet (c : Sum (Nat × Nat) (Nat × (Nat × Nat))) : Option Nat :=
  match c with
  | .inl (r, k) => if k == 3 then some r else none
  | .inr _ => none

theorem selSet_eq_some {c : Sum (Nat × Nat) (Nat × (Nat × Nat))} {r : Nat} :
    selSet c = some r ↔ c = .inl (r, 3) := by
  rcases c with ⟨r', k⟩ | x
  · unfold selSet
    by_cases hk : k = 3
    · subst hk; simp
    · simp [hk]
  · simp [selSet]

def setsOf (K : List (List Card)) : List Nat := (K.map clf).filterMap selSet

def runsAllOf (K : List (List Card)) : List (Nat × (Nat × Nat)) :=
  (K.map clf).filterMap fun c => match c with | .inr x => some x | .inl _ => none

theorem legal_classify_ok {m : List Card} (h : LegalMeld m) : ∃ x, classify m = .ok x := by
  rcases classify_legal h with ⟨r, _, _, hc⟩ | ⟨s, lo, len, _, _, _, _, _, hc⟩ <;> exact ⟨_, hc⟩

theorem splitSetsRuns_of_legal {K : List (List Card)} (h : ∀ m ∈ K, LegalMeld m) :
    splitSetsRuns K = .ok (sortBy (fun a b => decide (rankChar a ≤ rankChar b)) (setsOf K),
      (dedupFirst ((runsAllOf K).map (·.1))).map fun s => (s, ((runsAllOf K).filter (·.1 == s)).map (·.2))) := by
  rw [splitSetsRuns_eq, mapM_classify (fun m hm => legal_classify_ok (h m hm))]
  rfl

theorem mem_setsOf {K : List (List Card)} {r : Nat} : r ∈ setsOf K ↔ ∃ m ∈ K, clf m = .inl (r, 3) := by
  unfold setsOf
  simp only [mem_filterMap, mem_map, selSet_eq_some]
  constructor
  · rintro ⟨c, ⟨m, hm, rfl⟩, hc⟩; exact ⟨m, hm, hc⟩
  · rintro ⟨m, hm, hcl⟩; exact ⟨_, ⟨m, hm, rfl⟩, hcl⟩

theorem mem_runsAllOf {K : List (List Card)} {x : Nat × (Nat × Nat)} :
    x ∈ runsAllOf K ↔ ∃ m ∈ K, clf m = .inr x := by
  unfold runsAllOf
  simp only [mem_filterMap, mem_map]
  constructor
  · rintro ⟨c, ⟨m, hm, rfl⟩, hc⟩
    refine ⟨m, hm, ?_⟩
    rcases hcl : clf m with y | y
    · rw [hcl] at hc; cases hc
    · rw [hcl] at hc
      simp only [Option.some.injEq] at hc
      rw [hc]
  · rintro ⟨m, hm, hcl⟩
    exact ⟨_, ⟨m, hm, rfl⟩, by rw [hcl]⟩

/-- at most four distinct valid cards share a rank -/
theorem rank_count_le {cards : List Card} {r : Nat} (hnd : cards.Nodup) (hv : ∀ c ∈ cards, c.Valid)
    (hr : ∀ c ∈ cards, c.rank = r) : cards.length ≤ 4 := by
  have h := length_rankVals_le cards ⟨hnd, hv⟩ r
  unfold vals at h
  rw [length_map, filter_eq_self.2 (by intro c hc; simp [hr c hc])] at h
  exact h

/-- a legal meld read as a three-card set -/
theorem clf_set3_iff {m : List Card} (h : LegalMeld m) (r : Nat) :
    clf m = .inl (r, 3) ↔ IsSet m ∧ m.length = 3 ∧ ∀ c ∈ m, c.rank = r := by
  constructor
  · intro hc
    rcases classify_legal h with ⟨r', hs, hr, hc'⟩ | ⟨s, lo, len, _, _, _, _, _, hc'⟩
    · rw [clf_of_ok hc'] at hc
      simp only [Sum.inl.injEq, Prod.mk.injEq] at hc
      exact ⟨hs, hc.2, fun c hcm => (hr c hcm).trans hc.1⟩
    · rw [clf_of_ok hc'] at hc; cases hc
  · rintro ⟨hs, hl, hr⟩
    obtain ⟨r', hr', hc⟩ := classify_set hs
    have : r' = r := by
      match m, hl with
      | a :: _, _ => rw [← hr' a mem_cons_self, hr a mem_cons_self]
    rw [clf_of_ok hc, hl, this]

/-- a legal meld read as a run: its normalised reading -/
theorem clf_run_sound {m : List Card} (h : LegalMeld m) {s : Nat} {Y : Nat × Nat} (hc : clf m = .inr (s, Y)) :
    ∃ len, 3 ≤ len ∧ len ≤ 13 ∧ 1 ≤ Y.1 ∧ Y.1 + len ≤ 15 ∧ Y.2 + 1 = Y.1 + len ∧ m.Perm (runCards s Y.1 len) := by
  rcases classify_legal h with ⟨r', hs, hr, hc'⟩ | ⟨s', lo, len, h3, h13, hlo, hhi, hp, hc'⟩
  · rw [clf_of_ok hc'] at hc; cases hc
  · rw [clf_of_ok hc'] at hc
    simp only [Sum.inr.injEq, Prod.mk.injEq] at hc
    obtain ⟨rfl, rfl⟩ := hc
    exact ⟨len, h3, h13, hlo, hhi, by simp only; omega, hp⟩

theorem clf_run_complete {m : List Card} {s lo len : Nat} (h3 : 3 ≤ len) (h13 : len ≤ 13) (hlo : 1 ≤ lo)
    (hhi : lo + len ≤ 15) (hp : m.Perm (runCards s lo len)) : clf m = .inr (s, recRun lo len) :=
  clf_of_ok (classify_run h3 h13 hlo hhi hp)

/-- what `_split_sets_runs` delivers on the knocker's melds -/
structure SplitOK (K : List (List Card)) (sets : List Nat) (runs : List (Nat × List (Nat × Nat))) : Prop where
  sets_nodup : sets.Nodup
  mem_sets : ∀ r, r ∈ sets ↔ ∃ m ∈ K, IsSet m ∧ m.length = 3 ∧ ∀ c ∈ m, c.rank = r
  keys_nodup : (runs.map (·.1)).Nodup
  run_sound : ∀ s rs, (s, rs) ∈ runs → ∀ Y ∈ rs, ∃ m ∈ K, ∃ len, 3 ≤ len ∧ len ≤ 13 ∧ 1 ≤ Y.1 ∧ Y.1 + len ≤ 15 ∧
    Y.2 + 1 = Y.1 + len ∧ m.Perm (runCards s Y.1 len)
  run_complete : ∀ m ∈ K, ∀ s lo len, 3 ≤ len → len ≤ 13 → 1 ≤ lo → lo + len ≤ 15 → m.Perm (runCards s lo len) →
    ∃ rs, (s, rs) ∈ runs ∧ recRun lo len ∈ rs

theorem splitSetsRuns_spec {hand : List Card} {K : List (List Card)} (hk : KnockOK hand K) :
    ∃ sets runs, splitSetsRuns K = .ok (sets, runs) ∧ SplitOK K sets runs := by
  refine ⟨_, _, splitSetsRuns_of_legal hk.legal, ?_, ?_, ?_, ?_, ?_⟩
  · -- the recorded set ranks are distinct
    refine (sortBy_perm _ _).nodup_iff.2 ?_
    unfold setsOf
    rw [filterMap_map]
    have hflat : K.flatten.Nodup := (nodup_append.1 hk.disjoint).1
    obtain ⟨hnd, hpw⟩ := nodup_flatten.1 hflat
    show Pairwise (· ≠ ·) _
    rw [pairwise_filterMap]
    refine Pairwise.imp_of_mem ?_ hpw
    intro m m' hm hm' hdis r hr r' hr' hrr
    subst hrr
    simp only [Function.comp, selSet_eq_some] at hr hr'
    obtain ⟨_, hl, hrk⟩ := (clf_set3_iff (hk.legal m hm) r).1 hr
    obtain ⟨_, hl', hrk'⟩ := (clf_set3_iff (hk.legal m' hm') r).1 hr'
    have h4 : (m ++ m').length ≤ 4 := by
      apply rank_count_le (r := r)
      · exact nodup_append.2 ⟨hnd m hm, hnd m' hm', fun a ha b hb hab => hdis ha (hab ▸ hb)⟩
      · intro c hc
        rcases mem_append.1 hc with hc | hc
        · exact hk.valid c (mem_flatten.2 ⟨m, hm, hc⟩)
        · exact hk.valid c (mem_flatten.2 ⟨m', hm', hc⟩)
      · intro c hc
        rcases mem_append.1 hc with hc | hc
        · exact hrk c hc
        · exact hrk' c hc
    rw [length_append] at h4
    omega
  · intro r
    rw [(sortBy_perm _ _).mem_iff, mem_setsOf]
    constructor
    · rintro ⟨m, hm, hc⟩; exact ⟨m, hm, (clf_set3_iff (hk.legal m hm) r).1 hc⟩
    · rintro ⟨m, hm, hc⟩; exact ⟨m, hm, (clf_set3_iff (hk.legal m hm) r).2 hc⟩
  · rw [map_map]
    have : ((fun x : Nat × List (Nat × Nat) => x.1) ∘ fun s =>
        (s, ((runsAllOf K).filter (·.1 == s)).map (·.2))) = id := rfl
    rw [this, map_id]
    exact nodup_dedupFirst _
  · intro s rs hmem Y hY
    obtain ⟨s', _, heq⟩ := mem_map.1 hmem
    simp only [Prod.mk.injEq] at heq
    obtain ⟨rfl, rfl⟩ := heq
    obtain ⟨x, hx, rfl⟩ := mem_map.1 hY
    obtain ⟨hx1, hx2⟩ := mem_filter.1 hx
    rw [beq_iff_eq] at hx2
    obtain ⟨m, hm, hc⟩ := mem_runsAllOf.1 hx1
    have hc' : clf m = .inr (s', x.2) := by rw [hc, ← hx2]
    exact ⟨m, hm, clf_run_sound (hk.legal m hm) hc'⟩
  · intro m hm s lo len h3 h13 hlo hhi hp
    have hc := clf_run_complete h3 h13 hlo hhi hp
    have hx : (s, recRun lo len) ∈ runsAllOf K := mem_runsAllOf.2 ⟨m, hm, hc⟩
    refine ⟨((runsAllOf K).filter (·.1 == s)).map (·.2), mem_map.2 ⟨s, ?_, rfl⟩, ?_⟩
    · exact (mem_dedupFirst _ _).2 (mem_map.2 ⟨_, hx, rfl⟩)
    · exact mem_map.2 ⟨_, mem_filter.2 ⟨hx, by simp⟩, rfl⟩

end Layoff
end CardVerif.Gin

/-!
# C12 — lay-offs, part B: the chains built by `_get_suit_run_layoffs`
-/
namespace CardVerif.Gin
namespace Layoff
open List MeldSearch

/-! ## one chain -/

theorem extendLow_succ (fuel lowV : Nat) (avail : List Nat) : extendLow (fuel+1) lowV avail =
    if lowV ≤ 1 then ([], avail) else
    if rankOfValue (lowV - 1) ∈ avail then
      (rankOfValue (lowV - 1) :: (extendLow fuel (lowV-1) (avail.erase (rankOfValue (lowV-1)))).1,
        (extendLow fuel (lowV-1) (avail.erase (rankOfValue (lowV-1)))).2)
    else ([], avail) := by
  rw [extendLow]
  simp only [List.contains_iff_mem]

theorem extendHigh_succ (fuel highV : Nat) (avail : List Nat) : extendHigh (fuel+1) highV avail =
    if highV ≥ 14 then ([], avail) else
    if rankOfValue (highV + 1) ∈ avail then
      (rankOfValue (highV + 1) :: (extendHigh fuel (highV+1) (avail.erase (rankOfValue (highV+1)))).1,
        (extendHigh fuel (highV+1) (avail.erase (rankOfValue (highV+1)))).2)
    else ([], avail) := by
  rw [extendHigh]
  simp only [List.contains_iff_mem]

/-- the downward chain: values `lowV-1, …, lowV-j`, all available, removed from `avail`, and maximal -/
theorem extendLow_spec (fuel : Nat) : ∀ (lowV : Nat) (avail : List Nat), lowV ≤ fuel →
    ∃ j, j ≤ lowV - 1 ∧
      (extendLow fuel lowV avail).1 = (List.range j).map (fun i => rankOfValue (lowV - 1 - i)) ∧
      ((extendLow fuel lowV avail).1 ++ (extendLow fuel lowV avail).2).Perm avail ∧
      (lowV - j ≤ 1 ∨ rankOfValue (lowV - j - 1) ∉ (extendLow fuel lowV avail).2) := by
  induction fuel with
  | zero =>
    intro lowV avail h
    exact ⟨0, by omega, by simp [extendLow], by simp [extendLow], .inl (by omega)⟩
  | succ fuel ih =>
    intro lowV avail h
    rw [extendLow_succ]
    by_cases h1 : lowV ≤ 1
    · rw [if_pos h1]
      exact ⟨0, by omega, by simp, by simp, .inl (by omega)⟩
    · rw [if_neg h1]
      by_cases hr : rankOfValue (lowV - 1) ∈ avail
      · rw [if_pos hr]
        obtain ⟨j, hj, hchain, hperm, hstop⟩ := ih (lowV - 1) (avail.erase (rankOfValue (lowV - 1))) (by omega)
        refine ⟨j + 1, by omega, ?_, ?_, ?_⟩
        · simp only [hchain, List.range_succ_eq_map, map_cons, map_map, Nat.sub_zero, cons.injEq, true_and]
          apply map_congr_left
          intro i _
          simp only [Function.comp, Nat.succ_eq_add_one]
          congr 1; omega
        · simp only [cons_append]
          exact (hperm.cons _).trans (perm_cons_erase hr).symm
        · have e1 : lowV - (j + 1) = lowV - 1 - j := by omega
          rw [e1]; exact hstop
      · rw [if_neg hr]
        exact ⟨0, by omega, by simp, by simp, .inr (by simpa using hr)⟩

/-- the upward chain: values `highV+1, …, highV+j` -/
theorem extendHigh_spec (fuel : Nat) : ∀ (highV : Nat) (avail : List Nat), 14 ≤ highV + fuel →
    ∃ j, j ≤ 14 - highV ∧
      (extendHigh fuel highV avail).1 = (List.range j).map (fun i => rankOfValue (highV + 1 + i)) ∧
      ((extendHigh fuel highV avail).1 ++ (extendHigh fuel highV avail).2).Perm avail ∧
      (14 ≤ highV + j ∨ rankOfValue (highV + j + 1) ∉ (extendHigh fuel highV avail).2) := by
  induction fuel with
  | zero =>
    intro highV avail h
    exact ⟨0, by omega, by simp [extendHigh], by simp [extendHigh], .inl (by omega)⟩
  | succ fuel ih =>
    intro highV avail h
    rw [extendHigh_succ]
    by_cases h1 : highV ≥ 14
    · rw [if_pos h1]
      exact ⟨0, by omega, by simp, by simp, .inl (by omega)⟩
    · rw [if_neg h1]
      by_cases hr : rankOfValue (highV + 1) ∈ avail
      · rw [if_pos hr]
        obtain ⟨j, hj, hchain, hperm, hstop⟩ := ih (highV + 1) (avail.erase (rankOfValue (highV + 1))) (by omega)
        refine ⟨j + 1, by omega, ?_, ?_, ?_⟩
        · simp only [hchain, List.range_succ_eq_map, map_cons, map_map, Nat.add_zero, cons.injEq, true_and]
          apply map_congr_left
          intro i _
          simp only [Function.comp, Nat.succ_eq_add_one]
          congr 1; omega
        · simp only [cons_append]
          exact (hperm.cons _).trans (perm_cons_erase hr).symm
        · have e1 : highV + (j + 1) = highV + 1 + j := by omega
          rw [e1]; exact hstop
      · rw [if_neg hr]
        exact ⟨0, by omega, by simp, by simp, .inr (by simpa using hr)⟩

/-! ## the fold over the runs of one suit -/

def addChunk (cs : List (List Nat)) (ch : List Nat) : List (List Nat) := if ch.isEmpty then cs else cs ++ [ch]

theorem flatten_addChunk (cs : List (List Nat)) (ch : List Nat) : (addChunk cs ch).flatten = cs.flatten ++ ch := by
  unfold addChunk
  split
  · rename_i h; simp [List.isEmpty_iff.1 h]
  · simp

theorem mem_addChunk {cs : List (List Nat)} {ch x : List Nat} (h : x ∈ addChunk cs ch) : x ∈ cs ∨ x = ch := by
  unfold addChunk at h
  split at h
  · exact .inl h
  · rcases mem_append.1 h with h | h
    · exact .inl h
    · exact .inr (mem_singleton.1 h)

def stepLow (st : List (List Nat) × List Nat) (lo : Nat) : List (List Nat) × List Nat :=
  (addChunk st.1 (extendLow 14 lo st.2).1, (extendLow 14 lo st.2).2)

def stepHigh (st : List (List Nat) × List Nat) (hi : Nat) : List (List Nat) × List Nat :=
  (addChunk st.1 (extendHigh 14 hi st.2).1, (extendHigh 14 hi st.2).2)

theorem suitRunLayoffs_eq (ranks : List Nat) (runs : List (Nat × Nat)) :
    suitRunLayoffs ranks runs =
      if ranks.isEmpty then [] else
        (runs.foldl (fun st Y => stepHigh (stepLow st Y.1) Y.2) ([], CardVerif.dedup ranks)).1 := by
  unfold suitRunLayoffs
  split
  · rfl
  · refine congrArg Prod.fst (List.foldl_ext _ _ _ ?_)
    intro st Y _
    rcases st with ⟨cs, av⟩
    simp only [stepHigh, stepLow, addChunk]

/-- the state of the fold: `R0` the initial ranks, `PL` / `PH` the low / high ends processed so far -/
structure Inv (R0 PL PH : List Nat) (st : List (List Nat) × List Nat) : Prop where
  perm : (st.1.flatten ++ st.2).Perm R0
  chunk : ∀ ch ∈ st.1, ∃ j,
    (∃ lo ∈ PL, j ≤ lo - 1 ∧ ch = (List.range j).map (fun i => rankOfValue (lo - 1 - i))) ∨
    (∃ hi ∈ PH, j ≤ 14 - hi ∧ ch = (List.range j).map (fun i => rankOfValue (hi + 1 + i)))
  firstL : ∀ lo ∈ PL, 2 ≤ lo → rankOfValue (lo - 1) ∉ st.2
  firstH : ∀ hi ∈ PH, hi + 1 ≤ 14 → rankOfValue (hi + 1) ∉ st.2
  adjD : ∀ v, 1 ≤ v → v + 1 ≤ 13 → v + 1 ∈ R0 → v + 1 ∉ st.2 → rankOfValue v ∈ st.2 → v ∈ PH
  adjU : ∀ v, 2 ≤ v → v ≤ 13 → v ∈ R0 → v ∉ st.2 → rankOfValue (v + 1) ∈ st.2 → v + 1 ∈ PL

theorem inv_init (R0 : List Nat) : Inv R0 [] [] ([], R0) :=
  ⟨by simp, fun _ h => (by cases h), fun _ h => (by cases h), fun _ h => (by cases h),
    fun _ _ _ h1 h2 => absurd h1 h2, fun _ _ _ h1 h2 => absurd h1 h2⟩

theorem Inv.nodup {R0 PL PH : List Nat} {st} (h : Inv R0 PL PH st) (hnd : R0.Nodup) :
    (st.1.flatten ++ st.2).Nodup := h.perm.nodup_iff.2 hnd

theorem inv_stepLow {R0 PL PH : List Nat} {st : List (List Nat) × List Nat} (hnd : R0.Nodup)
    (h : Inv R0 PL PH st) {lo : Nat} (hlo : lo ≤ 14) : Inv R0 (lo :: PL) PH (stepLow st lo) := by
  obtain ⟨j, hj, hchain, hperm, hstop⟩ := extendLow_spec 14 lo st.2 hlo
  have hnd2 : st.2.Nodup := (nodup_append.1 (h.nodup hnd)).2.1
  have hnd3 := hperm.nodup_iff.2 hnd2
  have hsub : ∀ r, r ∈ (extendLow 14 lo st.2).2 → r ∈ st.2 := fun r hr =>
    hperm.mem_iff.1 (mem_append_right _ hr)
  have hdis : ∀ r, r ∈ (extendLow 14 lo st.2).1 → r ∉ (extendLow 14 lo st.2).2 := fun r hr hr' =>
    (nodup_append.1 hnd3).2.2 r hr r hr' rfl
  have hcons : ∀ r, r ∈ st.2 → r ∉ (extendLow 14 lo st.2).2 → r ∈ (extendLow 14 lo st.2).1 := fun r hr hr' =>
    (mem_append.1 (hperm.mem_iff.2 hr)).resolve_right hr'
  have hmem : ∀ r, r ∈ (extendLow 14 lo st.2).1 ↔ ∃ i, i < j ∧ r = rankOfValue (lo - 1 - i) := by
    intro r; rw [hchain]; simp only [mem_map, mem_range]
    constructor
    · rintro ⟨i, hi, rfl⟩; exact ⟨i, hi, rfl⟩
    · rintro ⟨i, hi, rfl⟩; exact ⟨i, hi, rfl⟩
  refine ⟨?_, ?_, ?_, ?_, ?_, ?_⟩
  · show ((addChunk st.1 _).flatten ++ _).Perm R0
    rw [flatten_addChunk, append_assoc]
    exact (hperm.append_left _).trans h.perm
  · intro ch hch
    rcases mem_addChunk hch with hch | rfl
    · obtain ⟨j', hc⟩ := h.chunk ch hch
      refine ⟨j', ?_⟩
      rcases hc with ⟨lo', hlo', hc⟩ | hc
      · exact .inl ⟨lo', mem_cons_of_mem _ hlo', hc⟩
      · exact .inr hc
    · exact ⟨j, .inl ⟨lo, mem_cons_self, hj, hchain⟩⟩
  · intro lo' hlo' h2
    rcases mem_cons.1 hlo' with rfl | hlo'
    · show rankOfValue (lo' - 1) ∉ (extendLow 14 lo' st.2).2
      by_cases hj0 : j = 0
      · subst hj0
        rcases hstop with hs | hs
        · omega
        · simpa using hs
      · exact hdis _ ((hmem _).2 ⟨0, by omega, rfl⟩)
    · exact fun hc => h.firstL lo' hlo' h2 (hsub _ hc)
  · intro hi hhi h2 hc
    exact h.firstH hi hhi h2 (hsub _ hc)
  · intro v hv1 hv2 hvR hv3 hv4
    show v ∈ PH
    by_cases hold : v + 1 ∈ st.2
    · exfalso
      obtain ⟨i, hi, he⟩ := (hmem _).1 (hcons _ hold hv3)
      have hne1 : lo - 1 - i ≠ 1 := by
        intro h1; rw [h1] at he; simp [rankOfValue] at he; omega
      rw [rankOfValue_of_ne_one _ hne1] at he
      by_cases hlast : i + 1 < j
      · refine hdis _ ((hmem _).2 ⟨i + 1, hlast, ?_⟩) hv4
        congr 1; omega
      · rcases hstop with hs | hs
        · omega
        · apply hs
          have : lo - j - 1 = v := by omega
          rw [this]; exact hv4
    · exact h.adjD v hv1 hv2 hvR hold (hsub _ hv4)
  · intro v hv1 hv2 hvR hv3 hv4
    by_cases hold : v ∈ st.2
    · obtain ⟨i, hi, he⟩ := (hmem _).1 (hcons _ hold hv3)
      have hne1 : lo - 1 - i ≠ 1 := by
        intro h1; rw [h1] at he; simp [rankOfValue] at he; omega
      rw [rankOfValue_of_ne_one _ hne1] at he
      by_cases hi0 : i = 0
      · subst hi0
        have : v + 1 = lo := by omega
        rw [this]; exact mem_cons_self
      · exfalso
        refine hdis _ ((hmem _).2 ⟨i - 1, by omega, ?_⟩) hv4
        congr 1; omega
    · exact mem_cons_of_mem _ (h.adjU v hv1 hv2 hvR hold (hsub _ hv4))

theorem inv_stepHigh {R0 PL PH : List Nat} {st : List (List Nat) × List Nat} (hnd : R0.Nodup)
    (h : Inv R0 PL PH st) {hi : Nat} (hhi : 1 ≤ hi) : Inv R0 PL (hi :: PH) (stepHigh st hi) := by
  obtain ⟨j, hj, hchain, hperm, hstop⟩ := extendHigh_spec 14 hi st.2 (by omega)
  have hnd2 : st.2.Nodup := (nodup_append.1 (h.nodup hnd)).2.1
  have hnd3 := hperm.nodup_iff.2 hnd2
  have hsub : ∀ r, r ∈ (extendHigh 14 hi st.2).2 → r ∈ st.2 := fun r hr =>
    hperm.mem_iff.1 (mem_append_right _ hr)
  have hdis : ∀ r, r ∈ (extendHigh 14 hi st.2).1 → r ∉ (extendHigh 14 hi st.2).2 := fun r hr hr' =>
    (nodup_append.1 hnd3).2.2 r hr r hr' rfl
  have hcons : ∀ r, r ∈ st.2 → r ∉ (extendHigh 14 hi st.2).2 → r ∈ (extendHigh 14 hi st.2).1 := fun r hr hr' =>
    (mem_append.1 (hperm.mem_iff.2 hr)).resolve_right hr'
  have hmem : ∀ r, r ∈ (extendHigh 14 hi st.2).1 ↔ ∃ i, i < j ∧ r = rankOfValue (hi + 1 + i) := by
    intro r; rw [hchain]; simp only [mem_map, mem_range]
    constructor
    · rintro ⟨i, hi, rfl⟩; exact ⟨i, hi, rfl⟩
    · rintro ⟨i, hi, rfl⟩; exact ⟨i, hi, rfl⟩
  refine ⟨?_, ?_, ?_, ?_, ?_, ?_⟩
  · show ((addChunk st.1 _).flatten ++ _).Perm R0
    rw [flatten_addChunk, append_assoc]
    exact (hperm.append_left _).trans h.perm
  · intro ch hch
    rcases mem_addChunk hch with hch | rfl
    · obtain ⟨j', hc⟩ := h.chunk ch hch
      refine ⟨j', ?_⟩
      rcases hc with hc | ⟨hi', hhi', hc⟩
      · exact .inl hc
      · exact .inr ⟨hi', mem_cons_of_mem _ hhi', hc⟩
    · exact ⟨j, .inr ⟨hi, mem_cons_self, hj, hchain⟩⟩
  · intro lo hlo h2 hc
    exact h.firstL lo hlo h2 (hsub _ hc)
  · intro hi' hhi' h2
    rcases mem_cons.1 hhi' with rfl | hhi'
    · show rankOfValue (hi' + 1) ∉ (extendHigh 14 hi' st.2).2
      by_cases hj0 : j = 0
      · subst hj0
        rcases hstop with hs | hs
        · omega
        · simpa using hs
      · exact hdis _ ((hmem _).2 ⟨0, by omega, rfl⟩)
    · exact fun hc => h.firstH hi' hhi' h2 (hsub _ hc)
  · intro v hv1 hv2 hvR hv3 hv4
    by_cases hold : v + 1 ∈ st.2
    · obtain ⟨i, hi', he⟩ := (hmem _).1 (hcons _ hold hv3)
      rw [rankOfValue_of_ne_one _ (by omega)] at he
      by_cases hi0 : i = 0
      · subst hi0
        have : v = hi := by omega
        rw [this]; exact mem_cons_self
      · exfalso
        refine hdis _ ((hmem _).2 ⟨i - 1, by omega, ?_⟩) hv4
        congr 1; omega
    · exact mem_cons_of_mem _ (h.adjD v hv1 hv2 hvR hold (hsub _ hv4))
  · intro v hv1 hv2 hvR hv3 hv4
    show v + 1 ∈ PL
    by_cases hold : v ∈ st.2
    · exfalso
      obtain ⟨i, hi', he⟩ := (hmem _).1 (hcons _ hold hv3)
      rw [rankOfValue_of_ne_one _ (by omega)] at he
      by_cases hlast : i + 1 < j
      · refine hdis _ ((hmem _).2 ⟨i + 1, hlast, ?_⟩) hv4
        congr 1; omega
      · rcases hstop with hs | hs
        · omega
        · apply hs
          have : hi + j + 1 = v + 1 := by omega
          rw [this]; exact hv4
    · exact h.adjU v hv1 hv2 hvR hold (hsub _ hv4)

theorem inv_foldl {R0 : List Nat} (hnd : R0.Nodup) : ∀ (runs : List (Nat × Nat)) (PL PH : List Nat)
    (st : List (List Nat) × List Nat), (∀ Y ∈ runs, Y.1 ≤ 14 ∧ 1 ≤ Y.2) → Inv R0 PL PH st →
    ∃ PL' PH', (∀ x, x ∈ PL' ↔ x ∈ PL ∨ ∃ Y ∈ runs, Y.1 = x) ∧ (∀ x, x ∈ PH' ↔ x ∈ PH ∨ ∃ Y ∈ runs, Y.2 = x) ∧
      Inv R0 PL' PH' (runs.foldl (fun st Y => stepHigh (stepLow st Y.1) Y.2) st) := by
  intro runs
  induction runs with
  | nil => intro PL PH st _ h; exact ⟨PL, PH, by simp, by simp, h⟩
  | cons Y runs ih =>
    intro PL PH st hb h
    have hY := hb Y mem_cons_self
    have h1 := inv_stepHigh hnd (inv_stepLow hnd h hY.1) hY.2
    obtain ⟨PL', PH', hPL, hPH, hinv⟩ := ih _ _ _ (fun Y' hY' => hb Y' (mem_cons_of_mem _ hY')) h1
    refine ⟨PL', PH', ?_, ?_, hinv⟩
    · intro x
      rw [hPL x]
      simp only [mem_cons, exists_eq_or_imp]
      constructor
      · rintro ((rfl | h) | h)
        · exact .inr (.inl rfl)
        · exact .inl h
        · exact .inr (.inr h)
      · rintro (h | h | h)
        · exact .inl (.inr h)
        · exact .inl (.inl h.symm)
        · exact .inr h
    · intro x
      rw [hPH x]
      simp only [mem_cons, exists_eq_or_imp]
      constructor
      · rintro ((rfl | h) | h)
        · exact .inr (.inl rfl)
        · exact .inl h
        · exact .inr (.inr h)
      · rintro (h | h | h)
        · exact .inl (.inr h)
        · exact .inl (.inl h.symm)
        · exact .inr h

/-- the final state of `_get_suit_run_layoffs` -/
theorem suit_final (ranks : List Nat) (runs : List (Nat × Nat)) (hb : ∀ Y ∈ runs, Y.1 ≤ 14 ∧ 1 ≤ Y.2)
    (hne : ranks.isEmpty = false) :
    ∃ PL PH avail, (∀ x, x ∈ PL ↔ ∃ Y ∈ runs, Y.1 = x) ∧ (∀ x, x ∈ PH ↔ ∃ Y ∈ runs, Y.2 = x) ∧
      Inv (CardVerif.dedup ranks) PL PH (suitRunLayoffs ranks runs, avail) := by
  have hnd : (CardVerif.dedup ranks).Nodup := by rw [dedup_eq]; exact nodup_dedup _
  obtain ⟨PL, PH, hPL, hPH, hinv⟩ := inv_foldl hnd runs [] [] _ hb (inv_init _)
  refine ⟨PL, PH, (runs.foldl (fun st Y => stepHigh (stepLow st Y.1) Y.2) ([], CardVerif.dedup ranks)).2,
    fun x => (hPL x).trans ⟨fun h => h.resolve_left (by simp), .inr⟩,
    fun x => (hPH x).trans ⟨fun h => h.resolve_left (by simp), .inr⟩, ?_⟩
  rw [suitRunLayoffs_eq, hne]
  exact hinv

theorem mem_cvdedup {α : Type} [DecidableEq α] (l : List α) (a : α) : a ∈ CardVerif.dedup l ↔ a ∈ l := by
  rw [dedup_eq]; exact mem_dedup

/-- every chunk is a chain next to an end of one of the runs; the chunks are disjoint and taken from `ranks` -/
theorem suitRunLayoffs_sound (ranks : List Nat) (runs : List (Nat × Nat)) (hb : ∀ Y ∈ runs, Y.1 ≤ 14 ∧ 1 ≤ Y.2) :
    (suitRunLayoffs ranks runs).flatten.Nodup ∧ (∀ r ∈ (suitRunLayoffs ranks runs).flatten, r ∈ ranks) ∧
    ∀ ch ∈ suitRunLayoffs ranks runs, ∃ Y ∈ runs, ∃ j,
      (j ≤ Y.1 - 1 ∧ ch = (List.range j).map (fun i => rankOfValue (Y.1 - 1 - i))) ∨
      (j ≤ 14 - Y.2 ∧ ch = (List.range j).map (fun i => rankOfValue (Y.2 + 1 + i))) := by
  cases hne : ranks.isEmpty with
  | true => simp [suitRunLayoffs, hne]
  | false =>
    obtain ⟨PL, PH, avail, hPL, hPH, hinv⟩ := suit_final ranks runs hb hne
    have hnd : (CardVerif.dedup ranks).Nodup := by rw [dedup_eq]; exact nodup_dedup _
    refine ⟨(nodup_append.1 (hinv.nodup hnd)).1, ?_, ?_⟩
    · intro r hr
      exact (mem_cvdedup _ _).1 (hinv.perm.mem_iff.1 (mem_append_left _ hr))
    · intro ch hch
      obtain ⟨j, hc⟩ := hinv.chunk ch hch
      rcases hc with ⟨lo, hlo, hj, he⟩ | ⟨hi, hhi, hj, he⟩
      · obtain ⟨Y, hY, rfl⟩ := (hPL lo).1 hlo
        exact ⟨Y, hY, j, .inl ⟨hj, he⟩⟩
      · obtain ⟨Y, hY, rfl⟩ := (hPH hi).1 hhi
        exact ⟨Y, hY, j, .inr ⟨hj, he⟩⟩

/-- every rank reachable from a run end through available ranks is laid off, provided no run end is itself
available -/
theorem suitRunLayoffs_reach (ranks : List Nat) (runs : List (Nat × Nat)) (hb : ∀ Y ∈ runs, Y.1 ≤ 14 ∧ 1 ≤ Y.2)
    (hgeo : ∀ Y ∈ runs, rankOfValue Y.1 ∉ ranks ∧ rankOfValue Y.2 ∉ ranks) (Y : Nat × Nat) (hY : Y ∈ runs) (d : Nat)
    (hd : 1 ≤ d) :
    (d < Y.1 → (∀ i, 1 ≤ i → i ≤ d → rankOfValue (Y.1 - i) ∈ ranks) →
      rankOfValue (Y.1 - d) ∈ (suitRunLayoffs ranks runs).flatten) ∧
    (Y.2 + d ≤ 14 → (∀ i, 1 ≤ i → i ≤ d → rankOfValue (Y.2 + i) ∈ ranks) →
      rankOfValue (Y.2 + d) ∈ (suitRunLayoffs ranks runs).flatten) := by
  cases hne : ranks.isEmpty with
  | true =>
    have : ranks = [] := List.isEmpty_iff.1 hne
    subst this
    exact ⟨fun _ h => absurd (h 1 (by omega) hd) (by simp), fun _ h => absurd (h 1 (by omega) hd) (by simp)⟩
  | false =>
    obtain ⟨PL, PH, avail, hPL, hPH, hinv⟩ := suit_final ranks runs hb hne
    have hYb := hb Y hY
    -- consumed ranks are in the chunks
    have hcons : ∀ r, r ∈ ranks → r ∉ avail → r ∈ (suitRunLayoffs ranks runs).flatten := by
      intro r hr hna
      exact (mem_append.1 (hinv.perm.mem_iff.2 ((mem_cvdedup _ _).2 hr))).resolve_right hna
    have key : ∀ d, 1 ≤ d →
        (d < Y.1 → (∀ i, 1 ≤ i → i ≤ d → rankOfValue (Y.1 - i) ∈ ranks) → rankOfValue (Y.1 - d) ∉ avail) ∧
        (Y.2 + d ≤ 14 → (∀ i, 1 ≤ i → i ≤ d → rankOfValue (Y.2 + i) ∈ ranks) → rankOfValue (Y.2 + d) ∉ avail) := by
      intro d
      induction d with
      | zero => intro h; omega
      | succ d ih =>
        intro _
        by_cases hd0 : d = 0
        · subst hd0
          exact ⟨fun h1 _ => hinv.firstL Y.1 ((hPL _).2 ⟨Y, hY, rfl⟩) (by omega),
            fun h1 _ => hinv.firstH Y.2 ((hPH _).2 ⟨Y, hY, rfl⟩) (by omega)⟩
        · obtain ⟨ihL, ihH⟩ := ih (by omega)
          constructor
          · intro h1 hall hmem
            have hprev := ihL (by omega) (fun i hi1 hi2 => hall i hi1 (by omega))
            have hne1 : Y.1 - d ≠ 1 := by omega
            have e : Y.1 - d = (Y.1 - (d + 1)) + 1 := by omega
            have hR := hall d (by omega) (by omega)
            rw [rankOfValue_of_ne_one _ hne1, e] at hprev hR
            have := hinv.adjD (Y.1 - (d + 1)) (by omega) (by omega) ((mem_cvdedup _ _).2 hR) hprev hmem
            obtain ⟨Y', hY', he⟩ := (hPH _).1 this
            have hg := (hgeo Y' hY').2
            rw [he] at hg
            exact hg (hall (d + 1) (by omega) (by omega))
          · intro h1 hall hmem
            have hprev := ihH (by omega) (fun i hi1 hi2 => hall i hi1 (by omega))
            have hne1 : Y.2 + d ≠ 1 := by omega
            have hR := hall d (by omega) (by omega)
            rw [rankOfValue_of_ne_one _ hne1] at hprev hR
            have := hinv.adjU (Y.2 + d) (by omega) (by omega) ((mem_cvdedup _ _).2 hR) hprev hmem
            obtain ⟨Y', hY', he⟩ := (hPL _).1 this
            have hg := (hgeo Y' hY').1
            rw [he] at hg
            exact hg (hall (d + 1) (by omega) (by omega))
    obtain ⟨kL, kH⟩ := key d hd
    exact ⟨fun h1 hall => hcons _ (hall d hd (by omega)) (kL h1 hall),
      fun h1 hall => hcons _ (hall d hd (by omega)) (kH h1 hall)⟩

end Layoff
end CardVerif.Gin

/-!
# C12 — lay-offs, part C: `_get_set_layoffs` and `_get_run_layoffs` on cards
-/
namespace CardVerif.Gin
namespace Layoff
open List MeldSearch

/-! ## looking up a key of a partition -/

theorem find_part (key val : Card → Nat) (cards : List Card) (k : Nat) :
    (part key val cards).find? (·.1 == k) =
      if (∃ c ∈ cards, key c = k) then some (k, vals key val cards k) else none := by
  cases h : (part key val cards).find? (·.1 == k) with
  | none =>
    rw [find?_eq_none] at h
    rw [if_neg]
    rintro ⟨c, hc, hk⟩
    exact h (k, vals key val cards k) ((mem_part ..).2 ⟨⟨c, hc, hk⟩, rfl⟩) (by simp)
  | some x =>
    have h1 := find?_some h
    have h2 := mem_of_find?_eq_some h
    rw [beq_iff_eq] at h1
    obtain ⟨a, b⟩ := x
    simp only at h1
    subst h1
    obtain ⟨h3, h4⟩ := (mem_part ..).1 h2
    rw [if_pos h3, h4]

/-! ## set lay-offs -/

/-- the card `_get_set_layoffs` offers for a set rank: the first card of that rank -/
def pickSet (U : List Card) (r : Nat) : Option Card :=
  match (rankPartition U).find? (·.1 == r) with
  | some (_, s :: _) => some ⟨r, s⟩
  | _ => none

theorem getSetLayoffs_eq (U : List Card) (sets : List Nat) : getSetLayoffs U sets = sets.filterMap (pickSet U) := rfl

theorem pickSet_eq_some {U : List Card} {r : Nat} {c : Card} :
    pickSet U r = some c ↔ c.rank = r ∧ (vals Card.rank Card.suit U r).head? = some c.suit := by
  unfold pickSet
  rw [rankPartition_eq, find_part]
  by_cases hex : ∃ c ∈ U, c.rank = r
  · rw [if_pos hex]
    rcases hv : vals Card.rank Card.suit U r with _ | ⟨s, rest⟩
    · simp
    · simp only [Option.some.injEq, head?_cons]
      constructor
      · rintro rfl; exact ⟨rfl, rfl⟩
      · rintro ⟨h1, h2⟩; cases c; simp_all
  · rw [if_neg hex]
    simp only [reduceCtorEq, false_iff, not_and]
    intro _ hh
    have : c.suit ∈ vals Card.rank Card.suit U r := mem_of_mem_head? hh
    exact hex ⟨_, (mem_rankVals U r c.suit).1 this, rfl⟩

theorem mem_getSetLayoffs {U : List Card} {sets : List Nat} {c : Card} :
    c ∈ getSetLayoffs U sets ↔ c.rank ∈ sets ∧ (vals Card.rank Card.suit U c.rank).head? = some c.suit := by
  rw [getSetLayoffs_eq, mem_filterMap]
  constructor
  · rintro ⟨r, hr, hp⟩
    obtain ⟨h1, h2⟩ := pickSet_eq_some.1 hp
    subst h1
    exact ⟨hr, h2⟩
  · rintro ⟨h1, h2⟩
    exact ⟨c.rank, h1, pickSet_eq_some.2 ⟨rfl, h2⟩⟩

theorem getSetLayoffs_sub {U : List Card} {sets : List Nat} {c : Card} (h : c ∈ getSetLayoffs U sets) :
    c ∈ U ∧ c.rank ∈ sets := by
  obtain ⟨h1, h2⟩ := mem_getSetLayoffs.1 h
  have : c.suit ∈ vals Card.rank Card.suit U c.rank := mem_of_mem_head? h2
  exact ⟨by simpa [card_eta] using (mem_rankVals U c.rank c.suit).1 this, h1⟩

theorem getSetLayoffs_complete {U : List Card} {sets : List Nat} {c : Card} (hc : c ∈ U) (hr : c.rank ∈ sets)
    (huniq : ∀ c' ∈ U, c'.rank = c.rank → c' = c) : c ∈ getSetLayoffs U sets := by
  refine mem_getSetLayoffs.2 ⟨hr, ?_⟩
  have hmem : c.suit ∈ vals Card.rank Card.suit U c.rank := (mem_rankVals U c.rank c.suit).2 (by rw [card_eta]; exact hc)
  rcases hv : vals Card.rank Card.suit U c.rank with _ | ⟨s, rest⟩
  · rw [hv] at hmem; cases hmem
  · have hs : s ∈ vals Card.rank Card.suit U c.rank := by rw [hv]; exact mem_cons_self
    have := huniq _ ((mem_rankVals U c.rank s).1 hs) rfl
    rw [head?_cons, ← this]

theorem getSetLayoffs_nodup (U : List Card) {sets : List Nat} (h : sets.Nodup) : (getSetLayoffs U sets).Nodup := by
  rw [getSetLayoffs_eq]
  refine Nodup.filterMap ?_ h
  intro a a' b hb hb'
  rw [Option.mem_def] at hb hb'
  rw [← (pickSet_eq_some.1 hb).1, ← (pickSet_eq_some.1 hb').1]

/-! ## run lay-offs -/

/-- the ranks `_get_run_layoffs` looks up for a suit -/
def suitRanks (H : List Card) (suit : Nat) : List Nat :=
  match (suitPartition H).find? (·.1 == suit) with | some (_, rs) => rs | none => []

theorem suitRanks_eq (H : List Card) (suit : Nat) : suitRanks H suit = vals Card.suit Card.rank H suit := by
  unfold suitRanks
  rw [suitPartition_eq, find_part]
  by_cases hex : ∃ c ∈ H, c.suit = suit
  · rw [if_pos hex]
  · rw [if_neg hex]
    unfold vals
    symm
    rw [map_eq_nil_iff, filter_eq_nil_iff]
    intro c hc hs
    exact hex ⟨c, hc, by simpa using hs⟩

theorem getRunLayoffs_eq (H : List Card) (runs : List (Nat × List (Nat × Nat))) :
    getRunLayoffs H runs = runs.flatMap fun p =>
      (suitRunLayoffs (vals Card.suit Card.rank H p.1) p.2).map fun chunk => chunk.map fun r => (⟨r, p.1⟩ : Card) := by
  unfold getRunLayoffs
  show flatMap _ runs = _
  congr 1
  funext p
  obtain ⟨s, rs⟩ := p
  simp only
  rw [← suitRanks_eq]
  rfl

theorem flatten_flatMap' {α β : Type} (l : List α) (f : α → List (List β)) :
    (l.flatMap f).flatten = l.flatMap fun x => (f x).flatten := by
  induction l with
  | nil => rfl
  | cons x xs ih => simp [flatMap_cons, flatten_append, ih]

theorem flatten_getRunLayoffs (H : List Card) (runs : List (Nat × List (Nat × Nat))) :
    (getRunLayoffs H runs).flatten = runs.flatMap fun p =>
      (suitRunLayoffs (vals Card.suit Card.rank H p.1) p.2).flatten.map fun r => (⟨r, p.1⟩ : Card) := by
  rw [getRunLayoffs_eq, flatten_flatMap']
  congr 1
  funext p
  rw [map_flatten]

theorem mem_flatten_getRunLayoffs {H : List Card} {runs : List (Nat × List (Nat × Nat))} {c : Card} :
    c ∈ (getRunLayoffs H runs).flatten ↔
      ∃ p ∈ runs, c.suit = p.1 ∧ c.rank ∈ (suitRunLayoffs (vals Card.suit Card.rank H p.1) p.2).flatten := by
  rw [flatten_getRunLayoffs, mem_flatMap]
  constructor
  · rintro ⟨p, hp, hc⟩
    obtain ⟨r, hr, rfl⟩ := mem_map.1 hc
    exact ⟨p, hp, rfl, hr⟩
  · rintro ⟨p, hp, h1, h2⟩
    refine ⟨p, hp, mem_map.2 ⟨c.rank, h2, ?_⟩⟩
    rw [← h1, card_eta]

/-- the bounds every recorded run satisfies -/
def RunsBounded (runs : List (Nat × List (Nat × Nat))) : Prop := ∀ p ∈ runs, ∀ Y ∈ p.2, Y.1 ≤ 14 ∧ 1 ≤ Y.2

theorem getRunLayoffs_sub {H : List Card} {runs : List (Nat × List (Nat × Nat))} (hb : RunsBounded runs) {c : Card}
    (hc : c ∈ (getRunLayoffs H runs).flatten) : c ∈ H := by
  obtain ⟨p, hp, h1, h2⟩ := mem_flatten_getRunLayoffs.1 hc
  have := (suitRunLayoffs_sound _ p.2 (hb p hp)).2.1 _ h2
  rw [mem_suitVals, ← h1, card_eta] at this
  exact this

theorem getRunLayoffs_nodup (H : List Card) {runs : List (Nat × List (Nat × Nat))} (hb : RunsBounded runs)
    (hk : (runs.map (·.1)).Nodup) : (getRunLayoffs H runs).flatten.Nodup := by
  rw [flatten_getRunLayoffs, nodup_flatMap]
  constructor
  · intro p hp
    refine Nodup.map ?_ (suitRunLayoffs_sound _ p.2 (hb p hp)).1
    intro a b hab
    exact (Card.mk.inj hab).1
  · have hk' : runs.Pairwise (fun p q => p.1 ≠ q.1) := by
      rw [Nodup, pairwise_map] at hk; exact hk
    refine hk'.imp ?_
    intro p q hpq
    simp only [Function.onFun]
    intro c hc1 hc2
    obtain ⟨r1, _, rfl⟩ := mem_map.1 hc1
    obtain ⟨r2, _, h2⟩ := mem_map.1 hc2
    exact hpq (Card.mk.inj h2).2.symm

/-- every chunk is a chain of cards next to an end of one of the recorded runs -/
theorem getRunLayoffs_chunk {H : List Card} {runs : List (Nat × List (Nat × Nat))} (hb : RunsBounded runs)
    {chunk : List Card} (h : chunk ∈ getRunLayoffs H runs) :
    ∃ p ∈ runs, ∃ Y ∈ p.2, ∃ j,
      (j ≤ Y.1 - 1 ∧ chunk = (List.range j).map (fun i => (⟨rankOfValue (Y.1 - 1 - i), p.1⟩ : Card))) ∨
      (j ≤ 14 - Y.2 ∧ chunk = (List.range j).map (fun i => (⟨rankOfValue (Y.2 + 1 + i), p.1⟩ : Card))) := by
  rw [getRunLayoffs_eq, mem_flatMap] at h
  obtain ⟨p, hp, hc⟩ := h
  obtain ⟨ch, hch, rfl⟩ := mem_map.1 hc
  obtain ⟨Y, hY, j, hj⟩ := (suitRunLayoffs_sound _ p.2 (hb p hp)).2.2 ch hch
  refine ⟨p, hp, Y, hY, j, ?_⟩
  rcases hj with ⟨h1, rfl⟩ | ⟨h1, rfl⟩
  · exact .inl ⟨h1, by simp [Function.comp_def]⟩
  · exact .inr ⟨h1, by simp [Function.comp_def]⟩

/-- every card reachable from an end of a recorded run through cards of `H` is in a chunk, provided the end cards
of the recorded runs of that suit are not in `H` -/
theorem getRunLayoffs_reach {H : List Card} {runs : List (Nat × List (Nat × Nat))} (hb : RunsBounded runs)
    {p : Nat × List (Nat × Nat)} (hp : p ∈ runs)
    (hgeo : ∀ Y ∈ p.2, (⟨rankOfValue Y.1, p.1⟩ : Card) ∉ H ∧ (⟨rankOfValue Y.2, p.1⟩ : Card) ∉ H)
    {Y : Nat × Nat} (hY : Y ∈ p.2) {d : Nat} (hd : 1 ≤ d) :
    (d < Y.1 → (∀ i, 1 ≤ i → i ≤ d → (⟨rankOfValue (Y.1 - i), p.1⟩ : Card) ∈ H) →
      (⟨rankOfValue (Y.1 - d), p.1⟩ : Card) ∈ (getRunLayoffs H runs).flatten) ∧
    (Y.2 + d ≤ 14 → (∀ i, 1 ≤ i → i ≤ d → (⟨rankOfValue (Y.2 + i), p.1⟩ : Card) ∈ H) →
      (⟨rankOfValue (Y.2 + d), p.1⟩ : Card) ∈ (getRunLayoffs H runs).flatten) := by
  have hgeo' : ∀ Y ∈ p.2, rankOfValue Y.1 ∉ vals Card.suit Card.rank H p.1 ∧
      rankOfValue Y.2 ∉ vals Card.suit Card.rank H p.1 := by
    intro Y' hY'
    simp only [mem_suitVals]
    exact hgeo Y' hY'
  obtain ⟨h1, h2⟩ := suitRunLayoffs_reach (vals Card.suit Card.rank H p.1) p.2 (hb p hp) hgeo' Y hY d hd
  constructor
  · intro hlt hall
    exact mem_flatten_getRunLayoffs.2 ⟨p, hp, rfl, h1 hlt (fun i hi1 hi2 => (mem_suitVals ..).2 (hall i hi1 hi2))⟩
  · intro hlt hall
    exact mem_flatten_getRunLayoffs.2 ⟨p, hp, rfl, h2 hlt (fun i hi1 hi2 => (mem_suitVals ..).2 (hall i hi1 hi2))⟩

end Layoff
end CardVerif.Gin

/-!
# C12 — lay-offs, part D: the candidates of `layoff_deadwood`
-/
namespace CardVerif.Gin
namespace Layoff
open List MeldSearch

/-! ## generic helpers -/

theorem mem_powerset {α : Type} {l s : List α} : s ∈ powerset l ↔ s.Sublist l := by
  unfold powerset
  simp only [mem_flatMap, mem_range, MeldSearch.mem_combinations]
  constructor
  · rintro ⟨k, _, h, _⟩; exact h
  · intro h; exact ⟨s.length, by have := h.length_le; omega, h, rfl⟩

theorem sublist_flatten {α : Type} {l₁ l₂ : List (List α)} (h : l₁.Sublist l₂) : l₁.flatten.Sublist l₂.flatten := by
  induction h with
  | slnil => exact Sublist.refl _
  | cons a _ ih => rw [flatten_cons]; exact ih.trans (sublist_append_right _ _)
  | cons_cons a _ ih => rw [flatten_cons, flatten_cons]; exact (Sublist.refl a).append ih

theorem deadwood_sublist {l₁ l₂ : List Card} (h : l₁.Sublist l₂) : deadwood l₁ ≤ deadwood l₂ := by
  induction h with
  | slnil => exact Nat.le_refl _
  | cons a _ ih => rw [deadwood_cons]; omega
  | cons_cons a _ ih => rw [deadwood_cons, deadwood_cons]; omega

/-- a duplicate-free list splits into a duplicate-free part of it and the rest -/
theorem perm_filter_split {l s : List Card} (hl : l.Nodup) (hs : s.Nodup) (hsub : ∀ c ∈ s, c ∈ l) :
    (s ++ l.filter (fun c => !s.contains c)).Perm l := by
  have h1 := filter_append_perm (fun c => s.contains c) l
  refine Perm.trans (Perm.append_right _ ?_) h1
  refine (perm_ext_iff_of_nodup hs (hl.filter _)).2 ?_
  intro a
  simp only [mem_filter, contains_iff_mem]
  exact ⟨fun h => ⟨hsub a h, h⟩, fun h => h.2⟩

theorem foldl_min_spec' {α : Type} (key : α → Nat) (cs : List α) (c : α) :
    ((cs.foldl (fun best x => if key x < key best then x else best) c) = c ∨
      (cs.foldl (fun best x => if key x < key best then x else best) c) ∈ cs) ∧
    key (cs.foldl (fun best x => if key x < key best then x else best) c) ≤ key c ∧
    ∀ x ∈ cs, key (cs.foldl (fun best x => if key x < key best then x else best) c) ≤ key x := by
  induction cs generalizing c with
  | nil => simp
  | cons y ys ih =>
    simp only [foldl_cons]
    obtain ⟨h1, h2, h3⟩ := ih (if key y < key c then y else c)
    refine ⟨?_, ?_, ?_⟩
    · rcases h1 with h1 | h1
      · rw [h1]
        split
        · exact .inr mem_cons_self
        · exact .inl rfl
      · exact .inr (mem_cons_of_mem _ h1)
    · refine Nat.le_trans h2 ?_
      split <;> omega
    · intro x hx
      rcases mem_cons.1 hx with rfl | hx
      · refine Nat.le_trans h2 ?_
        split <;> omega
      · exact h3 x hx

/-! ## the result of `layoff_deadwood` is a candidate of minimum deadwood -/

theorem layoffDeadwood_spec {hand : List Card} {K : List (List Card)} {stop : Bool} {r : LayoffResult}
    (h : layoffDeadwood hand K stop = .ok r) :
    ∃ sets runs, splitSetsRuns K = .ok (sets, runs) ∧ r ∈ layoffCandidates hand sets runs ∧
      ∀ x ∈ layoffCandidates hand sets runs, r.deadwood ≤ x.deadwood := by
  unfold layoffDeadwood at h
  cases hsr : splitSetsRuns K with
  | error e => rw [hsr] at h; simp [bind, Except.bind] at h
  | ok sr =>
    obtain ⟨sets, runs⟩ := sr
    rw [hsr] at h
    simp only [bind, Except.bind] at h
    refine ⟨sets, runs, rfl, ?_⟩
    split at h
    · rename_i z hz
      injection h with h
      subst h
      cases stop with
      | false => simp at hz
      | true =>
        simp only [if_true] at hz
        have h0 := find?_some hz
        rw [beq_iff_eq] at h0
        exact ⟨mem_of_find?_eq_some hz, fun x _ => by omega⟩
    · split at h
      · cases h
      · rename_i c cs hcs
        injection h with h
        obtain ⟨h1, h2, h3⟩ := foldl_min_spec' LayoffResult.deadwood cs c
        rw [h] at h1 h2 h3
        rw [hcs]
        refine ⟨?_, ?_⟩
        · rcases h1 with h1 | h1
          · rw [h1]; exact mem_cons_self
          · exact mem_cons_of_mem _ h1
        · intro x hx
          rcases mem_cons.1 hx with rfl | hx
          · exact h2
          · exact h3 x hx

/-! ## the candidates -/

/-- the candidate built from an own arrangement, a choice of set lay-offs and a choice of run lay-off chunks -/
def mkResult (cand : Candidate) (loSets : List Card) (chunks : List (List Card)) : LayoffResult :=
  ⟨deadwood (sortByString ((cand.unmelded.filter fun c => !loSets.contains c).filter
      fun c => !chunks.flatten.contains c)),
    cand.melds, loSets ++ chunks.flatten,
    sortByRank ((cand.unmelded.filter fun c => !loSets.contains c).filter fun c => !chunks.flatten.contains c)⟩

theorem mem_layoffCandidates {hand : List Card} {sets : List Nat} {runs : List (Nat × List (Nat × Nat))}
    {x : LayoffResult} :
    x ∈ layoffCandidates hand sets runs ↔
      ∃ cand ∈ getCandidateMelds hand none true, ∃ loSets, loSets.Sublist (getSetLayoffs cand.unmelded sets) ∧
        ∃ chunks, chunks.Sublist
            (getRunLayoffs (sortByString (cand.unmelded.filter fun c => !loSets.contains c)) runs) ∧
          x = mkResult cand loSets chunks := by
  unfold layoffCandidates
  simp only [mem_flatMap, mem_map, mem_powerset]
  constructor
  · rintro ⟨cand, hc, loSets, hs, chunks, hch, rfl⟩
    exact ⟨cand, hc, loSets, hs, chunks, hch, rfl⟩
  · rintro ⟨cand, hc, loSets, hs, chunks, hch, rfl⟩
    exact ⟨cand, hc, loSets, hs, chunks, hch, rfl⟩

theorem runsBounded_of_splitOK {K : List (List Card)} {sets : List Nat} {runs : List (Nat × List (Nat × Nat))}
    (h : SplitOK K sets runs) : RunsBounded runs := by
  intro p hp Y hY
  obtain ⟨m, _, len, h3, _, hlo, hhi, he, _⟩ := h.run_sound p.1 p.2 hp Y hY
  omega

/-- the cards of a hand outside an arrangement, together with the melds, are the hand -/
theorem perm_melds_rest {hand : List Card} (hnd : hand.Nodup) {ms : List (List Card)} (harr : Arrangement hand ms) :
    (ms.flatten ++ restOf hand ms).Perm hand := by
  refine perm_filter_split hnd harr.disjoint ?_
  intro c hc
  obtain ⟨m, hm, hcm⟩ := mem_flatten.1 hc
  exact harr.sub m hm c hcm

/-- **every candidate is sound** -/
theorem candidate_sound {hand : List Card} (hok : HandOK hand) (hlen : hand.length ≤ 11) {K : List (List Card)}
    {sets : List Nat} {runs : List (Nat × List (Nat × Nat))} (hs : SplitOK K sets runs)
    {x : LayoffResult} (hx : x ∈ layoffCandidates hand sets runs) :
    Arrangement hand x.melds ∧ LayoffOK K x.laidOff ∧ (x.melds.flatten ++ x.laidOff ++ x.unmelded).Perm hand ∧
      x.deadwood = deadwood x.unmelded := by
  obtain ⟨cand, hcand, loSets, hlo, chunks, hch, rfl⟩ := mem_layoffCandidates.1 hx
  obtain ⟨harr, _, hperm, _, _⟩ :=
    candidates_sound_of hand hok hlen (allMelds_exact_thm hand hok hlen) none true cand hcand
  have hb := runsBounded_of_splitOK hs
  -- the unmelded cards
  have hUnd : cand.unmelded.Nodup := hperm.nodup_iff.2 (hok.1.filter _)
  -- set lay-offs
  have hlond : loSets.Nodup := (getSetLayoffs_nodup _ hs.sets_nodup).sublist hlo
  have hlosub : ∀ c ∈ loSets, c ∈ cand.unmelded := fun c hc => (getSetLayoffs_sub (hlo.subset hc)).1
  have hp1 := perm_filter_split hUnd hlond hlosub
  -- run lay-offs
  have humnd : (cand.unmelded.filter fun c => !loSets.contains c).Nodup := hUnd.filter _
  have hflat := sublist_flatten hch
  have hchnd : chunks.flatten.Nodup := (getRunLayoffs_nodup _ hb hs.keys_nodup).sublist hflat
  have hchsub : ∀ c ∈ chunks.flatten, c ∈ cand.unmelded.filter fun c => !loSets.contains c := fun c hc =>
    (sortBy_perm _ _).mem_iff.1 (getRunLayoffs_sub hb (hflat.subset hc))
  have hp2 := perm_filter_split humnd hchnd hchsub
  -- all parts together
  have hall : (loSets ++ chunks.flatten ++ ((cand.unmelded.filter fun c => !loSets.contains c).filter
      fun c => !chunks.flatten.contains c)).Perm cand.unmelded := by
    rw [append_assoc]
    exact (hp2.append_left _).trans hp1
  refine ⟨harr, ⟨?_, ?_⟩, ?_, ?_⟩
  · exact (nodup_append.1 (hall.nodup_iff.2 hUnd)).1
  · intro c hc
    rcases mem_append.1 hc with hc | hc
    · -- a set lay-off
      left
      exact (hs.mem_sets c.rank).1 (getSetLayoffs_sub (hlo.subset hc)).2
    · -- a run lay-off
      right
      obtain ⟨chunk, hchunk, hcc⟩ := mem_flatten.1 hc
      obtain ⟨p, hp, Y, hY, j, hform⟩ := getRunLayoffs_chunk hb (hch.subset hchunk)
      obtain ⟨m, hm, len, h3, h13, hlo1, hhi1, he, hpm⟩ := hs.run_sound p.1 p.2 hp Y hY
      have hin : ∀ c' ∈ chunk, c' ∈ (mkResult cand loSets chunks).laidOff := fun c' hc' =>
        mem_append_right _ (mem_flatten.2 ⟨chunk, hchunk, hc'⟩)
      refine ⟨m, hm, p.1, Y.1, len, h3, h13, hlo1, hhi1, hpm, ?_⟩
      rcases hform with ⟨hj, rfl⟩ | ⟨hj, rfl⟩
      · obtain ⟨i, hi, rfl⟩ := mem_map.1 hcc
        rw [mem_range] at hi
        refine ⟨rfl, .inl ⟨Y.1 - 1 - i, by omega, by omega, rfl, ?_⟩⟩
        intro u hu1 hu2
        apply hin
        refine mem_map.2 ⟨Y.1 - 1 - u, mem_range.2 (by omega), ?_⟩
        congr 2; omega
      · obtain ⟨i, hi, rfl⟩ := mem_map.1 hcc
        rw [mem_range] at hi
        refine ⟨rfl, .inr ⟨Y.2 + 1 + i, by omega, by omega, rfl, ?_⟩⟩
        intro u hu1 hu2
        apply hin
        refine mem_map.2 ⟨u - (Y.2 + 1), mem_range.2 (by omega), ?_⟩
        congr 2; omega
  · show (cand.melds.flatten ++ (loSets ++ chunks.flatten) ++ sortByRank _).Perm hand
    rw [append_assoc]
    refine Perm.trans (Perm.append_left _ ?_) (perm_melds_rest hok.1 harr)
    exact ((sortByRank_perm _).append_left _).trans (hall.trans hperm)
  · show deadwood (sortByString _) = deadwood (sortByRank _)
    exact (deadwood_perm (sortBy_perm _ _)).trans (deadwood_perm (sortByRank_perm _)).symm

/-! ## optimality -/

/-- the arrangement `A` – or a gin – is among the own candidates -/
theorem exists_cand {hand : List Card} (hok : HandOK hand) (hlen : hand.length ≤ 11) {A : List (List Card)}
    (harr : Arrangement hand A) :
    ∃ cand ∈ getCandidateMelds hand none true, cand.unmelded = [] ∨ cand.unmelded.Perm (restOf hand A) := by
  have hall := allMelds_exact_thm hand hok hlen
  have h3 := arrangement_length_le_three harr hlen
  rw [getCandidateMelds_eq]
  cases hloop : candLoop hand none true (combos hand) (c0 hand none) with
  | inl g =>
    obtain ⟨_, s', _, _, _, rfl⟩ := candLoop_inl _ _ _ hloop
    exact ⟨_, mem_singleton.2 rfl, .inl rfl⟩
  | inr cs =>
    obtain ⟨hacc, hcomb, _⟩ := candLoop_inr_complete _ _ _ hloop
    by_cases hne : A = []
    · subst hne
      refine ⟨⟨deadwood hand, [], sortByRank hand⟩, hacc _ (by simp [c0, within]), .inr ?_⟩
      rw [restOf_nil]; exact sortByRank_perm hand
    · obtain ⟨s, hs, hdj, _, _, hflat⟩ := exists_combo hall harr hne h3
      refine ⟨candOf hand s, hcomb s hs hdj rfl, .inr ?_⟩
      show (sortByRank (removeMelded hand s)).Perm _
      rw [removeMelded_eq_restOf, restOf_congr hand (fun c => hflat.mem_iff)]
      exact sortByRank_perm _

/-- the end cards of the recorded runs are the knocker's, hence not among the defender's cards -/
theorem run_ends_not_in {hand : List Card} {K : List (List Card)} (hk : KnockOK hand K) {sets : List Nat}
    {runs : List (Nat × List (Nat × Nat))} (hs : SplitOK K sets runs) {p : Nat × List (Nat × Nat)} (hp : p ∈ runs)
    {H : List Card} (hH : ∀ c ∈ H, c ∈ hand) :
    ∀ Y ∈ p.2, (⟨rankOfValue Y.1, p.1⟩ : Card) ∉ H ∧ (⟨rankOfValue Y.2, p.1⟩ : Card) ∉ H := by
  intro Y hY
  obtain ⟨m, hm, len, h3, h13, hlo1, hhi1, he, hpm⟩ := hs.run_sound p.1 p.2 hp Y hY
  have hKdis : ∀ c ∈ m, c ∉ H := fun c hc hh =>
    (nodup_append.1 hk.disjoint).2.2 c (mem_flatten.2 ⟨m, hm, hc⟩) c (hH c hh) rfl
  constructor
  · exact hKdis _ (hpm.mem_iff.2 ((mem_runCards ..).2 ⟨Y.1, by omega, by omega, rfl⟩))
  · exact hKdis _ (hpm.mem_iff.2 ((mem_runCards ..).2 ⟨Y.2, by omega, by omega, rfl⟩))

open Classical in
/-- **some candidate lays off at least as much as any legal lay-off on any arrangement** -/
theorem candidate_optimal {hand : List Card} (hok : HandOK hand) (hlen : hand.length ≤ 11) {K : List (List Card)}
    (hk : KnockOK hand K) {sets : List Nat} {runs : List (Nat × List (Nat × Nat))} (hs : SplitOK K sets runs)
    {A : List (List Card)} {L : List Card} (harr : Arrangement hand A) (hsub : ∀ c ∈ L, c ∈ restOf hand A)
    (hlo : LayoffOK K L) :
    ∃ x ∈ layoffCandidates hand sets runs,
      x.deadwood ≤ deadwood ((restOf hand A).filter fun c => !L.contains c) := by
  obtain ⟨cand, hcand, hU⟩ := exists_cand hok hlen harr
  rcases hU with hnil | hU
  · refine ⟨mkResult cand [] [], mem_layoffCandidates.2 ⟨cand, hcand, [], nil_sublist _, [], nil_sublist _, rfl⟩, ?_⟩
    have : (mkResult cand [] []).deadwood = 0 := by
      simp [mkResult, hnil, sortByString, sortBy, deadwood]
    omega
  · have hb := runsBounded_of_splitOK hs
    have hKdis : ∀ c ∈ K.flatten, c ∉ hand := fun c hc hh => (nodup_append.1 hk.disjoint).2.2 c hc c hh rfl
    have hUsub : ∀ c ∈ cand.unmelded, c ∈ hand := fun c hc => restOf_sub hand A c (hU.mem_iff.1 hc)
    have hLU : ∀ c ∈ L, c ∈ cand.unmelded := fun c hc => hU.mem_iff.2 (hsub c hc)
    -- the set lay-offs chosen: those of `L` that are not also run lay-offs
    obtain ⟨S0, hS0⟩ : ∃ S0, S0 = (getSetLayoffs cand.unmelded sets).filter
        (fun c => decide (c ∈ L ∧ ¬ RunLayoff K L c)) := ⟨_, rfl⟩
    obtain ⟨um, hum⟩ : ∃ um, um = cand.unmelded.filter fun c => !S0.contains c := ⟨_, rfl⟩
    obtain ⟨rls, hrls⟩ : ∃ rls, rls = getRunLayoffs (sortByString um) runs := ⟨_, rfl⟩
    have humhand : ∀ c ∈ sortByString um, c ∈ hand := by
      intro c hc
      have := (sortBy_perm _ _).mem_iff.1 hc
      rw [hum] at this
      exact hUsub c (mem_filter.1 this).1
    have hinH : ∀ x : Card, x ∈ L → RunLayoff K L x → x ∈ sortByString um := by
      intro x hxL hxRL
      apply (sortBy_perm _ _).mem_iff.2
      rw [hum]
      refine mem_filter.2 ⟨hLU x hxL, ?_⟩
      simp [hS0, hxRL]
    have claim : ∀ c ∈ L, c ∈ S0 ∨ c ∈ rls.flatten := by
      intro c hc
      by_cases hRL : RunLayoff K L c
      · right
        obtain ⟨m, hm, suit, lo, len, h3, h13, hlo1, hhi1, hpm, hcs, hdir⟩ := hRL
        have hcK : ∀ x ∈ m, x ∉ hand := fun x hx => hKdis x (mem_flatten.2 ⟨m, hm, hx⟩)
        have hchand : c ∈ hand := hUsub c (hLU c hc)
        have hnotfull : ¬ (lo = 1 ∧ len = 13) := by
          rintro ⟨rfl, rfl⟩
          rcases hdir with ⟨v, hv1, hv2, _⟩ | ⟨v, hv1, hv2, hv3, _⟩
          · omega
          · have : v = 14 := by omega
            subst this
            refine hcK c (hpm.mem_iff.2 ((mem_runCards ..).2 ⟨1, by omega, by omega, ?_⟩)) hchand
            cases c; simp_all [rankOfValue]
        obtain ⟨rs, hprs, hYrs⟩ := hs.run_complete m hm suit lo len h3 h13 hlo1 hhi1 hpm
        rw [recRun, if_neg hnotfull] at hYrs
        have hgeo := run_ends_not_in hk hs hprs humhand
        have hc_eq : ∀ v, c.rank = rankOfValue v → c = ⟨rankOfValue v, suit⟩ := by
          intro v hv; cases c; simp_all
        rw [hrls]
        rcases hdir with ⟨v, hv1, hv2, hv3, hbetween⟩ | ⟨v, hv1, hv2, hv3, hbetween⟩
        · have hreach := (getRunLayoffs_reach hb hprs hgeo hYrs (d := lo - v) (by omega)).1
            (by show lo - v < lo; omega) ?_
          · have e : lo - (lo - v) = v := by omega
            rw [hc_eq v hv3]
            simpa only [e] using hreach
          · intro i hi1 hi2
            show (⟨rankOfValue (lo - i), suit⟩ : Card) ∈ sortByString um
            by_cases hiv : lo - i = v
            · rw [hiv, ← hc_eq v hv3]
              exact hinH c hc ⟨m, hm, suit, lo, len, h3, h13, hlo1, hhi1, hpm, hcs,
                .inl ⟨v, hv1, hv2, hv3, hbetween⟩⟩
            · refine hinH _ (hbetween (lo - i) (by omega) (by omega)) ?_
              exact ⟨m, hm, suit, lo, len, h3, h13, hlo1, hhi1, hpm, rfl,
                .inl ⟨lo - i, by omega, by omega, rfl, fun u hu1 hu2 => hbetween u (by omega) hu2⟩⟩
        · have hreach := (getRunLayoffs_reach hb hprs hgeo hYrs (d := v - (lo + len - 1)) (by omega)).2
            (by show lo + len - 1 + (v - (lo + len - 1)) ≤ 14; omega) ?_
          · have e : lo + len - 1 + (v - (lo + len - 1)) = v := by omega
            rw [hc_eq v hv3]
            simpa only [e] using hreach
          · intro i hi1 hi2
            show (⟨rankOfValue (lo + len - 1 + i), suit⟩ : Card) ∈ sortByString um
            by_cases hiv : lo + len - 1 + i = v
            · rw [hiv, ← hc_eq v hv3]
              exact hinH c hc ⟨m, hm, suit, lo, len, h3, h13, hlo1, hhi1, hpm, hcs,
                .inr ⟨v, hv1, hv2, hv3, hbetween⟩⟩
            · refine hinH _ (hbetween (lo + len - 1 + i) (by omega) (by omega)) ?_
              exact ⟨m, hm, suit, lo, len, h3, h13, hlo1, hhi1, hpm, rfl,
                .inr ⟨lo + len - 1 + i, by omega, by omega, rfl, fun u hu1 hu2 => hbetween u hu1 (by omega)⟩⟩
      · left
        obtain ⟨m, hm, hms, hml, hmr⟩ := (hlo.2 c hc).resolve_right hRL
        rw [hS0]
        refine mem_filter.2 ⟨getSetLayoffs_complete (hLU c hc) ((hs.mem_sets c.rank).2 ⟨m, hm, hms, hml, hmr⟩) ?_,
          by simp [hc, hRL]⟩
        intro c' hc' hr'
        by_contra hne
        have h4 : (m ++ [c', c]).length ≤ 4 := by
          apply rank_count_le (r := c.rank)
          · refine nodup_append.2 ⟨hms.1, by simp [hne], ?_⟩
            intro a ha b hb' hab
            subst hab
            have hah : a ∈ hand := by
              rcases mem_cons.1 hb' with rfl | hb'
              · exact hUsub _ hc'
              · rw [mem_singleton] at hb'; subst hb'; exact hUsub _ (hLU _ hc)
            exact hKdis a (mem_flatten.2 ⟨m, hm, ha⟩) hah
          · intro a ha
            rcases mem_append.1 ha with ha | ha
            · exact hk.valid a (mem_flatten.2 ⟨m, hm, ha⟩)
            · rcases mem_cons.1 ha with rfl | ha
              · exact hok.2 _ (hUsub _ hc')
              · rw [mem_singleton] at ha; subst ha; exact hok.2 _ (hUsub _ (hLU _ hc))
          · intro a ha
            rcases mem_append.1 ha with ha | ha
            · exact hmr a ha
            · rcases mem_cons.1 ha with rfl | ha
              · exact hr'
              · rw [mem_singleton] at ha; subst ha; rfl
        simp [hml] at h4
    refine ⟨mkResult cand S0 rls, mem_layoffCandidates.2 ⟨cand, hcand, S0, ?_, rls, ?_, rfl⟩, ?_⟩
    · rw [hS0]; exact filter_sublist
    · rw [hrls, hum]
    · show deadwood (sortByString _) ≤ _
      refine Nat.le_trans (Nat.le_of_eq (deadwood_perm (sortBy_perm _ _))) ?_
      rw [← deadwood_perm (hU.filter _)]
      apply deadwood_sublist
      rw [filter_filter]
      apply monotone_filter_right
      intro c hcc
      simp only [Bool.and_eq_true, Bool.not_eq_true'] at hcc ⊢
      have h1 : c ∉ rls.flatten := fun h => by simpa [h] using hcc.1
      have h2 : c ∉ S0 := fun h => by simpa [h] using hcc.2
      replace hcc := And.intro h1 h2
      by_contra hcon
      have hcL : c ∈ L := by
        by_contra hn
        exact hcon (by simpa using hn)
      rcases claim c hcL with h | h
      · exact hcc.2 h
      · exact hcc.1 h

end Layoff
end CardVerif.Gin
