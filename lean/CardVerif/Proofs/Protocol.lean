import CardVerif.Proofs.BettingInv
import CardVerif.Proofs.Closure
import CardVerif.Proofs.Accept
/-!
# C03 — the betting protocol: helper lemmas

* §1 `resetLA` (what `move_street` does to the last actions) and the seat predicates;
* §2 invariant I1 and the table predicate `Tab` (lengths + I1) under which `is_action_closed` is the rule;
* §3 the rule after a street reset;
* §4 `Tab` is preserved by every sub-step (`appendAction`, `nextStreet`, `moveStreet`, `streets`, `advanceAction`);
* §5 `move_action` = `nextLive`;
* §6 `move_street` / the `streets` loop in the two closed cases (`streets_runout`, `streets_one`);
* §7 streets: `street ≤ 4`, `complete ↔ street = 4` (`reachable_street`);
* §8 `advance_action` by cases on the rule (`advanceAction_open` / `_runout` / `_nextStreet` / `_actor_live`);
* §9 cards: the board / deck invariant by street (`Cards`, `reachable_cards`).
-/
namespace CardVerif.Betting
open CardVerif

/-! ## §1 `resetLA`, `folded`, `live` -/

/-- what `move_street` does to the last actions: folds stay, everything else is cleared -/
def resetLA (la : List (Option ActType)) : List (Option ActType) :=
  la.map fun a => if a == some ActType.fold then a else none

theorem nextStreet_la (s : State) : s.nextStreet.lastActions = resetLA s.lastActions := rfl

theorem length_resetLA (la : List (Option ActType)) : (resetLA la).length = la.length := by
  simp [resetLA]

theorem join_resetLA (la : List (Option ActType)) (q : Nat) :
    ((resetLA la)[q]?).join = if folded la q then some .fold else none := by
  unfold resetLA folded
  rw [List.getElem?_map]
  rcases la[q]? with _ | _ | t
  · rfl
  · rfl
  · cases t <;> rfl

theorem folded_resetLA (la : List (Option ActType)) (p : Nat) : folded (resetLA la) p = folded la p := by
  have h := join_resetLA la p
  conv_lhs => unfold folded
  rw [h]
  cases folded la p <;> rfl

theorem acted_resetLA (la : List (Option ActType)) (p : Nat) : acted (resetLA la) p = folded la p := by
  have h := join_resetLA la p
  unfold acted
  rw [h]
  cases folded la p <;> rfl

theorem liveSeat_resetLA (la : List (Option ActType)) (stk : List Int) (p : Nat) :
    liveSeat (resetLA la) stk p = liveSeat la stk p := by
  unfold liveSeat; rw [folded_resetLA]

theorem resetLA_idem (la : List (Option ActType)) : resetLA (resetLA la) = resetLA la := by
  unfold resetLA
  rw [List.map_map]
  apply List.map_congr_left
  intro a _
  rcases a with _ | t
  · rfl
  · cases t <;> rfl

/-- `live p = ¬ cannot_act p` -/
theorem live_eq_not_cannotAct (s : State) (p : Nat) : s.live p = !s.cannotAct p := by
  unfold State.live liveSeat State.cannotAct State.isAllIn folded
  cases h1 : (getI s.stacks p == 0) <;> cases h2 : ((s.lastActions[p]?).join == some ActType.fold) <;>
    simp [bne, h1]

theorem liveSeat_le_notFolded (la : List (Option ActType)) (stk : List Int) (p : Nat)
    (h : liveSeat la stk p = true) : folded la p = false := by
  unfold liveSeat at h
  cases hf : folded la p
  · rfl
  · rw [hf] at h; simp at h

/-! ## §2 I1 and `Tab` -/

/-- invariant I1: the highest contribution is held by a seat that has not folded -/
def I1 (n : Nat) (la : List (Option ActType)) (pot : List Int) : Prop :=
  ∃ p, p < n ∧ folded la p = false ∧ ∀ q, q < n → getI pot q ≤ getI pot p

/-- the table predicate preserved by every sub-step of `act`: lengths and I1 -/
structure Tab (s : State) : Prop where
  n_ge : 2 ≤ s.n
  la_len : s.lastActions.length = s.n
  pot_len : s.pot.length = s.n
  stacks_len : s.stacks.length = s.n
  i1 : I1 s.n s.lastActions s.pot

/-- on a `Tab` table the implementation's closure test is the rule -/
theorem Tab.closed {s : State} (h : Tab s) : s.isActionClosed = .ok s.closedSpec :=
  closed_iff_fn s.n s.lastActions s.pot s.stacks h.n_ge h.la_len h.pot_len h.stacks_len h.i1

theorem I1_resetLA {n : Nat} {la : List (Option ActType)} {pot : List Int} (h : I1 n la pot) :
    I1 n (resetLA la) pot := by
  obtain ⟨p, hp, hf, hm⟩ := h
  exact ⟨p, hp, by rw [folded_resetLA]; exact hf, hm⟩

/-- `Tab` only reads `n`, `lastActions`, `pot`, `stacks` -/
theorem Tab.of_eq {s s' : State} (h : Tab s) (hn : s'.n = s.n) (hl : s'.lastActions = s.lastActions)
    (hp : s'.pot = s.pot) (hs : s'.stacks = s.stacks) : Tab s' :=
  ⟨by rw [hn]; exact h.n_ge, by rw [hn, hl]; exact h.la_len, by rw [hn, hp]; exact h.pot_len,
   by rw [hn, hs]; exact h.stacks_len, by rw [hn, hl, hp]; exact h.i1⟩

/-- `Tab` survives the street reset -/
theorem Tab.of_reset {s s' : State} (h : Tab s) (hn : s'.n = s.n) (hl : s'.lastActions = resetLA s.lastActions)
    (hp : s'.pot = s.pot) (hs : s'.stacks = s.stacks) : Tab s' :=
  ⟨by rw [hn]; exact h.n_ge, by rw [hn, hl, length_resetLA]; exact h.la_len, by rw [hn, hp]; exact h.pot_len,
   by rw [hn, hs]; exact h.stacks_len, by rw [hn, hl, hp]; exact I1_resetLA h.i1⟩

theorem Tab.nextStreet {s : State} (h : Tab s) : Tab s.nextStreet := h.of_reset rfl rfl rfl rfl

/-- a non-empty list has an index holding its maximum -/
theorem exists_max_index (pot : List Int) (n : Nat) (hp : pot.length = n) (hn : 0 < n) :
    ∃ p, p < n ∧ ∀ q, q < n → getI pot q ≤ getI pot p := by
  obtain ⟨m, _, hmem, hmax⟩ := maxI?_eq_some pot (by intro h; rw [h] at hp; simp at hp; omega)
  obtain ⟨p, hpl, hpm⟩ := mem_exists_getI pot m hmem
  refine ⟨p, hp ▸ hpl, fun q hq => ?_⟩
  rw [hpm]
  exact hmax _ (getI_mem' pot q (hp ▸ hq))

theorem folded_set (la : List (Option ActType)) (a : Nat) (t : ActType) (p : Nat) (ha : a < la.length) :
    folded (la.set a (some t)) p = if p = a then t == ActType.fold else folded la p := by
  unfold folded
  rw [List.getElem?_set]
  by_cases h : a = p
  · subst h; simp [ha]
  · have h' : ¬ p = a := fun e => h e.symm
    simp [h, h']

/-- I1 is preserved by an accepted action: a fold comes from a seat strictly below the maximum, any other action
leaves the actor non-folded and adds `x ≥ 0` to its contribution -/
theorem I1_step (n : Nat) (la : List (Option ActType)) (pot : List Int) (a : Nat) (t : ActType) (x : Int)
    (hla : la.length = n) (hp : pot.length = n) (ha : a < n) (hx : 0 ≤ x) (hI : I1 n la pot)
    (hfold : t = .fold → x = 0 ∧ ∃ q, q < n ∧ getI pot a < getI pot q) :
    I1 n (la.set a (some t)) (pot.modify a (· + x)) := by
  obtain ⟨p0, hp0, hf0, hm0⟩ := hI
  have hget : ∀ q, getI (pot.modify a (· + x)) q = if a = q then getI pot q + x else getI pot q := by
    intro q
    rw [getI_modify]
    by_cases hq : a = q
    · subst hq; simp [hp, ha]
    · simp [hq]
  by_cases ht : t = .fold
  · obtain ⟨hx0, q, hq, hlt⟩ := hfold ht
    have hne : p0 ≠ a := by
      intro e; subst e
      have := hm0 q hq; omega
    refine ⟨p0, hp0, ?_, ?_⟩
    · rw [folded_set _ _ _ _ (by omega), if_neg hne]; exact hf0
    · intro q hq
      rw [hget, hget, hx0]
      have := hm0 q hq
      split <;> split <;> omega
  · have hnf : (t == ActType.fold) = false := by simpa using ht
    by_cases hge : getI pot p0 ≤ getI pot a + x
    · refine ⟨a, ha, ?_, ?_⟩
      · rw [folded_set _ _ _ _ (by omega), if_pos rfl]; exact hnf
      · intro q hq
        rw [hget, hget, if_pos rfl]
        have := hm0 q hq
        split
        · rename_i e; subst e; omega
        · omega
    · have hne : p0 ≠ a := by
        intro e; subst e; omega
      refine ⟨p0, hp0, ?_, ?_⟩
      · rw [folded_set _ _ _ _ (by omega), if_neg hne]; exact hf0
      · intro q hq
        have h2 := hget p0
        rw [if_neg (fun e => hne e.symm)] at h2
        rw [hget, h2]
        have := hm0 q hq
        split
        · rename_i e; subst e; omega
        · omega

/-! ## §3 the rule after a street reset -/

/-- the seats that have not folded -/
def nfSeats (n : Nat) (la : List (Option ActType)) : List Nat := (List.range n).filter fun p => !folded la p
/-- the seats able to bet -/
def liveSeats (n : Nat) (la : List (Option ActType)) (stk : List Int) : List Nat :=
  (List.range n).filter fun p => liveSeat la stk p

theorem closedSpec_def (n : Nat) (la : List (Option ActType)) (pot stk : List Int) :
    closedSpec n la pot stk =
      (decide ((nfSeats n la).length ≤ 1) ||
        ((liveSeats n la stk).all (fun p => getI pot p == (match maxI? pot with | some m => m | none => 0)) &&
          ((liveSeats n la stk).all (fun p => acted la p) ||
            ((liveSeats n la stk).length == 1 && (nfSeats n la).all fun p => !acted la p)))) := rfl

theorem nfSeats_resetLA (n : Nat) (la : List (Option ActType)) : nfSeats n (resetLA la) = nfSeats n la := by
  simp only [nfSeats, folded_resetLA]

theorem liveSeats_resetLA (n : Nat) (la : List (Option ActType)) (stk : List Int) :
    liveSeats n (resetLA la) stk = liveSeats n la stk := by
  simp only [liveSeats, liveSeat_resetLA]

theorem mem_liveSeats {n : Nat} {la : List (Option ActType)} {stk : List Int} {p : Nat} :
    p ∈ liveSeats n la stk ↔ p < n ∧ liveSeat la stk p = true := by
  simp [liveSeats]

theorem mem_nfSeats {n : Nat} {la : List (Option ActType)} {p : Nat} :
    p ∈ nfSeats n la ↔ p < n ∧ folded la p = false := by
  simp [nfSeats]

theorem liveSeats_length_le (n : Nat) (la : List (Option ActType)) (stk : List Int) :
    (liveSeats n la stk).length ≤ (nfSeats n la).length := by
  unfold liveSeats nfSeats
  rw [← List.countP_eq_length_filter, ← List.countP_eq_length_filter]
  apply List.countP_mono_left
  intro p _ hp
  rw [liveSeat_le_notFolded la stk p hp]; rfl

/-- closed, and at most one seat can still bet ⇒ the next street's round is closed as soon as it opens -/
theorem closedSpec_reset_of_le_one {n : Nat} {la : List (Option ActType)} {pot stk : List Int}
    (hc : closedSpec n la pot stk = true) (hl : (liveSeats n la stk).length ≤ 1) :
    closedSpec n (resetLA la) pot stk = true := by
  rw [closedSpec_def] at hc ⊢
  rw [nfSeats_resetLA, liveSeats_resetLA]
  simp only [acted_resetLA]
  rw [Bool.or_eq_true] at hc ⊢
  rcases hc with h | h
  · exact Or.inl h
  · right
    rw [Bool.and_eq_true] at h ⊢
    refine ⟨h.1, ?_⟩
    rw [Bool.or_eq_true]
    have hN : (nfSeats n la).all (fun p => !folded la p) = true := by
      rw [List.all_eq_true]
      intro p hp
      rw [(mem_nfSeats.1 hp).2]; rfl
    match hL : liveSeats n la stk with
    | [] => left; rfl
    | [x] => right; rw [hN]; rfl
    | _ :: _ :: _ => rw [hL] at hl; simp at hl

/-- at least two seats can still bet ⇒ the next street's round is open -/
theorem closedSpec_reset_of_two_le {n : Nat} {la : List (Option ActType)} {pot stk : List Int}
    (hl : 2 ≤ (liveSeats n la stk).length) : closedSpec n (resetLA la) pot stk = false := by
  rw [closedSpec_def, nfSeats_resetLA, liveSeats_resetLA]
  simp only [acted_resetLA]
  have h1 := liveSeats_length_le n la stk
  have hA : decide ((nfSeats n la).length ≤ 1) = false := by
    rw [decide_eq_false_iff_not]; omega
  have hB : (liveSeats n la stk).all (fun p => folded la p) = false := by
    rw [← Bool.not_eq_true, List.all_eq_true]
    intro h
    match hL : liveSeats n la stk with
    | [] => rw [hL] at hl; simp at hl
    | x :: _ =>
      have hx : x ∈ liveSeats n la stk := by rw [hL]; simp
      have := h x hx
      rw [liveSeat_le_notFolded la stk x (mem_liveSeats.1 hx).2] at this
      cases this
  have hC : ((liveSeats n la stk).length == 1) = false := by
    rw [beq_eq_false_iff_ne]; omega
  rw [hA, hB, hC]
  simp

/-- an open round has a live seat -/
theorem exists_live_of_open {n : Nat} {la : List (Option ActType)} {pot stk : List Int}
    (h : closedSpec n la pot stk = false) : ∃ p, p < n ∧ liveSeat la stk p = true := by
  match hL : liveSeats n la stk with
  | [] =>
    rw [closedSpec_def, hL] at h
    simp at h
  | x :: _ =>
    have hx : x ∈ liveSeats n la stk := by rw [hL]; simp
    exact ⟨x, mem_liveSeats.1 hx⟩

/-! ## §4 `Tab` is preserved -/

theorem exists_maxPot_index {s : State} (hwf : s.WF) : ∃ q, q < s.n ∧ getI s.pot q = s.maxPot := by
  obtain ⟨m, hm, hmem, _⟩ := maxI?_eq_some s.pot (by
    intro h; have h1 := hwf.pot_len; have h2 := hwf.n_ge; rw [h] at h1; simp at h1; omega)
  obtain ⟨q, hq, hqm⟩ := mem_exists_getI s.pot m hmem
  refine ⟨q, hwf.pot_len ▸ hq, ?_⟩
  unfold State.maxPot
  rw [hm]; exact hqm

/-- an accepted action keeps the table predicate -/
theorem appendAction_tab {s s1 : State} {player : Int} {ty : Option ActType} {amount : Option Int}
    (hwf : s.WF) (ht : Tab s) (h : s.appendAction World.std player ty amount = .ok s1) : Tab s1 := by
  obtain ⟨a, t, x, _, ha, rfl, rfl, hx0, _, hxpos, _, _, hval, rfl⟩ := appendAction_spec h
  have halt := hwf.action_lt a ha
  have hV := ((validateAction_ok_iff hwf ha _ t x).1 hval).2
  refine ⟨ht.n_ge, ?_, ?_, ?_, ?_⟩
  · show (s.lastActions.set a (some t)).length = s.n
    rw [List.length_set]; exact ht.la_len
  · show (s.pot.modify a (· + x)).length = s.n
    rw [List.length_modify]; exact ht.pot_len
  · show (s.stacks.modify a (· - x)).length = s.n
    rw [List.length_modify]; exact ht.stacks_len
  · show I1 s.n (s.lastActions.set a (some t)) (s.pot.modify a (· + x))
    apply I1_step s.n s.lastActions s.pot a t x ht.la_len ht.pot_len halt hx0 ht.i1
    rintro rfl
    have hx : x = 0 := by
      have : ¬ 0 < x := by rw [hxpos]; decide
      omega
    have howed : s.owed a ≠ 0 := hV.2
    obtain ⟨q, hq, hqm⟩ := exists_maxPot_index hwf
    refine ⟨hx, q, hq, ?_⟩
    have h1 := stack_nonneg hwf a
    have h2 := pot_le_maxPot hwf a halt
    unfold State.owed at howed
    omega

theorem streets_la (fuel : Nat) {s s' : State} (h : State.advanceAction.streets fuel s = .ok s') :
    s'.lastActions = s.lastActions ∨ s'.lastActions = resetLA s.lastActions := by
  induction fuel generalizing s with
  | zero => simp [State.advanceAction.streets] at h
  | succ fuel ih =>
    unfold State.advanceAction.streets at h
    split at h
    · rw [bind_ok] at h
      obtain ⟨s1, h1, h⟩ := h
      rw [bind_ok] at h
      obtain ⟨c, _, h⟩ := h
      have f5 : s1.lastActions = resetLA s.lastActions := (moveStreet_frame h1).2.2.2.2
      cases c with
      | true =>
        simp only [if_true] at h
        rcases ih h with e | e
        · right; rw [e, f5]
        · right; rw [e, f5, resetLA_idem]
      | false =>
        simp only [Bool.false_eq_true, if_false, Except.ok.injEq] at h
        subst h
        exact Or.inr f5
    · cases h
      exact Or.inl rfl

/-- `advance_action` either keeps the last actions or resets them (folds stay) -/
theorem advanceAction_la {env : Env} {s s' : State} (h : s.advanceAction env = .ok s') :
    s'.lastActions = s.lastActions ∨ s'.lastActions = resetLA s.lastActions := by
  rw [advanceAction_eq, bind_ok] at h
  obtain ⟨closed, _, h⟩ := h
  rw [bind_ok] at h
  obtain ⟨s2, h2, h⟩ := h
  have h3 : s'.lastActions = s2.lastActions := by
    rcases settleIfShowdown_ok h with ⟨_, rfl⟩ | ⟨_, pay, rake, _, rfl⟩ <;> rfl
  rw [h3]
  cases closed with
  | false =>
    simp only [Bool.not_false, if_true] at h2
    exact Or.inl (moveAction_frame h2).2.2.2.1
  | true =>
    simp only [Bool.not_true, Bool.false_eq_true, if_false] at h2
    exact streets_la 6 h2

theorem advanceAction_tab {env : Env} {s s' : State} (ht : Tab s) (h : s.advanceAction env = .ok s') : Tab s' := by
  obtain ⟨f1, f2, _⟩ := advanceAction_frame h
  rcases advanceAction_la h with e | e
  · exact ht.of_eq f1.n e f2.pot f2.stacks
  · exact ht.of_reset f1.n e f2.pot f2.stacks

theorem construct_tab {cfg : Cfg} (hv : cfg.Valid) {s : State} (h : construct cfg = .ok s) : Tab s := by
  have hi := construct_inv hv h
  have hwf := hi.wf hv
  obtain ⟨_, _, _, _, _, _, _, _, _, _, _, _, _, hla, _⟩ := construct_frame h
  obtain ⟨p, hp, hm⟩ := exists_max_index s.pot s.n hwf.pot_len (by have := hwf.n_ge; omega)
  refine ⟨hwf.n_ge, hwf.la_len, hwf.pot_len, hwf.stacks_len, p, hp, ?_, hm⟩
  unfold folded
  rw [hla, List.getElem?_map]
  cases cfg.startingStacks[p]? <;> rfl

/-- **the table predicate holds on every reachable state** -/
theorem reachable_tab {env : Env} (hw : env.w = World.std) {cfg : Cfg} (hv : cfg.Valid) {s : State}
    (h : Reachable env cfg s) : Tab s := by
  induction h with
  | init h => exact construct_tab hv h
  | step p ty amt hr hact ih =>
    obtain ⟨s1, h1, h2⟩ := act_ok.1 hact
    rw [hw] at h1
    exact advanceAction_tab (appendAction_tab ((reachable_inv hw hv hr).wf hv) ih h1) h2

/-! ## §5 `move_action` = `nextLive` -/

/-- `move_action`'s loop returns the first seat that can act in the cyclic order it walks through -/
theorem moveAction_go_eq (s : State) (b : Nat) : ∀ fuel k,
    State.moveAction.go s fuel ((b + k) % s.n) =
      match ((List.range' k fuel).map fun i => (b + i) % s.n).find? (fun q => !s.cannotAct q) with
      | some q => .ok q
      | none => .error .fuel := by
  intro fuel
  induction fuel with
  | zero => intro k; simp [State.moveAction.go]
  | succ fuel ih =>
    intro k
    unfold State.moveAction.go
    rw [List.range'_succ, List.map_cons, List.find?_cons]
    have e : ((b + k) % s.n + 1) % s.n = (b + (k + 1)) % s.n := by rw [Nat.mod_add_mod, Nat.add_assoc]
    rw [e, ih (k + 1)]
    cases s.cannotAct ((b + k) % s.n) <;> simp

/-- every seat occurs in the clockwise order starting left of `a` -/
theorem mem_cyc (n a p : Nat) (hp : p < n) : p ∈ (List.range n).map fun k => (a + 1 + k) % n := by
  rw [List.mem_map]
  have hc : (a + 1) % n < n := Nat.mod_lt _ (by omega)
  by_cases h : (a + 1) % n ≤ p
  · refine ⟨p - (a + 1) % n, List.mem_range.2 (by omega), ?_⟩
    rw [← Nat.mod_add_mod, show (a + 1) % n + (p - (a + 1) % n) = p by omega, Nat.mod_eq_of_lt hp]
  · refine ⟨p + n - (a + 1) % n, List.mem_range.2 (by omega), ?_⟩
    rw [← Nat.mod_add_mod, show (a + 1) % n + (p + n - (a + 1) % n) = p + n by omega, Nat.add_mod_right,
      Nat.mod_eq_of_lt hp]

theorem nextLive_isSome (s : State) (a : Nat) (h : ∃ p, p < s.n ∧ s.live p = true) : (s.nextLive a).isSome := by
  unfold State.nextLive
  rw [List.find?_isSome]
  obtain ⟨p, hp, hl⟩ := h
  exact ⟨p, mem_cyc s.n a p hp, hl⟩

/-- `move_action` passes the action to the next live seat clockwise -/
theorem moveAction_eq (s : State) (a q : Nat) (ha : s.action = some a) (hq : s.nextLive a = some q) :
    s.moveAction = .ok { s with action := some q } := by
  have hgo : State.moveAction.go s (s.n + 1) ((a + 1) % s.n) = .ok q := by
    have h := moveAction_go_eq s (a + 1) (s.n + 1) 0
    rw [Nat.add_zero] at h
    rw [h, ← List.range_eq_range', List.range_succ, List.map_append, List.find?_append]
    have hfun : (fun q => !s.cannotAct q) = fun q => s.live q :=
      funext fun q => (live_eq_not_cannotAct s q).symm
    rw [hfun]
    have hq' : ((List.range s.n).map fun i => (a + 1 + i) % s.n).find? (fun q => s.live q) = some q := hq
    rw [hq']
    rfl
  unfold State.moveAction
  rw [ha]
  simp only [hgo, bind, Except.bind]

/-! ## §6 `move_street` and the `streets` loop when the round is closed -/

/-- cards dealt when street `st` opens on a board of `len` cards -/
def dealK (st len : Nat) : Nat :=
  if st = 1 ∧ len = 0 then 3 else if st = 2 ∧ len ≤ 3 then 1 else if st = 3 ∧ len ≤ 4 then 1 else 0

theorem nextStreet_live (s : State) (p : Nat) : s.nextStreet.live p = s.live p :=
  liveSeat_resetLA s.lastActions s.stacks p

/-- after the flop the first seat to act is the first live seat -/
theorem getStartingAction_nextStreet {s : State} {a : Nat} (h : s.nextStreet.getStartingAction = .ok a) :
    (List.range s.n).find? (fun q => s.live q) = some a := by
  unfold State.getStartingAction at h
  have h0 : (s.nextStreet.street == 0) = false := by simp [State.nextStreet]
  have hfun : (fun p => !s.nextStreet.cannotAct p) = fun q => s.live q :=
    funext fun q => by rw [← live_eq_not_cannotAct, nextStreet_live]
  simp only [h0, Bool.false_eq_true, if_false, hfun] at h
  change (match (List.range s.n).find? (fun q => s.live q) with
    | some p => Except.ok p | none => Except.error Err.stopIteration) = .ok a at h
  split at h
  · rename_i p hp; cases h; exact hp
  · cases h

theorem dealK_eq (st : Nat) (board : List Card) :
    dealK st board.length =
      if (st == 1 && (board.take 3).isEmpty) = true then 3
      else if (st == 2 && ((board.drop 3).take 1).isEmpty) = true then 1
      else if (st == 3 && ((board.drop 4).take 1).isEmpty) = true then 1 else 0 := by
  rcases board with _ | ⟨_, _ | ⟨_, _ | ⟨_, _ | ⟨_, _ | ⟨_, _⟩⟩⟩⟩⟩ <;> simp [dealK]

/-- `move_street` on an open new round: the first live seat is to act and `dealK` cards are dealt -/
theorem moveStreet_open_ok {s s' : State} (h : s.moveStreet = .ok s')
    (hc : s.nextStreet.isActionClosed = .ok false) :
    ∃ a, s.nextStreet.getStartingAction = .ok a ∧
      s' = State.dealCardsToBoard { s.nextStreet with action := some a } (dealK (s.street + 1) s.board.length) := by
  unfold State.moveStreet at h
  rw [bind_ok] at h
  obtain ⟨c, hc', h⟩ := h
  change s.nextStreet.isActionClosed = .ok c at hc'
  rw [hc] at hc'
  cases hc'
  simp only [Bool.false_eq_true, if_false] at h
  split at h
  case h_2 => simp [bind, Except.bind] at h
  rename_i a ha'
  change s.nextStreet.getStartingAction = .ok a at ha'
  simp only [pure, Except.pure, bind, Except.bind] at h
  refine ⟨a, ha', ?_⟩
  rw [dealK_eq]
  split at h
  · rename_i c1
    rw [if_pos c1]; cases h; rfl
  · rename_i c1
    rw [if_neg c1]
    split at h
    · rename_i c2
      rw [if_pos c2]; cases h; rfl
    · rename_i c2
      rw [if_neg c2]
      split at h
      · rename_i c3
        rw [if_pos c3]; cases h; rfl
      · rename_i c3
        rw [if_neg c3]; cases h; rw [dealCardsToBoard_zero]; rfl

/-- `move_street` when the new round is closed at once: nobody is to act, nothing is dealt -/
theorem moveStreet_closed_ok {s s' : State} (ht : Tab s)
    (hq : closedSpec s.n (resetLA s.lastActions) s.pot s.stacks = true) (h : s.moveStreet = .ok s') :
    s' = { s.nextStreet with action := none } := by
  have hcl : s.nextStreet.isActionClosed = .ok true := by
    rw [ht.nextStreet.closed]; exact congrArg _ hq
  rcases moveStreet_ok h with ⟨_, e⟩ | ⟨hc, _⟩
  · exact e
  · rw [hcl] at hc; cases hc

/-- **run-out**: if the round is closed as soon as the next street opens, the `streets` loop goes to the showdown
street, nobody is to act, and no card is dealt -/
theorem streets_runout (fuel : Nat) {t s' : State} (ht : Tab t)
    (hq : closedSpec t.n (resetLA t.lastActions) t.pot t.stacks = true)
    (h : State.advanceAction.streets fuel t = .ok s') (hs : t.street ≤ 4)
    (hact : t.street < 4 ∨ t.action = none) :
    s'.street = 4 ∧ s'.action = none ∧ s'.board = t.board ∧ s'.deck = t.deck := by
  induction fuel generalizing t with
  | zero => simp [State.advanceAction.streets] at h
  | succ fuel ih =>
    unfold State.advanceAction.streets at h
    split at h
    · rename_i hlt
      have hlt' : t.street < 4 := hlt
      rw [bind_ok] at h
      obtain ⟨t1, h1, h⟩ := h
      have e := moveStreet_closed_ok ht hq h1
      subst e
      have ht1 : Tab { t.nextStreet with action := none } := ht.nextStreet.of_eq rfl rfl rfl rfl
      have hq1 : closedSpec t.n (resetLA (resetLA t.lastActions)) t.pot t.stacks = true := by
        rw [resetLA_idem]; exact hq
      rw [bind_ok] at h
      obtain ⟨c, hc, h⟩ := h
      rw [ht1.closed] at hc
      have hc' : c = true := by
        have : ({ t.nextStreet with action := none } : State).closedSpec = true := hq
        rw [this] at hc; cases hc; rfl
      subst hc'
      simp only [if_true] at h
      obtain ⟨r1, r2, r3, r4⟩ := ih ht1 hq1 h (by show t.street + 1 ≤ 4; omega) (Or.inr rfl)
      exact ⟨r1, r2, r3, r4⟩
    · rename_i hge
      have hge' : ¬ t.street < 4 := hge
      cases h
      refine ⟨by omega, ?_, rfl, rfl⟩
      rcases hact with h | h
      · omega
      · exact h

/-- **next street**: with at least two live seats the `streets` loop runs `move_street` exactly once -/
theorem streets_one (fuel : Nat) {s s' : State} (ht : Tab s)
    (hl : 2 ≤ (liveSeats s.n s.lastActions s.stacks).length)
    (h : State.advanceAction.streets fuel s = .ok s') (hs : s.street < 4) :
    ∃ a, (List.range s.n).find? (fun q => s.live q) = some a ∧
      s' = State.dealCardsToBoard { s.nextStreet with action := some a } (dealK (s.street + 1) s.board.length) := by
  cases fuel with
  | zero => simp [State.advanceAction.streets] at h
  | succ fuel =>
    unfold State.advanceAction.streets at h
    split at h
    · rw [bind_ok] at h
      obtain ⟨t1, h1, h⟩ := h
      have hcl : s.nextStreet.isActionClosed = .ok false := by
        rw [ht.nextStreet.closed]; exact congrArg _ (closedSpec_reset_of_two_le hl)
      obtain ⟨a, ha, e⟩ := moveStreet_open_ok h1 hcl
      subst e
      rw [bind_ok] at h
      obtain ⟨c, hc, h⟩ := h
      have : (State.dealCardsToBoard { s.nextStreet with action := some a }
          (dealK (s.street + 1) s.board.length)).isActionClosed = s.nextStreet.isActionClosed :=
        isActionClosed_congr rfl rfl rfl rfl
      rw [this, hcl] at hc
      cases hc
      simp only [Bool.false_eq_true, if_false, Except.ok.injEq] at h
      exact ⟨a, getStartingAction_nextStreet ha, h.symm⟩
    · rename_i hge
      exact absurd (show s.street < showdownStreet from hs) hge

/-! ## §7 streets: `street ≤ 4`, `complete ↔ street = 4` -/

theorem streets_street_le (fuel : Nat) {s s' : State} (h : State.advanceAction.streets fuel s = .ok s')
    (hs : s.street ≤ 4) : s'.street ≤ 4 := by
  induction fuel generalizing s with
  | zero => simp [State.advanceAction.streets] at h
  | succ fuel ih =>
    unfold State.advanceAction.streets at h
    split at h
    · rename_i hlt
      have hlt' : s.street < 4 := hlt
      rw [bind_ok] at h
      obtain ⟨s1, h1, h⟩ := h
      rw [bind_ok] at h
      obtain ⟨c, _, h⟩ := h
      have f4 : s1.street = s.street + 1 := (moveStreet_frame h1).2.2.2.1
      cases c with
      | true =>
        simp only [if_true] at h
        exact ih h (by omega)
      | false =>
        simp only [Bool.false_eq_true, if_false, Except.ok.injEq] at h
        subst h
        omega
    · cases h
      exact hs

/-- `advance_action` from a hand in progress before the showdown: the street stays `≤ 4` and the hand is complete
exactly on street 4 -/
theorem advanceAction_street {env : Env} {s s' : State} (h : s.advanceAction env = .ok s') (hs : s.street < 4)
    (hc : s.complete = false) : s'.street ≤ 4 ∧ (s'.complete = true ↔ s'.street = 4) := by
  rw [advanceAction_eq, bind_ok] at h
  obtain ⟨closed, _, h⟩ := h
  rw [bind_ok] at h
  obtain ⟨s2, h2, h⟩ := h
  have hsd : showdownStreet = 4 := rfl
  have key : s2.street ≤ 4 ∧ s2.complete = false := by
    cases closed with
    | false =>
      simp only [Bool.not_false, if_true] at h2
      obtain ⟨_, _, f3, _, f5, _⟩ := moveAction_frame h2
      exact ⟨by omega, by rw [f3.complete, hc]⟩
    | true =>
      simp only [Bool.not_true, Bool.false_eq_true, if_false] at h2
      exact ⟨streets_street_le 6 h2 (by omega), by rw [(streets_post 6 h2).result.complete, hc]⟩
  rcases settleIfShowdown_ok h with ⟨hlt, rfl⟩ | ⟨hge, pay, rake, _, rfl⟩
  · rw [hsd] at hlt
    refine ⟨key.1, ?_⟩
    rw [key.2]
    constructor
    · intro h; cases h
    · intro h; omega
  · rw [hsd] at hge
    have : s2.street = 4 := by have := key.1; omega
    exact ⟨by show s2.street ≤ 4; omega, fun _ => this, fun _ => rfl⟩

theorem reachable_street {env : Env} {cfg : Cfg} {s : State} (h : Reachable env cfg s) :
    s.street ≤ 4 ∧ (s.complete = true ↔ s.street = 4) := by
  induction h with
  | init h =>
    obtain ⟨_, _, _, _, _, _, _, _, _, _, _, hst, _, _, _, _, hc, _⟩ := construct_frame h
    rw [hst, hc]; simp
  | step p ty amt hr hact ih =>
    obtain ⟨s1, h1, h2⟩ := act_ok.1 hact
    have hc := (appendAction_ok.1 h1).1
    obtain ⟨_, t1, r1⟩ := appendAction_frame h1
    have hlt : ¬ _ = 4 := fun e => by have := ih.2.2 e; rw [hc] at this; cases this
    exact advanceAction_street h2 (by rw [t1.street]; have := ih.1; omega) (by rw [r1.complete, hc])

/-! ## §8 `advance_action` by cases on the rule -/

/-- open round: `advance_action` succeeds and only moves the action, to the next live seat clockwise -/
theorem advanceAction_open (env : Env) {s1 : State} (ht : Tab s1) (hopen : s1.closedSpec = false)
    (hs : s1.street < 4) (a : Nat) (ha : s1.action = some a) :
    ∃ q, s1.nextLive a = some q ∧ s1.advanceAction env = .ok { s1 with action := some q } := by
  have hsome := nextLive_isSome s1 a (exists_live_of_open hopen)
  obtain ⟨q, hq⟩ := Option.isSome_iff_exists.1 hsome
  refine ⟨q, hq, ?_⟩
  rw [advanceAction_eq, ht.closed, hopen]
  simp only [bind, Except.bind, Bool.not_false, if_true]
  rw [moveAction_eq s1 a q ha hq]
  simp only [State.settleIfShowdown]
  rw [if_neg]
  show ¬ (4 ≤ s1.street)
  omega

/-- closed round, at most one live seat: run-out to the showdown street -/
theorem advanceAction_runout {env : Env} {s1 s' : State} (ht : Tab s1) (hcl : s1.closedSpec = true)
    (hlive : (liveSeats s1.n s1.lastActions s1.stacks).length ≤ 1) (hs : s1.street < 4)
    (hadv : s1.advanceAction env = .ok s') :
    s'.complete = true ∧ s'.street = 4 ∧ s'.action = none ∧ s'.board = s1.board ∧ s'.deck = s1.deck ∧
    s'.stacks = s1.stacks ∧ s'.pot = s1.pot ∧ s'.lastActions = resetLA s1.lastActions := by
  rw [advanceAction_eq, ht.closed, hcl] at hadv
  simp only [bind, Except.bind, Bool.not_true, Bool.false_eq_true, if_false] at hadv
  change (State.advanceAction.streets 6 s1 >>= State.settleIfShowdown env) = .ok s' at hadv
  rw [bind_ok] at hadv
  obtain ⟨s2, h2, h3⟩ := hadv
  obtain ⟨r1, r2, r3, r4⟩ := streets_runout 6 ht (closedSpec_reset_of_le_one hcl hlive) h2 (by omega) (Or.inl hs)
  have p := streets_post 6 h2
  have hla : s2.lastActions = resetLA s1.lastActions := by
    unfold State.advanceAction.streets at h2
    rw [if_pos (show s1.street < showdownStreet from hs), bind_ok] at h2
    obtain ⟨t1, h1, h2⟩ := h2
    rw [bind_ok] at h2
    obtain ⟨c, _, h2⟩ := h2
    have f5 : t1.lastActions = resetLA s1.lastActions := (moveStreet_frame h1).2.2.2.2
    cases c with
    | true =>
      simp only [if_true] at h2
      rcases streets_la 5 h2 with e | e
      · rw [e, f5]
      · rw [e, f5, resetLA_idem]
    | false =>
      simp only [Bool.false_eq_true, if_false, Except.ok.injEq] at h2
      subst h2; exact f5
  rcases settleIfShowdown_ok h3 with ⟨hlt, _⟩ | ⟨_, pay, rake, _, rfl⟩
  · have : s2.street < 4 := hlt
    omega
  · exact ⟨rfl, r1, r2, r3, r4, p.money.stacks, p.money.pot, hla⟩

/-- closed round, at least two live seats: one street further, the first live seat acts, `dealK` cards dealt;
after the river the result is that state settled -/
theorem advanceAction_nextStreet {env : Env} {s1 s' : State} (ht : Tab s1) (hcl : s1.closedSpec = true)
    (hlive : 2 ≤ (liveSeats s1.n s1.lastActions s1.stacks).length) (hs : s1.street < 4)
    (hadv : s1.advanceAction env = .ok s') :
    ∃ a, (List.range s1.n).find? (fun q => s1.live q) = some a ∧
      ((s1.street < 3 ∧
        s' = State.dealCardsToBoard { s1.nextStreet with action := some a } (dealK (s1.street + 1) s1.board.length)) ∨
       (s1.street = 3 ∧ ∃ pay rake,
        s' = { ({ s1.nextStreet with action := some a } : State) with
                payouts := some pay, rakePaid := some rake, complete := true })) := by
  rw [advanceAction_eq, ht.closed, hcl] at hadv
  simp only [bind, Except.bind, Bool.not_true, Bool.false_eq_true, if_false] at hadv
  change (State.advanceAction.streets 6 s1 >>= State.settleIfShowdown env) = .ok s' at hadv
  rw [bind_ok] at hadv
  obtain ⟨s2, h2, h3⟩ := hadv
  obtain ⟨a, hfind, rfl⟩ := streets_one 6 ht hlive h2 hs
  refine ⟨a, hfind, ?_⟩
  rcases settleIfShowdown_ok h3 with ⟨hlt, rfl⟩ | ⟨hge, pay, rake, _, rfl⟩
  · left
    have : s1.street + 1 < 4 := hlt
    exact ⟨by omega, rfl⟩
  · right
    have : 4 ≤ s1.street + 1 := hge
    have h3 : s1.street = 3 := by omega
    refine ⟨h3, pay, rake, ?_⟩
    have hk : dealK (s1.street + 1) s1.board.length = 0 := by rw [h3]; simp [dealK]
    rw [hk, dealCardsToBoard_zero]

/-- whenever `advance_action` leaves the hand in progress, the seat to act is live -/
theorem advanceAction_actor_live {env : Env} {s s' : State} (hn : 0 < s.n) (h : s.advanceAction env = .ok s')
    (hc : s'.complete = false) : ∃ a, s'.action = some a ∧ a < s'.n ∧ s'.live a = true := by
  rw [advanceAction_eq, bind_ok] at h
  obtain ⟨closed, _, h⟩ := h
  rw [bind_ok] at h
  obtain ⟨s2, h2, h⟩ := h
  rcases settleIfShowdown_ok h with ⟨hlt, rfl⟩ | ⟨_, pay, rake, _, rfl⟩
  · cases closed with
    | false =>
      simp only [Bool.not_false, if_true] at h2
      obtain ⟨a, p, _, rfl, hp⟩ := moveAction_ok h2
      refine ⟨p, rfl, (hp hn).1, ?_⟩
      rw [live_eq_not_cannotAct]
      show (!s.cannotAct p) = true
      rw [(hp hn).2]; rfl
    | true =>
      simp only [Bool.not_true, Bool.false_eq_true, if_false] at h2
      have p := streets_post 6 h2
      rcases p.stop with h4 | ⟨_, a, ha, hlt', hcan⟩
      · exact absurd hlt (Nat.not_lt.2 h4)
      · refine ⟨a, ha, by rw [p.cfg.n]; exact hlt', ?_⟩
        rw [live_eq_not_cannotAct, hcan]; rfl
  · cases hc


/-! ## §9 cards: the board / deck invariant by street -/

/-- the board is the preset board followed by the first `j` cards of the configured deck, the deck is the rest;
while the hand is in progress the board has exactly the length of its street (preset cards count);
it never exceeds five cards -/
structure Cards (cfg : Cfg) (s : State) : Prop where
  split : ∃ j, s.board = cfg.board ++ cfg.deck.take j ∧ s.deck = cfg.deck.drop j
  len : s.complete = false →
    s.board.length = if s.street = 0 then cfg.board.length else max cfg.board.length (s.street + 2)
  le5 : s.board.length ≤ 5

/-- dealing moves cards from the deck to the board: the total is constant -/
theorem Cards.total {cfg : Cfg} {s : State} (h : Cards cfg s) :
    s.board.length + s.deck.length = cfg.board.length + cfg.deck.length := by
  obtain ⟨j, h1, h2⟩ := h.split
  rw [h1, h2, List.length_append, List.length_take, List.length_drop]
  omega

/-- in-progress boards by street: preset length before the flop, then at least 3 / 4 / 5 cards -/
theorem Cards.street_len {cfg : Cfg} {s : State} (h : Cards cfg s) (hc : s.complete = false) :
    (s.street = 0 → s.board = cfg.board) ∧ (1 ≤ s.street → s.street + 2 ≤ s.board.length) := by
  have hl := h.len hc
  obtain ⟨j, h1, _⟩ := h.split
  constructor
  · intro h0
    rw [if_pos h0, h1, List.length_append] at hl
    have : (cfg.deck.take j).length = 0 := by omega
    rw [h1, List.eq_nil_of_length_eq_zero this, List.append_nil]
  · intro h0
    rw [if_neg (by omega)] at hl
    omega

theorem Cards.of_eq {cfg : Cfg} {s s' : State} (h : Cards cfg s) (hb : s'.board = s.board) (hd : s'.deck = s.deck)
    (hst : s'.street = s.street) (hc : s'.complete = s.complete) : Cards cfg s' :=
  ⟨by rw [hb, hd]; exact h.split, by rw [hb, hst, hc]; exact h.len, by rw [hb]; exact h.le5⟩

theorem construct_cards {cfg : Cfg} (hv : cfg.Valid) {s : State} (h : construct cfg = .ok s) : Cards cfg s := by
  obtain ⟨_, _, _, _, _, _, _, _, _, hdeck, hboard, hst, _⟩ := construct_frame h
  refine ⟨⟨0, by rw [hboard]; simp, by rw [hdeck]; simp⟩, fun _ => by rw [hboard, hst]; simp, ?_⟩
  rw [hboard]
  have := hv.board_len
  omega

/-- dealing the next street's cards keeps the invariant -/
theorem Cards.deal {cfg : Cfg} (hv : cfg.Valid) {s1 s' : State} (h : Cards cfg s1) (hc1 : s1.complete = false)
    (hs : s1.street < 3) (hst : s'.street = s1.street + 1)
    (hb : s'.board = s1.board ++ s1.deck.take (dealK (s1.street + 1) s1.board.length))
    (hd : s'.deck = s1.deck.drop (dealK (s1.street + 1) s1.board.length)) : Cards cfg s' := by
  have htot := h.total
  have hlen := h.len hc1
  have hL := hv.board_len
  have hD := hv.cards
  obtain ⟨j, h1, h2⟩ := h.split
  have hnew : s'.board.length =
      if s'.street = 0 then cfg.board.length else max cfg.board.length (s'.street + 2) := by
    rw [hb, hst, List.length_append, List.length_take, if_neg (by omega)]
    unfold dealK
    have hcase : s1.street = 0 ∨ s1.street = 1 ∨ s1.street = 2 := by omega
    rcases hcase with e | e | e <;> rw [e] at hlen ⊢ <;>
      simp only [Nat.reduceAdd, Nat.reduceEqDiff, true_and, false_and, if_false, if_true] at hlen ⊢ <;>
      split_ifs <;> omega
  refine ⟨⟨j + dealK (s1.street + 1) s1.board.length, ?_, ?_⟩, fun _ => hnew, ?_⟩
  · rw [hb, h1, h2, List.take_add, List.append_assoc]
  · rw [hd, h2, List.drop_drop]
  · rw [hnew, hst, if_neg (by omega)]
    omega

/-- one accepted action keeps the card invariant -/
theorem act_cards {env : Env} (hw : env.w = World.std) {cfg : Cfg} (hv : cfg.Valid) {s s' : State}
    {player : Int} {ty : Option ActType} {amount : Option Int} (hr : Reachable env cfg s) (hcards : Cards cfg s)
    (hact : s.act env player ty amount = .ok s') : Cards cfg s' := by
  obtain ⟨s1, h1, hadv⟩ := act_ok.1 hact
  rw [hw] at h1
  have hwf := (reachable_inv hw hv hr).wf hv
  have ht1 := appendAction_tab hwf (reachable_tab hw hv hr) h1
  have hc := (appendAction_ok.1 h1).1
  obtain ⟨_, t1, r1⟩ := appendAction_frame h1
  have hc1 : s1.complete = false := by rw [r1.complete, hc]
  have hst : s1.street < 4 := by
    obtain ⟨hle, hiff⟩ := reachable_street hr
    rw [t1.street]
    have : s.street ≠ 4 := fun e => by have := hiff.2 e; rw [hc] at this; cases this
    omega
  have hcards1 : Cards cfg s1 := hcards.of_eq t1.board t1.deck t1.street r1.complete
  cases hcl : s1.closedSpec with
  | false =>
    obtain ⟨a, ha⟩ := Option.isSome_iff_exists.1 (hwf.action_some hc)
    obtain ⟨q, _, he⟩ := advanceAction_open env ht1 hcl hst a (by rw [t1.action]; exact ha)
    rw [hadv] at he
    cases he
    exact hcards1.of_eq rfl rfl rfl rfl
  | true =>
    by_cases hlive : (liveSeats s1.n s1.lastActions s1.stacks).length ≤ 1
    · obtain ⟨a1, _, _, a4, a5, _⟩ := advanceAction_runout ht1 hcl hlive hst hadv
      exact ⟨by rw [a4, a5]; exact hcards1.split, fun h => (by rw [a1] at h; cases h), by rw [a4]; exact hcards1.le5⟩
    · obtain ⟨a, _, hcase⟩ := advanceAction_nextStreet ht1 hcl (by omega) hst hadv
      rcases hcase with ⟨hlt, rfl⟩ | ⟨_, pay, rake, rfl⟩
      · exact hcards1.deal hv hc1 hlt rfl rfl rfl
      · exact ⟨hcards1.split, fun h => (by cases h), hcards1.le5⟩

/-- **the card invariant holds on every reachable state** -/
theorem reachable_cards {env : Env} (hw : env.w = World.std) {cfg : Cfg} (hv : cfg.Valid) {s : State}
    (h : Reachable env cfg s) : Cards cfg s := by
  induction h with
  | init h => exact construct_cards hv h
  | step p ty amt hr hact ih => exact act_cards hw hv hr ih hact


end CardVerif.Betting
