import CardModel.Spec.OmahaTables
/-! # C06 — suit-free Omaha table, module 1 of 15 (compiled evaluation, `native_decide`; 455 board multisets × 1,820 hand multisets)

`tabR_a_blo_bhi`: the table holds on the ascending boards whose lowest value is `a` and whose second value lies in `[blo, bhi]`. -/
namespace CardVerif.OmahaD

/-- 455 boards -/
theorem tabR_2_2_2 : tableRc 2 2 2 = true := by native_decide

end CardVerif.OmahaD
