import CardModel.Model.Float53
import Mathlib.Tactic.Linarith
import Mathlib.Tactic.Ring
import Mathlib.Tactic.Positivity
import Mathlib.Tactic.FieldSimp
import Mathlib.Algebra.Order.Field.Rat
import Mathlib.Algebra.Order.GroupWithZero.Basic
import Mathlib.Data.Rat.Cast.Order
/-!
# `Float53.rnd` is monotone and exact on integers of at most 53 bits

* `pow2 e = 2 ^ e` (`zpow`), so the order / additivity facts come from Mathlib;
* `ilog2_spec`: for `0 < q`, `pow2 (ilog2 q) ≤ q < pow2 (ilog2 q + 1)`, and `ilog2` is the only such exponent;
* `roundHalfEven` fixes integers and is monotone, hence it respects integer bounds;
* `rndPos` maps the binade `[2^e, 2^(e+1))` monotonically into `[2^e, 2^(e+1)]`;
* `rnd_mono`, `rnd_int`.
-/
namespace CardVerif.Float53

/-! ## `pow2` -/

theorem pow2_eq (e : Int) : pow2 e = (2 : Rat) ^ e := by
  unfold pow2
  split
  · rename_i h
    obtain ⟨n, rfl⟩ := Int.eq_ofNat_of_zero_le h
    simp
  · rename_i h
    obtain ⟨n, hn⟩ := Int.eq_ofNat_of_zero_le (show 0 ≤ -e by omega)
    have he : e = -(n : Int) := by omega
    subst he
    simp

theorem pow2_pos (e : Int) : 0 < pow2 e := by
  rw [pow2_eq]; exact zpow_pos (by norm_num) e

theorem pow2_add (a b : Int) : pow2 (a + b) = pow2 a * pow2 b := by
  simp only [pow2_eq]; exact zpow_add₀ (by norm_num) a b

theorem pow2_le_iff {a b : Int} : pow2 a ≤ pow2 b ↔ a ≤ b := by
  simp only [pow2_eq]; exact zpow_le_zpow_iff_right₀ (by norm_num)

theorem pow2_lt_iff {a b : Int} : pow2 a < pow2 b ↔ a < b := by
  simp only [pow2_eq]; exact zpow_lt_zpow_iff_right₀ (by norm_num)

theorem pow2_natCast (n : Nat) : pow2 (n : Int) = ((2 ^ n : Nat) : Rat) := by
  rw [pow2_eq]; simp

theorem pow2_zero : pow2 0 = 1 := by rw [pow2_eq]; simp

theorem pow2_sub (a b : Int) : pow2 (a - b) = pow2 a / pow2 b := by
  have h := pow2_add (a - b) b
  rw [Int.sub_add_cancel] at h
  rw [h, mul_div_assoc, div_self (ne_of_gt (pow2_pos b)), mul_one]

/-! ## `ilog2` -/

/-- the exponent of a positive rational is determined by its binade -/
theorem binade_unique {q : Rat} {e e' : Int} (h1 : pow2 e ≤ q) (h2 : q < pow2 (e + 1))
    (h1' : pow2 e' ≤ q) (h2' : q < pow2 (e' + 1)) : e = e' := by
  have a : e < e' + 1 := pow2_lt_iff.1 (lt_of_le_of_lt h1 h2')
  have b : e' < e + 1 := pow2_lt_iff.1 (lt_of_le_of_lt h1' h2)
  omega

theorem ilog2_spec {q : Rat} (hq : 0 < q) : pow2 (ilog2 q) ≤ q ∧ q < pow2 (ilog2 q + 1) := by
  have hnum : 0 < q.num := Rat.num_pos.2 hq
  have hden : 0 < q.den := q.den_pos
  obtain ⟨n, hn⟩ := Int.eq_ofNat_of_zero_le (le_of_lt hnum)
  have hn0 : n ≠ 0 := by rintro rfl; simp [hn] at hnum
  have hd0 : q.den ≠ 0 := by omega
  have hnt : q.num.toNat = n := by rw [hn]; simp
  -- the two-sided bounds on numerator and denominator
  have n1 : ((2 ^ n.log2 : Nat) : Rat) ≤ (n : Rat) := by exact_mod_cast Nat.log2_self_le hn0
  have n2 : (n : Rat) < ((2 ^ (n.log2 + 1) : Nat) : Rat) := by exact_mod_cast Nat.lt_log2_self
  have d1 : ((2 ^ q.den.log2 : Nat) : Rat) ≤ (q.den : Rat) := by exact_mod_cast Nat.log2_self_le hd0
  have d2 : (q.den : Rat) < ((2 ^ (q.den.log2 + 1) : Nat) : Rat) := by exact_mod_cast Nat.lt_log2_self
  rw [← pow2_natCast] at n1 n2 d1 d2
  have hqd : q * (q.den : Rat) = (n : Rat) := by
    have := Rat.mul_den_eq_num q
    rw [this, hn]; simp
  have hdpos : (0 : Rat) < (q.den : Rat) := by exact_mod_cast hden
  -- `2^(e0-1) < q < 2^(e0+1)`
  have lo : pow2 ((n.log2 : Int) - (q.den.log2 : Int) - 1) < q := by
    have e : ((n.log2 : Int) - (q.den.log2 : Int) - 1) = (n.log2 : Int) - ((q.den.log2 + 1 : Nat) : Int) := by
      push_cast; omega
    rw [e, pow2_sub, div_lt_iff₀ (pow2_pos _)]
    calc pow2 (n.log2 : Int) ≤ (n : Rat) := n1
      _ = q * (q.den : Rat) := hqd.symm
      _ < q * pow2 ((q.den.log2 + 1 : Nat) : Int) := by
        exact mul_lt_mul_of_pos_left d2 hq
  have hi : q < pow2 ((n.log2 : Int) - (q.den.log2 : Int) + 1) := by
    have e : ((n.log2 : Int) - (q.den.log2 : Int) + 1) = ((n.log2 + 1 : Nat) : Int) - (q.den.log2 : Int) := by
      push_cast; omega
    rw [e, pow2_sub, lt_div_iff₀ (pow2_pos _)]
    calc q * pow2 (q.den.log2 : Int) ≤ q * (q.den : Rat) := mul_le_mul_of_nonneg_left d1 (le_of_lt hq)
      _ = (n : Rat) := hqd
      _ < pow2 ((n.log2 + 1 : Nat) : Int) := n2
  unfold ilog2
  simp only [hnt]
  split
  · rename_i h
    refine ⟨le_of_lt lo, ?_⟩
    rw [Int.sub_add_cancel]; exact h
  · rename_i h
    split
    · rename_i h'
      exact absurd hi (not_lt.2 h')
    · rename_i h'
      exact ⟨not_lt.1 h, not_le.1 h'⟩

theorem ilog2_eq {q : Rat} {e : Int} (h1 : pow2 e ≤ q) (h2 : q < pow2 (e + 1)) : ilog2 q = e := by
  have hq : 0 < q := lt_of_lt_of_le (pow2_pos e) h1
  obtain ⟨a, b⟩ := ilog2_spec hq
  exact binade_unique a b h1 h2

theorem ilog2_mono {q q' : Rat} (hq : 0 < q) (h : q ≤ q') : ilog2 q ≤ ilog2 q' := by
  obtain ⟨a, _⟩ := ilog2_spec hq
  obtain ⟨_, b'⟩ := ilog2_spec (lt_of_lt_of_le hq h)
  have : ilog2 q < ilog2 q' + 1 := pow2_lt_iff.1 (lt_of_le_of_lt (le_trans a h) b')
  omega

/-! ## `roundHalfEven` -/

theorem roundHalfEven_cases (m : Rat) : roundHalfEven m = m.floor ∨ roundHalfEven m = m.floor + 1 := by
  unfold roundHalfEven
  simp only
  split
  · exact Or.inl rfl
  · split
    · exact Or.inr rfl
    · split
      · exact Or.inl rfl
      · exact Or.inr rfl

theorem roundHalfEven_intCast (z : Int) : roundHalfEven (z : Rat) = z := by
  unfold roundHalfEven
  simp only [Rat.floor_intCast, sub_self]
  norm_num

theorem roundHalfEven_mono {m m' : Rat} (h : m ≤ m') : roundHalfEven m ≤ roundHalfEven m' := by
  have hf : m.floor ≤ m'.floor := Rat.floor_monotone h
  rcases Int.lt_or_eq_of_le hf with hlt | heq
  · -- different integer parts
    have a : roundHalfEven m ≤ m.floor + 1 := by
      rcases roundHalfEven_cases m with e | e <;> omega
    have b : m'.floor ≤ roundHalfEven m' := by
      rcases roundHalfEven_cases m' with e | e <;> omega
    omega
  · -- same integer part: compare the fractional parts
    have hfr : m - (m.floor : Rat) ≤ m' - (m'.floor : Rat) := by rw [heq]; linarith
    unfold roundHalfEven
    simp only
    rw [← heq] at hfr ⊢
    generalize m - (m.floor : Rat) = fr at hfr
    generalize m' - (m.floor : Rat) = fr' at hfr
    split_ifs <;> first | omega | (exfalso; linarith)

theorem le_roundHalfEven {k : Int} {m : Rat} (h : (k : Rat) ≤ m) : k ≤ roundHalfEven m := by
  have := roundHalfEven_mono h
  rwa [roundHalfEven_intCast] at this

theorem roundHalfEven_le {k : Int} {m : Rat} (h : m ≤ (k : Rat)) : roundHalfEven m ≤ k := by
  have := roundHalfEven_mono h
  rwa [roundHalfEven_intCast] at this

/-! ## `rndPos` -/

theorem rndPos_eq (q : Rat) :
    rndPos q = (roundHalfEven (q / pow2 (ilog2 q - 52)) : Rat) * pow2 (ilog2 q - 52) := rfl

theorem pow2_52 : pow2 52 = ((2 ^ 52 : Int) : Rat) := by
  have := pow2_natCast 52
  rw [show ((52 : Nat) : Int) = 52 from rfl] at this
  rw [this]; norm_num

theorem pow2_53 : pow2 53 = ((2 ^ 53 : Int) : Rat) := by
  have := pow2_natCast 53
  rw [show ((53 : Nat) : Int) = 53 from rfl] at this
  rw [this]; norm_num

/-- the scaled significand lies in `[2^52, 2^53)` -/
theorem scaled_bounds {q : Rat} {e : Int} (h1 : pow2 e ≤ q) (h2 : q < pow2 (e + 1)) :
    ((2 ^ 52 : Int) : Rat) ≤ q / pow2 (e - 52) ∧ q / pow2 (e - 52) < ((2 ^ 53 : Int) : Rat) := by
  have hu := pow2_pos (e - 52)
  constructor
  · rw [le_div_iff₀ hu, ← pow2_52, ← pow2_add]
    rw [show (52 : Int) + (e - 52) = e by omega]; exact h1
  · rw [div_lt_iff₀ hu, ← pow2_53, ← pow2_add]
    rw [show (53 : Int) + (e - 52) = e + 1 by omega]; exact h2

/-- within its binade, `rndPos` stays in the closed binade -/
theorem rndPos_bounds {q : Rat} {e : Int} (h1 : pow2 e ≤ q) (h2 : q < pow2 (e + 1)) :
    pow2 e ≤ rndPos q ∧ rndPos q ≤ pow2 (e + 1) := by
  have he := ilog2_eq h1 h2
  obtain ⟨s1, s2⟩ := scaled_bounds h1 h2
  have hu := pow2_pos (e - 52)
  rw [rndPos_eq, he]
  constructor
  · have : ((2 ^ 52 : Int) : Rat) ≤ (roundHalfEven (q / pow2 (e - 52)) : Rat) := by
      exact_mod_cast le_roundHalfEven s1
    calc pow2 e = pow2 (52 + (e - 52)) := by rw [show (52 : Int) + (e - 52) = e by omega]
      _ = ((2 ^ 52 : Int) : Rat) * pow2 (e - 52) := by rw [pow2_add, pow2_52]
      _ ≤ _ := mul_le_mul_of_nonneg_right this (le_of_lt hu)
  · have : (roundHalfEven (q / pow2 (e - 52)) : Rat) ≤ ((2 ^ 53 : Int) : Rat) := by
      exact_mod_cast roundHalfEven_le (le_of_lt s2)
    calc _ ≤ ((2 ^ 53 : Int) : Rat) * pow2 (e - 52) := mul_le_mul_of_nonneg_right this (le_of_lt hu)
      _ = pow2 (53 + (e - 52)) := by rw [pow2_add, pow2_53]
      _ = pow2 (e + 1) := by rw [show (53 : Int) + (e - 52) = e + 1 by omega]

theorem rndPos_pos {q : Rat} (hq : 0 < q) : 0 < rndPos q := by
  obtain ⟨a, b⟩ := ilog2_spec hq
  exact lt_of_lt_of_le (pow2_pos _) (rndPos_bounds a b).1

theorem rndPos_mono {q q' : Rat} (hq : 0 < q) (h : q ≤ q') : rndPos q ≤ rndPos q' := by
  have hq' : 0 < q' := lt_of_lt_of_le hq h
  obtain ⟨a, b⟩ := ilog2_spec hq
  obtain ⟨a', b'⟩ := ilog2_spec hq'
  rcases Int.lt_or_eq_of_le (ilog2_mono hq h) with hlt | heq
  · -- different binades: the boundary `2^(e+1)` separates the two values
    calc rndPos q ≤ pow2 (ilog2 q + 1) := (rndPos_bounds a b).2
      _ ≤ pow2 (ilog2 q') := pow2_le_iff.2 (by omega)
      _ ≤ rndPos q' := (rndPos_bounds a' b').1
  · -- same binade: same ulp, and `roundHalfEven` is monotone
    rw [rndPos_eq, rndPos_eq, ← heq]
    have hu := pow2_pos (ilog2 q - 52)
    have hm : q / pow2 (ilog2 q - 52) ≤ q' / pow2 (ilog2 q - 52) :=
      div_le_div_of_nonneg_right h (le_of_lt hu)
    have : (roundHalfEven (q / pow2 (ilog2 q - 52)) : Rat) ≤ (roundHalfEven (q' / pow2 (ilog2 q - 52)) : Rat) := by
      exact_mod_cast roundHalfEven_mono hm
    exact mul_le_mul_of_nonneg_right this (le_of_lt hu)

/-- a positive rational whose scaled significand is an integer is representable -/
theorem rndPos_of_scaled_int {q : Rat} (k : Int) (h : q / pow2 (ilog2 q - 52) = (k : Rat)) : rndPos q = q := by
  rw [rndPos_eq, h, roundHalfEven_intCast, ← h, div_mul_cancel₀ _ (ne_of_gt (pow2_pos _))]

/-! ## `rnd` -/

/-- **rounding is monotone** -/
theorem rnd_mono (a b : Rat) (h : a ≤ b) : rnd a ≤ rnd b := by
  unfold rnd
  rcases lt_trichotomy a 0 with ha | ha | ha
  · have na : ¬ (0 < a) := not_lt.2 (le_of_lt ha)
    have pa : 0 < rndPos (-a) := rndPos_pos (by linarith)
    rw [if_neg (ne_of_lt ha), if_neg na]
    rcases lt_trichotomy b 0 with hb | hb | hb
    · have nb : ¬ (0 < b) := not_lt.2 (le_of_lt hb)
      rw [if_neg (ne_of_lt hb), if_neg nb]
      have := rndPos_mono (q := -b) (q' := -a) (by linarith) (by linarith)
      linarith
    · rw [if_pos hb]; linarith
    · rw [if_neg (ne_of_gt hb), if_pos hb]
      have := rndPos_pos hb
      linarith
  · subst ha
    rw [if_pos rfl]
    rcases lt_or_eq_of_le h with hb | hb
    · rw [if_neg (ne_of_gt hb), if_pos hb]; exact le_of_lt (rndPos_pos hb)
    · rw [if_pos hb.symm]
  · have hb : 0 < b := lt_of_lt_of_le ha h
    rw [if_neg (ne_of_gt ha), if_pos ha, if_neg (ne_of_gt hb), if_pos hb]
    exact rndPos_mono ha h

/-- a positive integer of at most 53 bits (or `2^53` itself) is representable -/
theorem rndPos_int {z : Int} (h0 : 0 < z) (hz : z ≤ 2 ^ 53) : rndPos (z : Rat) = (z : Rat) := by
  have hq : (0 : Rat) < (z : Rat) := by exact_mod_cast h0
  obtain ⟨a, b⟩ := ilog2_spec hq
  -- `0 ≤ e ≤ 53`
  have e0 : 0 ≤ ilog2 (z : Rat) := by
    have : pow2 0 ≤ (z : Rat) := by rw [pow2_zero]; exact_mod_cast h0
    have := pow2_lt_iff.1 (lt_of_le_of_lt this b)
    omega
  have e53 : ilog2 (z : Rat) ≤ 53 := by
    have : (z : Rat) ≤ pow2 53 := by rw [pow2_53]; exact_mod_cast hz
    have := pow2_lt_iff.1 (lt_of_le_of_lt (le_trans a this) (pow2_lt_iff.2 (show (53 : Int) < 54 by omega)))
    omega
  rcases Int.lt_or_eq_of_le e53 with hlt | heq
  · -- `ulp = 2^-(52-e)`: the scaled value is `z * 2^(52-e)`
    obtain ⟨n, hn⟩ := Int.eq_ofNat_of_zero_le (show 0 ≤ 52 - ilog2 (z : Rat) by omega)
    refine rndPos_of_scaled_int (z * ((2 ^ n : Nat) : Int)) ?_
    have hu := pow2_pos (ilog2 (z : Rat) - 52)
    rw [div_eq_iff (ne_of_gt hu)]
    push_cast
    have : ((2 : Rat) ^ n) * pow2 (ilog2 (z : Rat) - 52) = 1 := by
      have h := pow2_natCast n
      push_cast at h
      rw [← h, ← pow2_add, ← hn, show (52 - ilog2 (z : Rat)) + (ilog2 (z : Rat) - 52) = 0 by omega, pow2_zero]
    rw [mul_assoc, this, mul_one]
  · -- `e = 53`: then `z = 2^53`, `ulp = 2`
    have hz' : z = 2 ^ 53 := by
      have : pow2 53 ≤ (z : Rat) := by rw [← heq]; exact a
      rw [pow2_53] at this
      have : (2 ^ 53 : Int) ≤ z := by exact_mod_cast this
      omega
    refine rndPos_of_scaled_int (2 ^ 52) ?_
    have hu := pow2_pos (ilog2 (z : Rat) - 52)
    rw [div_eq_iff (ne_of_gt hu), heq, ← pow2_52, ← pow2_add, hz', ← pow2_53]
    norm_num

/-- **integers up to `2^53` in absolute value are exact** -/
theorem rnd_int (z : Int) (hz : |z| ≤ 2 ^ 53) : rnd (z : Rat) = (z : Rat) := by
  unfold rnd
  rcases lt_trichotomy z 0 with h | h | h
  · have hq : (z : Rat) < 0 := by exact_mod_cast h
    rw [if_neg (ne_of_lt hq), if_neg (not_lt.2 (le_of_lt hq))]
    have hz' : -z ≤ 2 ^ 53 := by rw [abs_of_neg h] at hz; exact hz
    have := rndPos_int (z := -z) (by omega) hz'
    push_cast at this
    rw [this]; ring
  · subst h; simp
  · have hq : (0 : Rat) < (z : Rat) := by exact_mod_cast h
    rw [if_neg (ne_of_gt hq), if_pos hq]
    have hz' : z ≤ 2 ^ 53 := by rw [abs_of_pos h] at hz; exact hz
    exact rndPos_int h hz'

/-! ## sanity: the model computes the IEEE values, and the bound `2^53` is sharp -/

/-- the double nearest to `1/10` -/
example : rnd (1 / 10) = 3602879701896397 / 36028797018963968 := by decide +kernel
/-- `2^53 + 1` is a tie and rounds to the even neighbour: `fixInt` fails just above the bound -/
example : rnd ((2 ^ 53 + 1 : Int) : Rat) = ((2 ^ 53 : Int) : Rat) := by decide +kernel
example : rnd ((2 ^ 53 + 3 : Int) : Rat) = ((2 ^ 53 + 4 : Int) : Rat) := by decide +kernel

end CardVerif.Float53
