import CardVerif.Proofs.Rank5TableDefs
/-! # C05 — the finite table, lowest values 6..14 (kernel evaluation by `decide +kernel`) -/
namespace CardVerif.C05
set_option maxRecDepth 1000000

theorem table_6 : checkFrom 6 = true := by decide +kernel
theorem table_7 : checkFrom 7 = true := by decide +kernel
theorem table_8 : checkFrom 8 = true := by decide +kernel
theorem table_9 : checkFrom 9 = true := by decide +kernel
theorem table_10 : checkFrom 10 = true := by decide +kernel
theorem table_11 : checkFrom 11 = true := by decide +kernel
theorem table_12 : checkFrom 12 = true := by decide +kernel
theorem table_13 : checkFrom 13 = true := by decide +kernel
theorem table_14 : checkFrom 14 = true := by decide +kernel

end CardVerif.C05
