import CardModel.Spec.OmahaTables
/-! # C06 — suit-free Omaha table, module 8 of 15 (compiled evaluation, `native_decide`; 386 board multisets × 1,820 hand multisets)

`tabR_a_blo_bhi`: the table holds on the ascending boards whose lowest value is `a` and whose second value lies in `[blo, bhi]`. -/
namespace CardVerif.OmahaD

/-- 220 boards -/
theorem tabR_4_5_5 : tableRc 4 5 5 = true := by native_decide

/-- 165 boards -/
theorem tabR_2_6_6 : tableRc 2 6 6 = true := by native_decide

/-- 1 boards -/
theorem tabR_14_14_14 : tableRc 14 14 14 = true := by native_decide

end CardVerif.OmahaD
