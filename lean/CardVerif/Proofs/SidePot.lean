import Mathlib.Algebra.Order.Field.Basic
import CardVerif.Proofs.ListLemmas
import CardModel.Spec.SidePot
/-!
# Side pots: the loops of `Pot.settle` against the unit-layer spec (C02)

The state of the loops is determined by a *water level* `L`: every balance is `max 0 (c p - L)` and
every payout is the sum of the shares of the layers `1..L` (`stAt`).  One `stepInc` raises the level
by the increment (`stepInc_stAt`), one tier raises it to at least the largest contribution of the
tier (`stepIncs_go`), and the loop over tiers exits at a level `≥ height c` (`settleTiers_stAt`).
-/
namespace CardVerif.SidePot
open CardVerif CardVerif.Pot

/-! ## contributors and the layer-cake identity -/

theorem contributors_length (c : List Int) (h : Int) :
    (contributors c h).length = c.countP (fun b => decide (h ≤ b)) := by
  unfold contributors
  rw [← List.countP_eq_length_filter]
  conv => rhs; rw [← map_getI_range c, List.countP_map]
  rfl

theorem cake_zero (c : List Int) (L : Nat) :
    sumI (c.map fun b => min (max 0 (b - (L : Int))) ((0 : Nat) : Int)) = 0 := by
  induction c with
  | nil => simp
  | cons b c ih => simp only [List.map_cons, sumI_cons, ih]; omega

theorem cake_step (c : List Int) (L d : Nat) :
    sumI (c.map fun b => min (max 0 (b - (L : Int))) ((d + 1 : Nat) : Int))
      = sumI (c.map fun b => min (max 0 (b - (L : Int))) (d : Int))
        + ((c.countP fun b => decide (((L + 1 + d : Nat) : Int) ≤ b) : Nat) : Int) := by
  induction c with
  | nil => simp
  | cons b c ih =>
    simp only [List.map_cons, sumI_cons, List.countP_cons, ih]
    split
    · rename_i hb
      have hb : ((L + 1 + d : Nat) : Int) ≤ b := by simpa using hb
      omega
    · rename_i hb
      have hb : ¬ ((L + 1 + d : Nat) : Int) ≤ b := by simpa using hb
      omega

/-- layer cake: the layers `L+1 .. L+d` hold `Σ_q min (max 0 (c q - L)) d` chips -/
theorem cake (c : List Int) (L d : Nat) :
    sumQ ((List.range' (L + 1) d).map fun h : Nat => (((contributors c (h : Int)).length : Nat) : Rat))
      = ((sumI (c.map fun b => min (max 0 (b - (L : Int))) (d : Int)) : Int) : Rat) := by
  induction d with
  | zero => rw [cake_zero]; simp
  | succ d ih =>
    rw [List.range'_concat, List.map_append, sumQ_append, ih, cake_step]
    simp [contributors_length]

/-! ## winners, share, height -/

theorem winners_subset (c : List Int) (tiers : List (List Nat)) (h : Int) (p : Nat)
    (hp : p ∈ winners c tiers h) : (∃ t ∈ tiers, p ∈ t) ∧ h ≤ getI c p := by
  unfold winners at hp
  split at hp
  · rename_i t ht
    have := List.mem_filter.1 hp
    exact ⟨⟨t, List.mem_of_find?_eq_some ht, this.1⟩, by simpa using this.2⟩
  · simp at hp

theorem winners_eq_nil (c : List Int) (tiers : List (List Nat)) (h : Int)
    (hh : ∀ p, getI c p < h) : winners c tiers h = [] := by
  apply List.eq_nil_iff_forall_not_mem.2
  intro p hp
  have := (winners_subset c tiers h p hp).2
  have := hh p
  omega

theorem share_nonneg (c : List Int) (tiers : List (List Nat)) (h : Int) (p : Nat) :
    0 ≤ share c tiers h p := by
  unfold share
  simp only
  split
  · apply div_nonneg <;> exact Nat.cast_nonneg _
  · exact le_refl _

theorem share_of_not_mem (c : List Int) (tiers : List (List Nat)) (h : Int) (p : Nat)
    (hp : p ∉ winners c tiers h) : share c tiers h p = 0 := by
  unfold share; simp [hp]

theorem share_le (c : List Int) (tiers : List (List Nat)) (h : Int) (p : Nat) :
    share c tiers h p ≤ if h ≤ getI c p then (((contributors c h).length : Nat) : Rat) else 0 := by
  by_cases hp : p ∈ winners c tiers h
  · have h1 := (winners_subset c tiers h p hp).2
    have hpos : 1 ≤ (winners c tiers h).length := List.length_pos_of_mem hp
    have hpos' : (1 : Rat) ≤ ((winners c tiers h).length : Nat) := by exact_mod_cast hpos
    unfold share
    simp only [hp, h1, if_true]
    apply div_le_self (Nat.cast_nonneg _) hpos'
  · rw [share_of_not_mem c tiers h p hp]
    split
    · exact Nat.cast_nonneg _
    · exact le_refl _

theorem getI_le_height (c : List Int) (p : Nat) : getI c p ≤ (height c : Int) := by
  unfold height
  cases hm : maxI? c with
  | none =>
    cases c with
    | nil => simp [getI]
    | cons x xs => simp [maxI?] at hm
  | some m =>
    have hs := maxI?_spec c m hm
    by_cases hp : p < c.length
    · have := hs.2 _ (getI_mem c p hp)
      simp only; omega
    · rw [getI_of_ge c p (Nat.le_of_not_lt hp)]; simp only; omega

theorem height_le (c : List Int) (L : Nat) (h : ∀ b ∈ c, b ≤ (L : Int)) : height c ≤ L := by
  unfold height
  cases hm : maxI? c with
  | none => simp
  | some m =>
    have := h m (maxI?_spec c m hm).1
    simp only; omega

/-! ## the state at water level `L` -/

/-- what seat `p` has received once the layers `1..L` are paid -/
def payAt (c : List Int) (tiers : List (List Nat)) (L : Nat) (p : Nat) : Rat :=
  sumQ ((List.range' 1 L).map fun h : Nat => share c tiers (h : Int) p)

/-- the state of the loops of `settle` once the layers `1..L` are paid -/
def stAt (c : List Int) (tiers : List (List Nat)) (L : Nat) : St :=
  { bal := c.map fun b => max 0 (b - (L : Int)),
    pay := (List.range c.length).map (payAt c tiers L) }

theorem specPayoutOf_eq (c : List Int) (tiers : List (List Nat)) (p : Nat) :
    specPayoutOf c tiers p = payAt c tiers (height c) p := rfl

theorem payAt_add (c : List Int) (tiers : List (List Nat)) (L d : Nat) (p : Nat) :
    payAt c tiers (L + d) p
      = payAt c tiers L p + sumQ ((List.range' (L + 1) d).map fun h : Nat => share c tiers (h : Int) p) := by
  unfold payAt
  rw [← List.range'_append_1, List.map_append, sumQ_append, Nat.add_comm 1 L]

theorem payAt_of_height_le (c : List Int) (tiers : List (List Nat)) (L : Nat) (hL : height c ≤ L)
    (p : Nat) : payAt c tiers L p = payAt c tiers (height c) p := by
  obtain ⟨d, rfl⟩ := Nat.exists_eq_add_of_le hL
  rw [payAt_add, sumQ_map_zero, add_zero]
  intro h hh
  have hh := List.mem_range'_1.1 hh
  apply share_of_not_mem
  rw [winners_eq_nil]
  · simp
  · intro q
    have := getI_le_height c q
    omega

theorem getI_stAt (c : List Int) (tiers : List (List Nat)) (L : Nat) (w : Nat) :
    getI (stAt c tiers L).bal w = max 0 (getI c w - (L : Int)) := by
  unfold stAt
  simp only
  rw [getI_map c (fun b => max 0 (b - (L : Int))) (by show max 0 (0 - (L : Int)) = 0; omega) w]

/-- in the slab `(L, L+d]` the winners of every layer are the choppers of the step -/
theorem winners_slab (c : List Int) (tiers pre rest : List (List Nat)) (T : List Nat) (L d : Nat)
    (htiers : tiers = pre ++ T :: rest)
    (hpre : ∀ t ∈ pre, ∀ w ∈ t, getI c w ≤ (L : Int))
    (hchop : ∃ w ∈ T, (d : Int) ≤ max 0 (getI c w - (L : Int)))
    (hgap : ∀ w ∈ T, ¬ ((L : Int) < getI c w ∧ getI c w < (L : Int) + d))
    (h : Nat) (hh : h ∈ List.range' (L + 1) d) :
    winners c tiers (h : Int) = T.filter fun w => decide ((d : Int) ≤ max 0 (getI c w - (L : Int))) := by
  have hh := List.mem_range'_1.1 hh
  unfold winners
  have h1 : pre.find? (fun t => t.any fun p => decide ((h : Int) ≤ getI c p)) = none := by
    apply List.find?_eq_none.2
    intro t ht
    simp only [List.any_eq_true, decide_eq_true_eq, not_exists, not_and]
    intro w hw
    have := hpre t ht w hw
    omega
  have h2 : (T.any fun p => decide ((h : Int) ≤ getI c p)) = true := by
    obtain ⟨w, hw, hle⟩ := hchop
    simp only [List.any_eq_true, decide_eq_true_eq]
    exact ⟨w, hw, by omega⟩
  rw [htiers, List.find?_append, h1, Option.none_or]
  simp only [List.find?_cons, h2]
  apply List.filter_congr
  intro w hw
  have := hgap w hw
  rw [decide_eq_decide]
  omega

/-- one increment raises the water level by the increment -/
theorem stepInc_stAt (c : List Int) (tiers pre rest : List (List Nat)) (T : List Nat) (L d : Nat)
    (hn : c.length ≠ 0) (htiers : tiers = pre ++ T :: rest)
    (hpre : ∀ t ∈ pre, ∀ w ∈ t, getI c w ≤ (L : Int)) (hT : T.Nodup)
    (hchop : ∃ w ∈ T, (d : Int) ≤ max 0 (getI c w - (L : Int)))
    (hgap : ∀ w ∈ T, ¬ ((L : Int) < getI c w ∧ getI c w < (L : Int) + d)) :
    stepInc T (stAt c tiers L) (d : Int) = .ok (stAt c tiers (L + d)) := by
  have hfilter : (T.filter fun w => decide ((d : Int) ≤ getI (stAt c tiers L).bal w))
      = T.filter fun w => decide ((d : Int) ≤ max 0 (getI c w - (L : Int))) := by
    apply List.filter_congr
    intro w _
    rw [getI_stAt]
  unfold stepInc
  simp only
  rw [hfilter]
  generalize hchopdef : (T.filter fun w => decide ((d : Int) ≤ max 0 (getI c w - (L : Int)))) = chop
  have hchop_ne : chop.length ≠ 0 := by
    obtain ⟨w, hw, hle⟩ := hchop
    have : w ∈ chop := by rw [← hchopdef]; exact List.mem_filter.2 ⟨hw, by simpa using hle⟩
    have := List.length_pos_of_mem this
    omega
  have hk : ((chop.length : Nat) : Rat) ≠ 0 := by exact_mod_cast hchop_ne
  have hchop_nd : chop.Nodup := by rw [← hchopdef]; exact List.filter_sublist.nodup hT
  have hlen : ¬ (stAt c tiers L).bal.length = 0 := by simpa [stAt] using hn
  rw [if_neg hlen, if_neg hchop_ne]
  have hmpw : sumQ ((stAt c tiers L).bal.map fun b => ((min b (d : Int) : Int) : Rat) / ((chop.length : Nat) : Rat))
      = sumQ ((List.range' (L + 1) d).map fun h : Nat => (((contributors c (h : Int)).length : Nat) : Rat))
          / ((chop.length : Nat) : Rat) := by
    rw [sumQ_div, cake]
    simp only [stAt, List.map_map]
    rfl
  rw [hmpw]
  simp only [Except.ok.injEq]
  have hbal : ((stAt c tiers L).bal.map fun b => max 0 (b - (d : Int))) = (stAt c tiers (L + d)).bal := by
    simp only [stAt, List.map_map]
    apply List.map_congr_left
    intro b _
    simp only [Function.comp]
    omega
  have hpay : chop.foldl (fun pay w => pay.modify w (· +
        sumQ ((List.range' (L + 1) d).map fun h : Nat => (((contributors c (h : Int)).length : Nat) : Rat))
          / ((chop.length : Nat) : Rat))) (stAt c tiers L).pay = (stAt c tiers (L + d)).pay := by
    apply List.ext_getElem?
    intro i
    rw [getElem?_foldl_modify chop hchop_nd]
    simp only [stAt, List.getElem?_map]
    by_cases hi : i < c.length
    · rw [List.getElem?_range hi]
      simp only [Option.map_some, Option.some.injEq]
      rw [payAt_add]
      have hcongr : ((List.range' (L + 1) d).map fun h : Nat => share c tiers (h : Int) i)
          = (List.range' (L + 1) d).map fun h : Nat =>
              if i ∈ chop then (((contributors c (h : Int)).length : Nat) : Rat) / ((chop.length : Nat) : Rat)
              else 0 := by
        apply List.map_congr_left
        intro h hh
        unfold share
        simp only
        rw [winners_slab c tiers pre rest T L d htiers hpre hchop hgap h hh, hchopdef]
      rw [hcongr]
      by_cases hic : i ∈ chop
      · simp only [hic, if_true]
        rw [sumQ_map_div]
      · simp only [hic, if_false]
        rw [sumQ_map_zero _ _ (fun _ _ => rfl), add_zero]
    · rw [List.getElem?_eq_none (by simpa using Nat.le_of_not_lt hi)]
      rfl
  rw [hbal, hpay]

/-- the increments of one tier raise the water level above every member of the tier -/
theorem stepIncs_go (c : List Int) (tiers pre rest : List (List Nat)) (T : List Nat) (L0 : Nat)
    (hn : c.length ≠ 0) (htiers : tiers = pre ++ T :: rest)
    (hpre : ∀ t ∈ pre, ∀ w ∈ t, getI c w ≤ (L0 : Int)) (hT : T.Nodup)
    (ys : List Int) (prev : Int) (hprev : 0 ≤ prev)
    (hsorted : (prev :: ys).Pairwise (· ≤ ·))
    (H2 : ∀ y ∈ ys, ∃ w ∈ T, max 0 (getI c w - (L0 : Int)) = y)
    (H3 : ∀ w ∈ T, max 0 (getI c w - (L0 : Int)) ≤ prev ∨ max 0 (getI c w - (L0 : Int)) ∈ ys) :
    ∃ L1 : Nat, L0 + prev.toNat ≤ L1 ∧ (∀ w ∈ T, getI c w ≤ (L1 : Int)) ∧
      stepIncs T (stAt c tiers (L0 + prev.toNat)) (invCumsum.go prev ys) = .ok (stAt c tiers L1) := by
  induction ys generalizing prev with
  | nil =>
    refine ⟨L0 + prev.toNat, Nat.le_refl _, ?_, by simp [invCumsum.go, stepIncs]⟩
    intro w hw
    rcases H3 w hw with h | h
    · omega
    · simp at h
  | cons y ys ih =>
    rw [List.pairwise_cons] at hsorted
    have hpy : prev ≤ y := hsorted.1 y (by simp)
    have hy : 0 ≤ y := by omega
    have hsorted' := hsorted.2
    have hdy : y - prev = ((y.toNat - prev.toNat : Nat) : Int) := by omega
    have hL : L0 + prev.toNat + (y.toNat - prev.toNat) = L0 + y.toNat := by omega
    have hstep : stepInc T (stAt c tiers (L0 + prev.toNat)) (y - prev)
        = .ok (stAt c tiers (L0 + y.toNat)) := by
      rw [hdy, ← hL]
      apply stepInc_stAt c tiers pre rest T _ _ hn htiers _ hT
      · obtain ⟨w, hw, hwy⟩ := H2 y (by simp)
        exact ⟨w, hw, by omega⟩
      · intro w hw
        rcases H3 w hw with h | h
        · omega
        · have hyw : y ≤ max 0 (getI c w - (L0 : Int)) := by
            rcases List.mem_cons.1 h with h | h
            · omega
            · exact (List.pairwise_cons.1 hsorted').1 _ h
          omega
      · intro t ht w hw
        have := hpre t ht w hw
        omega
    obtain ⟨L1, hL1, hall, hrest⟩ := ih y hy hsorted'
      (fun z hz => H2 z (by simp [hz]))
      (fun w hw => by
        rcases H3 w hw with h | h
        · left; omega
        · rcases List.mem_cons.1 h with h | h
          · left; omega
          · right; exact h)
    refine ⟨L1, by omega, hall, ?_⟩
    simp only [invCumsum.go, stepIncs, hstep]
    exact hrest

theorem tier_stAt (c : List Int) (tiers pre rest : List (List Nat)) (T : List Nat) (L0 : Nat)
    (hn : c.length ≠ 0) (htiers : tiers = pre ++ T :: rest)
    (hpre : ∀ t ∈ pre, ∀ w ∈ t, getI c w ≤ (L0 : Int)) (hT : T.Nodup) :
    ∃ L1 : Nat, L0 ≤ L1 ∧ (∀ w ∈ T, getI c w ≤ (L1 : Int)) ∧
      stepIncs T (stAt c tiers L0) (invCumsum (sortI (T.map (getI (stAt c tiers L0).bal))))
        = .ok (stAt c tiers L1) := by
  have hmap : T.map (getI (stAt c tiers L0).bal) = T.map fun w => max 0 (getI c w - (L0 : Int)) :=
    List.map_congr_left fun w _ => getI_stAt c tiers L0 w
  rw [hmap, invCumsum_eq_go]
  have hmem : ∀ y, y ∈ sortI (T.map fun w => max 0 (getI c w - (L0 : Int)))
      ↔ ∃ w ∈ T, max 0 (getI c w - (L0 : Int)) = y := by
    intro y; rw [mem_sortI, List.mem_map]
  have := stepIncs_go c tiers pre rest T L0 hn htiers hpre hT
    (sortI (T.map fun w => max 0 (getI c w - (L0 : Int)))) 0 (Int.le_refl 0)
    (by
      rw [List.pairwise_cons]
      refine ⟨?_, pairwise_sortI _⟩
      intro a ha
      obtain ⟨w, _, rfl⟩ := (hmem a).1 ha
      omega)
    (fun y hy => (hmem y).1 hy)
    (fun w hw => Or.inr ((hmem _).2 ⟨w, hw, rfl⟩))
  simpa using this

theorem sumI_stAt_eq_zero_iff (c : List Int) (tiers : List (List Nat)) (L : Nat) :
    sumI (stAt c tiers L).bal = 0 ↔ ∀ b ∈ c, b ≤ (L : Int) := by
  rw [sumI_eq_zero_iff]
  · simp only [stAt, List.mem_map, forall_exists_index, and_imp, forall_apply_eq_imp_iff₂]
    constructor
    · intro h b hb; have := h b hb; omega
    · intro h b hb; have := h b hb; omega
  · simp only [stAt, List.mem_map, forall_exists_index, and_imp, forall_apply_eq_imp_iff₂]
    intro b _; omega

/-- the loop over tiers exits at a level above every contribution -/
theorem settleTiers_stAt (c : List Int) (tiers : List (List Nat)) (hn : c.length ≠ 0)
    (hnd : ∀ t ∈ tiers, t.Nodup) (rest pre : List (List Nat)) (L0 : Nat)
    (htiers : tiers = pre ++ rest)
    (hpre : ∀ t ∈ pre, ∀ w ∈ t, getI c w ≤ (L0 : Int))
    (hmax : ∃ p ∈ rest.flatten, ∀ q, q < c.length → getI c q ≤ getI c p) :
    ∃ L : Nat, height c ≤ L ∧ settleTiers (stAt c tiers L0) rest = .ok (stAt c tiers L) := by
  induction rest generalizing pre L0 with
  | nil => obtain ⟨p, hp, _⟩ := hmax; simp at hp
  | cons T rest ih =>
    have hTmem : T ∈ tiers := by rw [htiers]; simp
    obtain ⟨L1, hL1, hall, hstep⟩ := tier_stAt c tiers pre rest T L0 hn htiers hpre (hnd T hTmem)
    simp only [settleTiers, hstep, bind, Except.bind]
    by_cases hz : sumI (stAt c tiers L1).bal = 0
    · rw [if_pos hz]
      exact ⟨L1, height_le c L1 ((sumI_stAt_eq_zero_iff c tiers L1).1 hz), rfl⟩
    · rw [if_neg hz]
      apply ih (pre ++ [T]) L1 (by rw [htiers]; simp)
      · intro t ht w hw
        rcases List.mem_append.1 ht with ht | ht
        · have := hpre t ht w hw; omega
        · have : t = T := by simpa using ht
          subst this; exact hall w hw
      · obtain ⟨p, hp, hpmax⟩ := hmax
        rw [List.flatten_cons, List.mem_append] at hp
        rcases hp with hp | hp
        · exfalso
          apply hz
          rw [sumI_stAt_eq_zero_iff]
          intro b hb
          obtain ⟨i, hi, rfl⟩ := List.getElem_of_mem hb
          have h1 := hpmax i hi
          rw [getI_of_lt c i hi] at h1
          have h2 := hall p hp
          omega
        · exact ⟨p, hp, hpmax⟩

theorem stAt_zero (c : List Int) (tiers : List (List Nat)) (hc : ∀ b ∈ c, 0 ≤ b) :
    stAt c tiers 0 = { bal := c, pay := c.map fun _ => 0 } := by
  unfold stAt
  congr 1
  · conv => rhs; rw [← List.map_id c]
    apply List.map_congr_left
    intro b hb
    have := hc b hb
    simp only [id]; omega
  · apply List.ext_getElem?
    intro i
    simp only [List.getElem?_map]
    by_cases hi : i < c.length
    · rw [List.getElem?_range hi, List.getElem?_eq_getElem hi]; simp [payAt]
    · rw [List.getElem?_eq_none (Nat.le_of_not_lt hi),
        List.getElem?_eq_none (by simpa using Nat.le_of_not_lt hi)]; rfl

theorem settle_eq_specPayout (c : List Int) (tiers : List (List Nat))
    (hc : ∀ b ∈ c, 0 ≤ b) (hr : RankingOK c tiers) :
    settle c tiers = .ok (specPayout c tiers) := by
  obtain ⟨hrange, hnd, p, hp, hpmax⟩ := hr
  have hn : c.length ≠ 0 := by
    obtain ⟨t, ht, hpt⟩ := List.mem_flatten.1 hp
    have := hrange t ht p hpt
    omega
  have hnd' : ∀ t ∈ tiers, t.Nodup := fun t ht => (List.sublist_flatten_of_mem ht).nodup hnd
  obtain ⟨L, hL, hsettle⟩ := settleTiers_stAt c tiers hn hnd' tiers [] 0 (by simp)
    (by simp) ⟨p, hp, hpmax⟩
  rw [stAt_zero c tiers hc] at hsettle
  unfold settle
  have hchk : (tiers.all fun t => t.all fun w => decide (w < c.length)) = true := by
    simp only [List.all_eq_true, decide_eq_true_eq]
    exact hrange
  simp only [hchk, Bool.not_true, Bool.false_eq_true, if_false, bind, Except.bind, hsettle]
  simp only [stAt, specPayout]
  congr 1
  apply List.map_congr_left
  intro q _
  rw [specPayoutOf_eq, payAt_of_height_le c tiers L hL q]

/-! ## properties of the spec alone -/

theorem specPayoutOf_folded (c : List Int) (tiers : List (List Nat)) (p : Nat)
    (hp : p ∉ tiers.flatten) : specPayoutOf c tiers p = 0 := by
  unfold specPayoutOf
  apply sumQ_map_zero
  intro h _
  apply share_of_not_mem
  intro hw
  obtain ⟨⟨t, ht, hpt⟩, _⟩ := winners_subset c tiers _ p hw
  exact hp (List.mem_flatten.2 ⟨t, ht, hpt⟩)

theorem specPayoutOf_le_matched (c : List Int) (tiers : List (List Nat)) (hc : ∀ b ∈ c, 0 ≤ b)
    (p : Nat) :
    specPayoutOf c tiers p ≤ ((sumI (c.map fun b => min b (getI c p)) : Int) : Rat) := by
  have hp0 : 0 ≤ getI c p := getI_nonneg c hc p
  have hpH := getI_le_height c p
  obtain ⟨e, he⟩ := Nat.exists_eq_add_of_le (show (getI c p).toNat ≤ height c by omega)
  have h1 : specPayoutOf c tiers p ≤ sumQ ((List.range' 1 (height c)).map fun h : Nat =>
      if (h : Int) ≤ getI c p then (((contributors c (h : Int)).length : Nat) : Rat) else 0) :=
    sumQ_map_le _ _ _ fun h _ => share_le c tiers (h : Int) p
  refine le_trans h1 (le_of_eq ?_)
  rw [he, ← List.range'_append_1, List.map_append, sumQ_append]
  have h2 : sumQ ((List.range' (1 + (getI c p).toNat) e).map fun h : Nat =>
      if (h : Int) ≤ getI c p then (((contributors c (h : Int)).length : Nat) : Rat) else 0) = 0 := by
    apply sumQ_map_zero
    intro h hh
    have := List.mem_range'_1.1 hh
    rw [if_neg (by omega)]
  have h3 : ((List.range' 1 (getI c p).toNat).map fun h : Nat =>
      if (h : Int) ≤ getI c p then (((contributors c (h : Int)).length : Nat) : Rat) else 0)
      = (List.range' (0 + 1) (getI c p).toNat).map fun h : Nat =>
          (((contributors c (h : Int)).length : Nat) : Rat) := by
    apply List.map_congr_left
    intro h hh
    have := List.mem_range'_1.1 hh
    rw [if_pos (by omega)]
  rw [h2, h3, cake, add_zero]
  congr 2
  apply List.map_congr_left
  intro b hb
  have := hc b hb
  omega

theorem filter_unique (l : List Nat) (P : Nat → Bool) (p : Nat) (hnd : l.Nodup) (hp : p ∈ l)
    (hP : ∀ q ∈ l, P q = true ↔ q = p) : l.filter P = [p] := by
  induction l with
  | nil => simp at hp
  | cons x l ih =>
    rw [List.nodup_cons] at hnd
    by_cases hx : x = p
    · subst hx
      have hPx : P x = true := (hP x (by simp)).2 rfl
      rw [List.filter_cons_of_pos hPx]
      congr 1
      apply List.filter_eq_nil_iff.2
      intro q hq hPq
      have := (hP q (by simp [hq])).1 hPq
      subst this
      exact hnd.1 hq
    · have hPx : ¬ P x = true := fun h => hx ((hP x (by simp)).1 h)
      rw [List.filter_cons_of_neg hPx]
      apply ih hnd.2
      · rcases List.mem_cons.1 hp with h | h
        · exact absurd h.symm hx
        · exact h
      · intro q hq; exact hP q (by simp [hq])

/-- a layer that only the contender `p` reaches goes to `p` in full -/
theorem share_alone (c : List Int) (tiers : List (List Nat)) (hr : RankingOK c tiers)
    (p : Nat) (hp : p ∈ tiers.flatten) (h : Int) (hh : h ≤ getI c p)
    (hothers : ∀ q, q < c.length → q ≠ p → getI c q < h) : share c tiers h p = 1 := by
  obtain ⟨hrange, hnd, _⟩ := hr
  obtain ⟨t0, ht0, hpt0⟩ := List.mem_flatten.1 hp
  have hpn : p < c.length := hrange t0 ht0 p hpt0
  have hcontrib : contributors c h = [p] := by
    unfold contributors
    apply filter_unique _ _ p List.nodup_range (by simpa using hpn)
    intro q hq
    have hq : q < c.length := by simpa using hq
    simp only [decide_eq_true_eq]
    constructor
    · intro hle
      by_contra hne
      have := hothers q hq hne
      omega
    · rintro rfl; exact hh
  have hwin : winners c tiers h = [p] := by
    unfold winners
    cases hf : tiers.find? (fun t => t.any fun p => decide (h ≤ getI c p)) with
    | none =>
      exfalso
      have := List.find?_eq_none.1 hf t0 ht0
      apply this
      simp only [List.any_eq_true, decide_eq_true_eq]
      exact ⟨p, hpt0, hh⟩
    | some t =>
      simp only
      have ht : t ∈ tiers := List.mem_of_find?_eq_some hf
      have hany := List.find?_some hf
      simp only [List.any_eq_true, decide_eq_true_eq] at hany
      obtain ⟨w, hwt, hw⟩ := hany
      have hwp : w = p := by
        by_contra hne
        have := hothers w (hrange t ht w hwt) hne
        omega
      subst hwp
      apply filter_unique _ _ w ((List.sublist_flatten_of_mem ht).nodup hnd) hwt
      intro q hq
      simp only [decide_eq_true_eq]
      constructor
      · intro hle
        by_contra hne
        have := hothers q (hrange t ht q hq) hne
        omega
      · rintro rfl; exact hh
  unfold share
  simp [hwin, hcontrib]

theorem specPayoutOf_unmatched (c : List Int) (tiers : List (List Nat))
    (hr : RankingOK c tiers) (p : Nat) (hp : p ∈ tiers.flatten) (m : Int)
    (hm : ∀ q, q < c.length → q ≠ p → getI c q ≤ m) (hpm : m ≤ getI c p) (hm0 : 0 ≤ m) :
    ((getI c p - m : Int) : Rat) ≤ specPayoutOf c tiers p := by
  have hpH := getI_le_height c p
  obtain ⟨e, he⟩ := Nat.exists_eq_add_of_le
    (show m.toNat + (getI c p - m).toNat ≤ height c by omega)
  rw [specPayoutOf_eq, he, payAt_add, payAt_add]
  have h1 : 0 ≤ payAt c tiers m.toNat p :=
    sumQ_map_nonneg _ _ fun h _ => share_nonneg c tiers _ p
  have h2 : 0 ≤ sumQ ((List.range' (m.toNat + (getI c p - m).toNat + 1) e).map
      fun h : Nat => share c tiers (h : Int) p) :=
    sumQ_map_nonneg _ _ fun h _ => share_nonneg c tiers _ p
  have h3 : sumQ ((List.range' (m.toNat + 1) (getI c p - m).toNat).map
      fun h : Nat => share c tiers (h : Int) p) = ((getI c p - m : Int) : Rat) := by
    have : ((List.range' (m.toNat + 1) (getI c p - m).toNat).map
        fun h : Nat => share c tiers (h : Int) p)
        = (List.range' (m.toNat + 1) (getI c p - m).toNat).map fun _ => (1 : Rat) := by
      apply List.map_congr_left
      intro h hh
      have := List.mem_range'_1.1 hh
      apply share_alone c tiers hr p hp
      · omega
      · intro q hq hne
        have := hm q hq hne
        omega
    rw [this, sumQ_map_const, List.length_range', mul_one]
    have : (((getI c p - m).toNat : Nat) : Int) = getI c p - m := by omega
    have hcast : ((((getI c p - m).toNat : Nat) : Int) : Rat) = ((getI c p - m : Int) : Rat) := by
      rw [this]
    rw [← hcast, Int.cast_natCast]
  linarith

end CardVerif.SidePot
