import CardModel.Spec.OmahaTables
/-! # C06 — suit-free Omaha table, module 11 of 15 (compiled evaluation, `native_decide`; 390 board multisets × 1,820 hand multisets)

`tabR_a_blo_bhi`: the table holds on the ascending boards whose lowest value is `a` and whose second value lies in `[blo, bhi]`. -/
namespace CardVerif.OmahaD

/-- 210 boards -/
theorem tabR_8_8_14 : tableRc 8 8 14 = true := by native_decide

/-- 165 boards -/
theorem tabR_4_6_6 : tableRc 4 6 6 = true := by native_decide

/-- 15 boards -/
theorem tabR_12_12_14 : tableRc 12 12 14 = true := by native_decide

end CardVerif.OmahaD
