import CardModel.Spec.Legality
import CardVerif.Props.C02
import CardVerif.Props.C14
/-!
# Invariants of the betting engine (C01; reused by C03, C04, C13)

A library of facts about `CardVerif/Model/Betting.lean`:

* §1 generic: `Except` binds, `foldlM` invariants, `sumI` / `sumQ` / `getI` under `List.modify`, `addQ`;
* §2 frames: which fields each engine function leaves alone (`SameCfg`, `SameMoney`, `SameTable`), stated as
  explicit record equations where possible;
* §3 `appendAction`: an explicit description of an accepted action (`appendAction_spec`);
* §4 `advanceAction`: `moveAction`, `moveStreet`, the `streets` loop, completion (`advanceAction_spec`);
* §5 settlement: sums / signs / lengths of `Pot.settleShowdown` and `getPayoutsAndRake`;
* §6 the constructor: `construct_frame` (any configuration) and `construct_total` (valid configurations);
* §7 the invariant `Inv cfg s` of reachable states (`reachable_inv`) and its consequences.
-/
namespace CardVerif.Betting
open CardVerif

/-! ## §1 generic lemmas -/

theorem bind_ok {ε α β : Type} {x : Except ε α} {f : α → Except ε β} {b : β} :
    (x >>= f) = .ok b ↔ ∃ a, x = .ok a ∧ f a = .ok b := by
  cases x with
  | error e => simp [bind, Except.bind]
  | ok a => simp [bind, Except.bind]

theorem ite_error_ok {ε α : Type} {c : Prop} [Decidable c] {e : ε} {x : Except ε α} {b : α} :
    (if c then .error e else x) = .ok b ↔ ¬ c ∧ x = .ok b := by
  by_cases h : c <;> simp [h]

/-- an invariant preserved by every successful step is preserved by a successful `foldlM` -/
theorem foldlM_preserves {ε α β : Type} (P : β → Prop) (f : β → α → Except ε β) (l : List α) :
    ∀ (b b' : β), (∀ b a b1, a ∈ l → P b → f b a = .ok b1 → P b1) → P b → l.foldlM f b = .ok b' → P b' := by
  induction l with
  | nil => intro b b' _ hb h; simp only [List.foldlM_nil, pure, Except.pure, Except.ok.injEq] at h; exact h ▸ hb
  | cons a l ih =>
    intro b b' hf hb h
    rw [List.foldlM_cons, bind_ok] at h
    obtain ⟨b1, h1, h2⟩ := h
    exact ih b1 b' (fun b a b1 ha => hf b a b1 (by simp [ha])) (hf b a b1 (by simp) hb h1) h2

/-- if every step succeeds on states satisfying the invariant, and preserves it, so does `foldlM` -/
theorem foldlM_total {ε α β : Type} (P : β → Prop) (f : β → α → Except ε β) (l : List α) :
    ∀ (b : β), (∀ b a, a ∈ l → P b → ∃ b1, f b a = .ok b1 ∧ P b1) → P b → ∃ b', l.foldlM f b = .ok b' ∧ P b' := by
  induction l with
  | nil => intro b _ hb; exact ⟨b, rfl, hb⟩
  | cons a l ih =>
    intro b hf hb
    obtain ⟨b1, h1, hb1⟩ := hf b a (by simp) hb
    obtain ⟨b', h2, hb'⟩ := ih b1 (fun b a ha => hf b a (by simp [ha])) hb1
    exact ⟨b', by rw [List.foldlM_cons, bind_ok]; exact ⟨b1, h1, h2⟩, hb'⟩

/-! ### `sumI`, `getI`, `List.modify` -/

theorem sumI_append (l₁ l₂ : List Int) : sumI (l₁ ++ l₂) = sumI l₁ + sumI l₂ := by
  induction l₁ with
  | nil => simp
  | cons x l ih => simp only [List.cons_append, sumI_cons, ih]; omega

theorem sumI_map_const_zero {α : Type} (l : List α) : sumI (l.map fun _ => (0 : Int)) = 0 := by
  induction l with
  | nil => rfl
  | cons x l ih => simp only [List.map_cons, sumI_cons, ih]; rfl

theorem sumI_modify_gen (l : List Int) (i : Nat) (f : Int → Int) (h : i < l.length) :
    sumI (l.modify i f) = sumI l + (f (getI l i) - getI l i) := by
  induction l generalizing i with
  | nil => simp at h
  | cons x l ih => cases i with
    | zero => simp only [List.modify_zero_cons, sumI_cons, getI, List.getElem?_cons_zero]; omega
    | succ i =>
      have := ih i (by simpa using h)
      simp only [List.modify_succ_cons, sumI_cons, this]
      have : getI (x :: l) (i + 1) = getI l i := by simp [getI]
      rw [this]; omega

theorem sumI_modify_add (l : List Int) (i : Nat) (x : Int) (h : i < l.length) :
    sumI (l.modify i (· + x)) = sumI l + x := by
  rw [sumI_modify_gen l i _ h]; omega

theorem sumI_modify_sub (l : List Int) (i : Nat) (x : Int) (h : i < l.length) :
    sumI (l.modify i (· - x)) = sumI l - x := by
  rw [sumI_modify_gen l i _ h]; omega

theorem modify_of_ge {α : Type} (l : List α) (i : Nat) (f : α → α) (h : l.length ≤ i) : l.modify i f = l := by
  apply List.ext_getElem?
  intro j
  rw [List.getElem?_modify]
  by_cases hj : j < l.length
  · have : i ≠ j := by omega
    simp [this]
  · rw [List.getElem?_eq_none (by omega)]; rfl

theorem modify_sub_zero (l : List Int) (i : Nat) : l.modify i (· - 0) = l := by
  apply List.ext_getElem?
  intro j
  rw [List.getElem?_modify]
  cases l[j]? <;> simp

theorem modify_add_zero (l : List Int) (i : Nat) : l.modify i (· + 0) = l := by
  apply List.ext_getElem?
  intro j
  rw [List.getElem?_modify]
  cases l[j]? <;> simp

theorem getI_modify (l : List Int) (i j : Nat) (f : Int → Int) :
    getI (l.modify i f) j = if i = j ∧ j < l.length then f (getI l j) else getI l j := by
  unfold getI
  rw [List.getElem?_modify]
  by_cases hj : j < l.length
  · rw [List.getElem?_eq_getElem hj]
    by_cases hij : i = j <;> simp [hij, hj]
  · rw [List.getElem?_eq_none (by omega)]; simp [hj]

/-- an element of `l.modify i f` is an old element or the modified one -/
theorem mem_modify {l : List Int} {i : Nat} {f : Int → Int} {b : Int} (h : b ∈ l.modify i f) :
    b ∈ l ∨ (i < l.length ∧ b = f (getI l i)) := by
  obtain ⟨j, hj, rfl⟩ := List.getElem_of_mem h
  have hj' : j < l.length := by simpa using hj
  have h1 : getI (l.modify i f) j = (l.modify i f)[j] := getI_of_lt _ _ hj
  rw [← h1, getI_modify]
  by_cases hij : i = j
  · subst hij; right; simp [hj']
  · left; simp only [hij, false_and, if_false]; exact getI_mem l j hj'

theorem modify_nonneg (l : List Int) (i : Nat) (f : Int → Int) (hl : ∀ b ∈ l, 0 ≤ b)
    (hf : i < l.length → 0 ≤ f (getI l i)) : ∀ b ∈ l.modify i f, 0 ≤ b := by
  intro b hb
  rcases mem_modify hb with h | ⟨hi, rfl⟩
  · exact hl b h
  · exact hf hi

theorem modify_add_nonneg (l : List Int) (i : Nat) (x : Int) (hl : ∀ b ∈ l, 0 ≤ b) (hx : 0 ≤ x) :
    ∀ b ∈ l.modify i (· + x), 0 ≤ b :=
  modify_nonneg l i _ hl fun _ => by have := getI_nonneg l hl i; show 0 ≤ getI l i + x; omega

theorem modify_sub_nonneg (l : List Int) (i : Nat) (x : Int) (hl : ∀ b ∈ l, 0 ≤ b) (hx : x ≤ getI l i) :
    ∀ b ∈ l.modify i (· - x), 0 ≤ b :=
  modify_nonneg l i _ hl fun _ => by show 0 ≤ getI l i - x; omega

/-- `Σ_p l[p]` over the seats is the sum of the list -/
theorem sumI_map_getI_range (l : List Int) : sumI ((List.range l.length).map (getI l)) = sumI l := by
  rw [map_getI_range]

theorem sumQ_map_getD_range (l : List Rat) :
    sumQ ((List.range l.length).map fun p => (l[p]?).getD 0) = sumQ l := by
  have : (List.range l.length).map (fun p => (l[p]?).getD 0) = l := by
    apply List.ext_getElem?
    intro i
    rw [List.getElem?_map]
    by_cases h : i < l.length
    · rw [List.getElem?_range h, List.getElem?_eq_getElem h]; simp [List.getElem?_eq_getElem h]
    · rw [List.getElem?_eq_none (Nat.le_of_not_lt h), List.getElem?_eq_none (by simpa using h)]; rfl
  rw [this]

theorem sumQ_map_add {α : Type} (l : List α) (f g : α → Rat) :
    sumQ (l.map fun a => f a + g a) = sumQ (l.map f) + sumQ (l.map g) := by
  induction l with
  | nil => simp
  | cons x l ih => simp only [List.map_cons, sumQ_cons, ih]; ring

theorem sumQ_map_intCast (l : List Int) : sumQ (l.map fun (r : Int) => (r : Rat)) = ((sumI l : Int) : Rat) := by
  induction l with
  | nil => simp
  | cons x l ih => simp only [List.map_cons, sumQ_cons, sumI_cons, ih, Int.cast_add]

theorem sumQ_map_intCast_comp {α : Type} (l : List α) (f : α → Int) :
    sumQ (l.map fun a => ((f a : Int) : Rat)) = ((sumI (l.map f) : Int) : Rat) := by
  induction l with
  | nil => simp
  | cons x l ih => simp only [List.map_cons, sumQ_cons, sumI_cons, ih, Int.cast_add]

theorem sumI_map_sub {α : Type} (l : List α) (f g : α → Int) :
    sumI (l.map fun a => f a - g a) = sumI (l.map f) - sumI (l.map g) := by
  induction l with
  | nil => simp
  | cons x l ih => simp only [List.map_cons, sumI_cons, ih]; omega

theorem sumQ_map_div_const (l : List Rat) (k : Rat) : sumQ (l.map (· / k)) = sumQ l / k := by
  induction l with
  | nil => simp
  | cons b l ih => simp only [List.map_cons, sumQ_cons, ih]; ring

/-- `Σ (bᵢ - rᵢ) = Σ bᵢ - Σ rᵢ` for lists of the same length -/
theorem sumI_zip_sub (b r : List Int) (h : b.length = r.length) :
    sumI ((b.zip r).map fun (x, y) => x - y) = sumI b - sumI r := by
  induction b generalizing r with
  | nil => cases r with
    | nil => simp
    | cons y r => simp at h
  | cons x b ih => cases r with
    | nil => simp at h
    | cons y r =>
      have := ih r (by simpa using h)
      simp only [List.zip_cons_cons, List.map_cons, sumI_cons, this]; omega

theorem getI_zip_sub (b r : List Int) (h : b.length = r.length) (p : Nat) :
    getI ((b.zip r).map fun (x, y) => x - y) p = getI b p - getI r p := by
  induction b generalizing r p with
  | nil => cases r with
    | nil => simp [getI]
    | cons y r => simp at h
  | cons x b ih => cases r with
    | nil => simp at h
    | cons y r => cases p with
      | zero => simp [getI]
      | succ p =>
        have := ih r (by simpa using h) p
        simpa [getI] using this

/-! ### `addQ` -/

theorem length_addQ (a b : List Rat) (h : a.length = b.length) : (addQ a b).length = a.length := by
  simp [addQ, h]

theorem sumQ_addQ (a b : List Rat) (h : a.length = b.length) : sumQ (addQ a b) = sumQ a + sumQ b := by
  induction a generalizing b with
  | nil => cases b with
    | nil => simp [addQ]
    | cons y b => simp at h
  | cons x a ih => cases b with
    | nil => simp at h
    | cons y b =>
      have := ih b (by simpa using h)
      simp only [addQ, List.zip_cons_cons, List.map_cons, sumQ_cons] at this ⊢
      rw [this]; ring

theorem addQ_nonneg (a b : List Rat) (ha : ∀ x ∈ a, 0 ≤ x) (hb : ∀ x ∈ b, 0 ≤ x) : ∀ x ∈ addQ a b, 0 ≤ x := by
  intro x hx
  simp only [addQ, List.mem_map, Prod.exists] at hx
  obtain ⟨u, v, huv, rfl⟩ := hx
  have := List.of_mem_zip huv
  exact add_nonneg (ha u this.1) (hb v this.2)

/-! ## §2 frames -/

/-- the constructor arguments stored in the state: no engine function ever changes them -/
structure SameCfg (s s' : State) : Prop where
  n : s'.n = s.n
  game : s'.game = s.game
  hands : s'.hands = s.hands
  startingStacks : s'.startingStacks = s.startingStacks
  ante : s'.ante = s.ante
  blinds : s'.blinds = s.blinds
  runouts : s'.runouts = s.runouts
  rake : s'.rake = s.rake
  sampler : s'.sampler = s.sampler

/-- chips and log untouched (`advanceAction`) -/
structure SameMoney (s s' : State) : Prop where
  «stacks» : s'.stacks = s.stacks
  pot : s'.pot = s.pot
  log : s'.log = s.log

/-- street, seat to act and cards untouched (`appendAction`) -/
structure SameTable (s s' : State) : Prop where
  street : s'.street = s.street
  action : s'.action = s.action
  board : s'.board = s.board
  deck : s'.deck = s.deck

/-- settlement fields untouched (everything except the last step of `advanceAction`) -/
structure SameResult (s s' : State) : Prop where
  payouts : s'.payouts = s.payouts
  rakePaid : s'.rakePaid = s.rakePaid
  complete : s'.complete = s.complete

theorem SameCfg.refl (s : State) : SameCfg s s := ⟨rfl, rfl, rfl, rfl, rfl, rfl, rfl, rfl, rfl⟩
theorem SameCfg.trans {a b c : State} (h1 : SameCfg a b) (h2 : SameCfg b c) : SameCfg a c :=
  ⟨h2.n.trans h1.n, h2.game.trans h1.game, h2.hands.trans h1.hands, h2.startingStacks.trans h1.startingStacks,
   h2.ante.trans h1.ante, h2.blinds.trans h1.blinds, h2.runouts.trans h1.runouts, h2.rake.trans h1.rake,
   h2.sampler.trans h1.sampler⟩
theorem SameMoney.refl (s : State) : SameMoney s s := ⟨rfl, rfl, rfl⟩
theorem SameMoney.trans {a b c : State} (h1 : SameMoney a b) (h2 : SameMoney b c) : SameMoney a c :=
  ⟨h2.stacks.trans h1.stacks, h2.pot.trans h1.pot, h2.log.trans h1.log⟩
theorem SameTable.refl (s : State) : SameTable s s := ⟨rfl, rfl, rfl, rfl⟩
theorem SameTable.trans {a b c : State} (h1 : SameTable a b) (h2 : SameTable b c) : SameTable a c :=
  ⟨h2.street.trans h1.street, h2.action.trans h1.action, h2.board.trans h1.board, h2.deck.trans h1.deck⟩
theorem SameResult.refl (s : State) : SameResult s s := ⟨rfl, rfl, rfl⟩
theorem SameResult.trans {a b c : State} (h1 : SameResult a b) (h2 : SameResult b c) : SameResult a c :=
  ⟨h2.payouts.trans h1.payouts, h2.rakePaid.trans h1.rakePaid, h2.complete.trans h1.complete⟩

/-- `is_action_closed` only reads `n`, `lastActions`, `pot`, `stacks` -/
theorem isActionClosed_congr {s s' : State} (hn : s'.n = s.n) (hl : s'.lastActions = s.lastActions)
    (hp : s'.pot = s.pot) (hs : s'.stacks = s.stacks) : s'.isActionClosed = s.isActionClosed := by
  unfold State.isActionClosed; rw [hn, hl, hp, hs]

/-! ### `putMoneyInPot` -/

theorem putMoneyInPot_ok {s s' : State} {p : Nat} {x : Int} :
    s.putMoneyInPot p x = .ok s' ↔ p < s.n ∧ x ≤ getI s.stacks p ∧
      s' = { s with «stacks» := s.stacks.modify p (· - x), pot := s.pot.modify p (· + x) } := by
  unfold State.putMoneyInPot
  by_cases h1 : p ≥ s.n
  · simp [h1]
  · by_cases h2 : x > getI s.stacks p
    · simp [h1, h2]
    · simp only [h1, h2, if_false, Except.ok.injEq]
      constructor
      · rintro rfl; exact ⟨by omega, by omega, rfl⟩
      · rintro ⟨_, _, rfl⟩; rfl

theorem putMoneyInPot_frame {s s' : State} {p : Nat} {x : Int} (h : s.putMoneyInPot p x = .ok s') :
    SameCfg s s' ∧ SameTable s s' ∧ SameResult s s' ∧ s'.lastActions = s.lastActions ∧ s'.log = s.log := by
  obtain ⟨_, _, rfl⟩ := putMoneyInPot_ok.1 h
  exact ⟨⟨rfl, rfl, rfl, rfl, rfl, rfl, rfl, rfl, rfl⟩, ⟨rfl, rfl, rfl, rfl⟩, ⟨rfl, rfl, rfl⟩, rfl, rfl⟩

/-! ## §3 `appendAction` -/

/-- exact description of `build_action` + `Action.__init__` under the standard `Action` sets -/
theorem buildAction_std_ok {s : State} {player : Int} {ty : Option ActType} {amount : Option Int} {a : LogEntry} :
    s.buildAction World.std player ty amount = .ok a ↔
    ∃ t x, ty = some t ∧ a = ⟨player, t, x⟩ ∧
      (amount = some x ∨ (amount = none ∧ ((t = .call ∧ s.amountToCall = .ok x) ∨ t ∈ [ActType.fold, .check, .draw]))) ∧
      (if t ∈ [ActType.call, .bet, .raise] then 0 < x else x = 0) := by
  unfold State.buildAction
  cases ty with
  | none =>
    cases amount <;> simp [bind, Except.bind, pure, Except.pure]
  | some t =>
    cases amount with
    | none =>
      cases t <;> simp [bind, Except.bind, pure, Except.pure, World.std]
      all_goals try (constructor <;> intro h <;> simp_all)
      cases s.amountToCall with
      | error e => simp
      | ok v =>
        simp only [Except.ok.injEq]
        grind
    | some x =>
      cases t <;> simp [bind, Except.bind, pure, Except.pure, World.std]
      all_goals grind

/-- exact description of `validate_action` (any `Action` sets) -/
theorem validateAction_ok {w : World} {s : State} {a : LogEntry} :
    s.validateAction w a = .ok () ↔
    ∃ seat valid, s.action = some seat ∧ a.player = (seat : Int) ∧ s.validActions w = .ok valid ∧ a.act ∈ valid ∧
      a.amount ≤ getI s.stacks seat ∧ (a.act = .call → s.amountToCall = .ok a.amount) ∧
      (a.act ∈ w.aggressions → ∃ mn mx, s.minBet = .ok mn ∧ s.maxBet = .ok mx ∧ mn ≤ a.amount ∧ a.amount ≤ mx) := by
  unfold State.validateAction
  cases hact : s.action with
  | none => simp
  | some seat =>
    simp only [Option.some.injEq, exists_and_left, exists_eq_left']
    by_cases hp : a.player = (seat : Int)
    · simp only [hp, bne_self_eq_false, Bool.false_eq_true, if_false, true_and]
      cases hv : s.validActions w with
      | error e => simp [bind, Except.bind]
      | ok valid =>
        simp only [bind, Except.bind, Except.ok.injEq, exists_eq_left']
        by_cases hm : a.act ∈ valid
        · simp only [List.contains_eq_mem, hm, decide_true, Bool.not_true, Bool.false_eq_true, if_false, true_and]
          by_cases hs : getI s.stacks seat < a.amount
          · simp [hs]
          · simp only [hs, if_false, Int.not_lt.1 hs, true_and]
            cases s.amountToCall <;> cases s.minBet <;> cases s.maxBet <;>
              by_cases hc : a.act = ActType.call <;> by_cases ha : a.act ∈ w.aggressions <;>
              simp [hc, ha, pure, Except.pure] <;> grind
        · simp [hm]
    · simp [hp]

/-- exact description of `update_state_with_action` -/
theorem updateStateWithAction_ok {w : World} {s s' : State} {a : LogEntry} :
    s.updateStateWithAction w a = .ok s' ↔
    if a.act ∈ w.wagers then
      a.player.toNat < s.n ∧ a.amount ≤ getI s.stacks a.player.toNat ∧
      s' = { s with «stacks» := s.stacks.modify a.player.toNat (· - a.amount),
                    pot := s.pot.modify a.player.toNat (· + a.amount),
                    lastActions := s.lastActions.set a.player.toNat (some a.act) }
    else s' = { s with lastActions := s.lastActions.set a.player.toNat (some a.act) } := by
  unfold State.updateStateWithAction
  by_cases hw : a.act ∈ w.wagers
  · simp only [List.contains_eq_mem, hw, decide_true, if_true, bind_ok, putMoneyInPot_ok]
    constructor
    · rintro ⟨s1, ⟨h1, h2, rfl⟩, h3⟩
      simp only [Except.ok.injEq] at h3
      exact ⟨h1, h2, h3.symm⟩
    · rintro ⟨h1, h2, rfl⟩
      exact ⟨_, ⟨h1, h2, rfl⟩, rfl⟩
  · simp only [List.contains_eq_mem, hw, decide_false, Bool.false_eq_true, if_false, bind_ok, pure, Except.pure,
      Except.ok.injEq, exists_eq_left']
    exact eq_comm

/-- `append_action` = not complete, build, validate, log, update -/
theorem appendAction_ok {w : World} {s s1 : State} {player : Int} {ty : Option ActType} {amount : Option Int} :
    s.appendAction w player ty amount = .ok s1 ↔
    s.complete = false ∧ ∃ a, s.buildAction w player ty amount = .ok a ∧ s.validateAction w a = .ok () ∧
      State.updateStateWithAction w { s with log := s.log ++ [a] } a = .ok s1 := by
  unfold State.appendAction
  cases hc : s.complete with
  | true => simp
  | false =>
    simp only [Bool.false_eq_true, if_false, bind_ok, true_and]
    constructor
    · rintro ⟨a, h1, ⟨⟩, h2, h3⟩; exact ⟨a, h1, h2, h3⟩
    · rintro ⟨a, h1, h2, h3⟩; exact ⟨a, h1, (), h2, h3⟩

/-- **explicit description of an accepted action** (standard `Action` sets) -/
theorem appendAction_spec {s s1 : State} {player : Int} {ty : Option ActType} {amount : Option Int}
    (h : s.appendAction World.std player ty amount = .ok s1) :
    ∃ (a : Nat) (t : ActType) (x : Int),
      s.complete = false ∧ s.action = some a ∧ player = (a : Int) ∧ ty = some t ∧
      0 ≤ x ∧ x ≤ getI s.stacks a ∧ (0 < x ↔ t ∈ [ActType.call, .bet, .raise]) ∧ (0 < x → a < s.n) ∧
      s.buildAction World.std player ty amount = .ok ⟨player, t, x⟩ ∧
      s.validateAction World.std ⟨player, t, x⟩ = .ok () ∧
      s1 = { s with «stacks» := s.stacks.modify a (· - x), pot := s.pot.modify a (· + x),
                    lastActions := s.lastActions.set a (some t), log := s.log ++ [⟨player, t, x⟩] } := by
  obtain ⟨hc, e, hb, hv, hu⟩ := appendAction_ok.1 h
  obtain ⟨t, x, rfl, rfl, _, hx⟩ := buildAction_std_ok.1 hb
  obtain ⟨a, valid, ha, hp, _, _, hle, _, _⟩ := validateAction_ok.1 hv
  simp only at hp hle
  subst hp
  rw [updateStateWithAction_ok] at hu
  simp only [Int.toNat_natCast] at hu
  refine ⟨a, t, x, hc, ha, rfl, rfl, ?_⟩
  by_cases hw : t ∈ [ActType.call, .bet, .raise]
  · have hw' : t ∈ World.std.wagers := hw
    rw [if_pos hw] at hx
    rw [if_pos hw'] at hu
    exact ⟨by omega, hle, by simp [hx, hw], fun _ => hu.1, hb, hv, hu.2.2⟩
  · have hw' : ¬ t ∈ World.std.wagers := hw
    rw [if_neg hw] at hx
    rw [if_neg hw'] at hu
    subst hx
    refine ⟨by omega, hle, by simp [hw], fun h => by omega, hb, hv, ?_⟩
    rw [hu, modify_sub_zero, modify_add_zero]

theorem appendAction_frame {w : World} {s s1 : State} {player : Int} {ty : Option ActType} {amount : Option Int}
    (h : s.appendAction w player ty amount = .ok s1) : SameCfg s s1 ∧ SameTable s s1 ∧ SameResult s s1 := by
  obtain ⟨_, e, _, _, hu⟩ := appendAction_ok.1 h
  rw [updateStateWithAction_ok] at hu
  split at hu
  · obtain ⟨_, _, rfl⟩ := hu
    exact ⟨⟨rfl, rfl, rfl, rfl, rfl, rfl, rfl, rfl, rfl⟩, ⟨rfl, rfl, rfl, rfl⟩, ⟨rfl, rfl, rfl⟩⟩
  · subst hu
    exact ⟨⟨rfl, rfl, rfl, rfl, rfl, rfl, rfl, rfl, rfl⟩, ⟨rfl, rfl, rfl, rfl⟩, ⟨rfl, rfl, rfl⟩⟩

/-! ## §4 `advanceAction` -/

theorem moveAction_go_lt (s : State) (fuel p q : Nat) (hp : p < s.n)
    (h : State.moveAction.go s fuel p = .ok q) : q < s.n ∧ s.cannotAct q = false := by
  induction fuel generalizing p with
  | zero => simp [State.moveAction.go] at h
  | succ fuel ih =>
    unfold State.moveAction.go at h
    split at h
    · exact ih _ (Nat.mod_lt _ (by omega)) h
    · rename_i hc
      cases h
      exact ⟨hp, by simpa using hc⟩

/-- `move_action` only changes `action`, to a seat `< n` that can act -/
theorem moveAction_ok {s s' : State} (h : s.moveAction = .ok s') :
    ∃ a p, s.action = some a ∧ s' = { s with action := some p } ∧ (0 < s.n → p < s.n ∧ s.cannotAct p = false) := by
  unfold State.moveAction at h
  split at h
  · cases h
  · rename_i a ha
    rw [bind_ok] at h
    obtain ⟨p, hp, h⟩ := h
    cases h
    exact ⟨a, p, ha, rfl, fun hn => moveAction_go_lt s _ _ p (Nat.mod_lt _ hn) hp⟩

theorem moveAction_frame {s s' : State} (h : s.moveAction = .ok s') :
    SameCfg s s' ∧ SameMoney s s' ∧ SameResult s s' ∧ s'.lastActions = s.lastActions ∧ s'.street = s.street ∧
    s'.board = s.board ∧ s'.deck = s.deck := by
  obtain ⟨a, p, _, rfl, _⟩ := moveAction_ok h
  exact ⟨⟨rfl, rfl, rfl, rfl, rfl, rfl, rfl, rfl, rfl⟩, ⟨rfl, rfl, rfl⟩, ⟨rfl, rfl, rfl⟩, rfl, rfl, rfl, rfl⟩

theorem dealCardsToBoard_zero (s : State) : s.dealCardsToBoard 0 = s := by
  simp [State.dealCardsToBoard]

theorem dealCardsToBoard_frame (s : State) (k : Nat) :
    SameCfg s (s.dealCardsToBoard k) ∧ SameMoney s (s.dealCardsToBoard k) ∧ SameResult s (s.dealCardsToBoard k) ∧
    (s.dealCardsToBoard k).lastActions = s.lastActions ∧ (s.dealCardsToBoard k).street = s.street ∧
    (s.dealCardsToBoard k).action = s.action :=
  ⟨⟨rfl, rfl, rfl, rfl, rfl, rfl, rfl, rfl, rfl⟩, ⟨rfl, rfl, rfl⟩, ⟨rfl, rfl, rfl⟩, rfl, rfl, rfl⟩

theorem utgPreflop_lt (s : State) (hn : 2 ≤ s.n) : s.utgPreflop < s.n := by
  unfold State.utgPreflop
  by_cases h : s.n = 2
  · simp [h]
  · have : (s.n == 2) = false := by simpa using h
    rw [this]; simp; omega

theorem getStartingAction_lt {s : State} {a : Nat} (hn : 2 ≤ s.n) (h : s.getStartingAction = .ok a) : a < s.n := by
  unfold State.getStartingAction at h
  split at h
  · cases h; exact utgPreflop_lt s hn
  · split at h
    · rename_i p hp
      cases h
      exact List.mem_range.1 (List.mem_of_find?_eq_some hp)
    · cases h

/-- after the flop the first seat to act is one that can act -/
theorem getStartingAction_canAct {s : State} {a : Nat} (hs : s.street ≠ 0) (h : s.getStartingAction = .ok a) :
    a < s.n ∧ s.cannotAct a = false := by
  unfold State.getStartingAction at h
  have : (s.street == 0) = false := by simpa using hs
  simp only [this, Bool.false_eq_true, if_false] at h
  split at h
  · rename_i p hp
    cases h
    exact ⟨List.mem_range.1 (List.mem_of_find?_eq_some hp), by simpa using List.find?_some hp⟩
  · cases h

/-- the state at the start of the next street, before the seat to act is chosen -/
def State.nextStreet (s : State) : State :=
  { s with street := s.street + 1,
           lastActions := s.lastActions.map fun a => if a == some ActType.fold then a else none }

/-- `move_street`: either the new round is closed at once (nobody can bet: `action := none`), or it is open and the
first seat able to act is to act (`action := some a`), possibly after dealing `k` cards -/
theorem moveStreet_ok {s s' : State} (h : s.moveStreet = .ok s') :
    (s.nextStreet.isActionClosed = .ok true ∧ s' = { s.nextStreet with action := none }) ∨
    (s.nextStreet.isActionClosed = .ok false ∧ ∃ a k, s.nextStreet.getStartingAction = .ok a ∧
      s' = State.dealCardsToBoard { s.nextStreet with action := some a } k) := by
  unfold State.moveStreet at h
  rw [bind_ok] at h
  obtain ⟨c, hc, h⟩ := h
  change s.nextStreet.isActionClosed = .ok c at hc
  cases c with
  | true =>
    left
    simp only [if_true, Except.ok.injEq] at h
    exact ⟨hc, h.symm⟩
  | false =>
    right
    simp only [Bool.false_eq_true, if_false] at h
    split at h
    case h_2 => simp [bind, Except.bind] at h
    rename_i a ha'
    change s.nextStreet.getStartingAction = .ok a at ha'
    simp only [pure, Except.pure, bind, Except.bind] at h
    refine ⟨hc, a, ?_⟩
    split at h
    · exact ⟨3, ha', by cases h; rfl⟩
    · split at h
      · exact ⟨1, ha', by cases h; rfl⟩
      · split at h
        · exact ⟨1, ha', by cases h; rfl⟩
        · exact ⟨0, ha', by cases h; rw [dealCardsToBoard_zero]; rfl⟩

theorem moveStreet_frame {s s' : State} (h : s.moveStreet = .ok s') :
    SameCfg s s' ∧ SameMoney s s' ∧ SameResult s s' ∧ s'.street = s.street + 1 ∧
    s'.lastActions = s.lastActions.map (fun a => if a == some ActType.fold then a else none) := by
  rcases moveStreet_ok h with ⟨_, rfl⟩ | ⟨_, a, k, _, rfl⟩
  · exact ⟨⟨rfl, rfl, rfl, rfl, rfl, rfl, rfl, rfl, rfl⟩, ⟨rfl, rfl, rfl⟩, ⟨rfl, rfl, rfl⟩, rfl, rfl⟩
  · exact ⟨⟨rfl, rfl, rfl, rfl, rfl, rfl, rfl, rfl, rfl⟩, ⟨rfl, rfl, rfl⟩, ⟨rfl, rfl, rfl⟩, rfl, rfl⟩

/-- after `move_street`: `action = none` exactly when the new round is already closed -/
theorem moveStreet_action {s s' : State} (h : s.moveStreet = .ok s') :
    (s'.isActionClosed = .ok true ∧ s'.action = none) ∨
    (s'.isActionClosed = .ok false ∧ ∃ a, s'.action = some a ∧ a < s.n ∧ s'.cannotAct a = false) := by
  rcases moveStreet_ok h with ⟨hc, rfl⟩ | ⟨hc, a, k, ha, rfl⟩
  · left; exact ⟨hc, rfl⟩
  · right
    refine ⟨hc, a, rfl, ?_⟩
    exact getStartingAction_canAct (by simp [State.nextStreet]) ha

/-- what the `streets` loop of `advance_action` guarantees -/
structure StreetsPost (s s' : State) : Prop where
  cfg : SameCfg s s'
  money : SameMoney s s'
  result : SameResult s s'
  la_len : s'.lastActions.length = s.lastActions.length
  street_le : s.street ≤ s'.street
  /-- either the showdown is reached, or a seat that can act is to act on an open round -/
  stop : showdownStreet ≤ s'.street ∨
    (s'.isActionClosed = .ok false ∧ ∃ a, s'.action = some a ∧ a < s.n ∧ s'.cannotAct a = false)
  action_lt : (∀ a, s.action = some a → a < s.n) → ∀ a, s'.action = some a → a < s.n

theorem streets_post (fuel : Nat) {s s' : State} (h : State.advanceAction.streets fuel s = .ok s') :
    StreetsPost s s' := by
  induction fuel generalizing s with
  | zero => simp [State.advanceAction.streets] at h
  | succ fuel ih =>
    unfold State.advanceAction.streets at h
    split at h
    · rw [bind_ok] at h
      obtain ⟨s1, h1, h⟩ := h
      rw [bind_ok] at h
      obtain ⟨c, hc, h⟩ := h
      obtain ⟨f1, f2, f3, f4, f5⟩ := moveStreet_frame h1
      have hact := moveStreet_action h1
      cases c with
      | true =>
        simp only [if_true] at h
        have p := ih h
        refine ⟨f1.trans p.cfg, f2.trans p.money, f3.trans p.result, ?_, ?_, ?_, ?_⟩
        · rw [p.la_len, f5, List.length_map]
        · have := p.street_le; omega
        · have := p.stop; rwa [f1.n] at this
        · intro _ a ha
          have := p.action_lt (by
            rcases hact with ⟨_, hn⟩ | ⟨_, b, hb, hlt, _⟩
            · intro a ha; rw [hn] at ha; cases ha
            · intro a ha; rw [hb] at ha; cases ha; rw [f1.n]; exact hlt) a ha
          rwa [f1.n] at this
      | false =>
        simp only [Bool.false_eq_true, if_false, Except.ok.injEq] at h
        subst h
        rcases hact with ⟨hcl, _⟩ | ⟨hcl, b, hb, hlt, hcan⟩
        · rw [hcl] at hc; cases hc
        · refine ⟨f1, f2, f3, by rw [f5, List.length_map], by omega, Or.inr ⟨hcl, b, hb, hlt, hcan⟩, ?_⟩
          intro _ a ha; rw [hb] at ha; cases ha; exact hlt
    · rename_i hs
      cases h
      exact ⟨SameCfg.refl _, SameMoney.refl _, SameResult.refl _, rfl, Nat.le_refl _,
        Or.inl (Nat.le_of_not_lt hs), fun h => h⟩

/-- the last step of `advance_action`: settle when the showdown street is reached -/
def State.settleIfShowdown (env : Env) (s : State) : Except Err State :=
  if s.street ≥ showdownStreet then
    s.getPayoutsAndRake env >>= fun x => .ok { s with payouts := some x.1, rakePaid := some x.2, complete := true }
  else .ok s

/-- `advance_action` without the `do` sugar -/
theorem advanceAction_eq (env : Env) (s : State) :
    s.advanceAction env = s.isActionClosed >>= fun closed =>
      (if !closed then s.moveAction else State.advanceAction.streets 6 s) >>= State.settleIfShowdown env := by
  unfold State.advanceAction
  cases s.isActionClosed with
  | error e => rfl
  | ok c => cases c <;> rfl

theorem settleIfShowdown_ok {env : Env} {s2 s' : State} (h : s2.settleIfShowdown env = .ok s') :
    (s2.street < showdownStreet ∧ s' = s2) ∨
    (showdownStreet ≤ s2.street ∧ ∃ pay rake, s2.getPayoutsAndRake env = .ok (pay, rake) ∧
      s' = { s2 with payouts := some pay, rakePaid := some rake, complete := true }) := by
  unfold State.settleIfShowdown at h
  split at h
  · rename_i hge
    right
    rw [bind_ok] at h
    obtain ⟨⟨pay, rake⟩, hp, h⟩ := h
    cases h
    exact ⟨hge, pay, rake, hp, rfl⟩
  · rename_i hlt
    cases h
    exact Or.inl ⟨Nat.lt_of_not_le hlt, rfl⟩

/-- **`advance_action`**: there is an intermediate state `s2` (after `move_action` or the street loop) with the same
chips, log and settlement fields as `s`; if `s2` is before the showdown it is the result and somebody is to act,
otherwise the result is `s2` settled and marked complete -/
theorem advanceAction_spec {env : Env} {s s' : State} (h : s.advanceAction env = .ok s') :
    ∃ s2, SameCfg s s2 ∧ SameMoney s s2 ∧ SameResult s s2 ∧ s2.lastActions.length = s.lastActions.length ∧
      (0 < s.n → (∀ a, s.action = some a → a < s.n) → ∀ a, s2.action = some a → a < s.n) ∧
      ((s2.street < showdownStreet ∧ s2.action.isSome ∧ s' = s2) ∨
       (showdownStreet ≤ s2.street ∧ ∃ pay rake, s2.getPayoutsAndRake env = .ok (pay, rake) ∧
          s' = { s2 with payouts := some pay, rakePaid := some rake, complete := true })) := by
  rw [advanceAction_eq, bind_ok] at h
  obtain ⟨closed, hcl, h⟩ := h
  rw [bind_ok] at h
  obtain ⟨s2, h2, h⟩ := h
  have key : SameCfg s s2 ∧ SameMoney s s2 ∧ SameResult s s2 ∧ s2.lastActions.length = s.lastActions.length ∧
      (0 < s.n → (∀ a, s.action = some a → a < s.n) → ∀ a, s2.action = some a → a < s.n) ∧
      (s2.street < showdownStreet → s2.action.isSome) := by
    cases closed with
    | false =>
      simp only [Bool.not_false, if_true] at h2
      obtain ⟨a, p, ha, rfl, hp⟩ := moveAction_ok h2
      refine ⟨⟨rfl, rfl, rfl, rfl, rfl, rfl, rfl, rfl, rfl⟩, ⟨rfl, rfl, rfl⟩, ⟨rfl, rfl, rfl⟩, rfl, ?_, fun _ => rfl⟩
      intro hn _ b hb
      cases hb
      exact (hp hn).1
    | true =>
      simp only [Bool.not_true, Bool.false_eq_true, if_false] at h2
      have p := streets_post 6 h2
      refine ⟨p.cfg, p.money, p.result, p.la_len, fun _ => p.action_lt, ?_⟩
      intro hlt
      rcases p.stop with h4 | ⟨_, a, ha, _⟩
      · omega
      · rw [ha]; rfl
  obtain ⟨k1, k2, k3, k4, k5, k6⟩ := key
  refine ⟨s2, k1, k2, k3, k4, k5, ?_⟩
  rcases settleIfShowdown_ok h with ⟨hlt, rfl⟩ | hr
  · exact Or.inl ⟨hlt, k6 hlt, rfl⟩
  · exact Or.inr hr

theorem advanceAction_frame {env : Env} {s s' : State} (h : s.advanceAction env = .ok s') :
    SameCfg s s' ∧ SameMoney s s' ∧ s'.lastActions.length = s.lastActions.length := by
  obtain ⟨s2, f1, f2, _, f4, _, h⟩ := advanceAction_spec h
  rcases h with ⟨_, _, rfl⟩ | ⟨_, pay, rake, _, rfl⟩
  · exact ⟨f1, f2, f4⟩
  · exact ⟨⟨f1.n, f1.game, f1.hands, f1.startingStacks, f1.ante, f1.blinds, f1.runouts, f1.rake, f1.sampler⟩,
      ⟨f2.stacks, f2.pot, f2.log⟩, f4⟩

theorem act_ok {env : Env} {s s' : State} {player : Int} {ty : Option ActType} {amount : Option Int} :
    s.act env player ty amount = .ok s' ↔
    ∃ s1, s.appendAction env.w player ty amount = .ok s1 ∧ s1.advanceAction env = .ok s' := by
  unfold State.act; rw [bind_ok]

theorem act_frame {env : Env} {s s' : State} {player : Int} {ty : Option ActType} {amount : Option Int}
    (h : s.act env player ty amount = .ok s') : SameCfg s s' := by
  obtain ⟨s1, h1, h2⟩ := act_ok.1 h
  exact (appendAction_frame h1).1.trans (advanceAction_frame h2).1

/-! ## §5 settlement -/

/-- raked settlement: payouts + rake = contributions; payouts are non-negative; one entry per seat
(rounding exact up to `B`, contributions at most `B`) -/
theorem settleShowdown_sum_B {fl : Rat → Rat} {B : Int} (hfl : C14.FlSpecB B fl) (rc : Pot.RakeCfg) (hf0 : 0 ≤ rc.f)
    (hf1 : rc.f ≤ 1) (bal : List Int) (hbal : ∀ b ∈ bal, 0 ≤ b) (hB : ∀ b ∈ bal, b ≤ B) (tiers : List (List Nat))
    (rp : Bool) {pay : List Rat} {rake : List Int} (h : Pot.settleShowdown fl rc bal tiers rp = .ok (pay, rake)) :
    sumQ pay + ((sumI rake : Int) : Rat) = ((sumI bal : Int) : Rat) ∧ (∀ x ∈ pay, 0 ≤ x) ∧
    pay.length = bal.length ∧ rake.length = bal.length ∧ rake = Pot.rakePerPlayer fl rc bal rp ∧
    (∀ p, p < bal.length → getI rake p ≤ getI bal p) := by
  unfold Pot.settleShowdown at h
  rw [bind_ok] at h
  obtain ⟨pay', hs, h⟩ := h
  simp only [Except.ok.injEq, Prod.mk.injEq] at h
  obtain ⟨rfl, rfl⟩ := h
  have hlen := C14.rake_length fl rc bal rp
  have hle := C14.rake_le_contribution_B hfl rc bal rp hf0 hf1 hbal hB
  have hnn : ∀ b ∈ (bal.zip (Pot.rakePerPlayer fl rc bal rp)).map (fun (b, r) => b - r), 0 ≤ b := by
    intro b hb
    obtain ⟨j, hj, rfl⟩ := List.getElem_of_mem hb
    have hj' : j < bal.length := by simpa [hlen] using hj
    rw [← getI_of_lt _ _ hj, getI_zip_sub _ _ hlen.symm]
    have := hle j hj'
    omega
  obtain ⟨h1, h2⟩ := C02.settle_sum _ tiers pay' hnn hs
  have h3 := C02.settle_nonneg _ tiers pay' hnn hs
  refine ⟨?_, h3, ?_, hlen, rfl, hle⟩
  · rw [h1, sumI_zip_sub _ _ hlen.symm]; push_cast; ring
  · rw [h2]; simp [hlen]

/-- raked settlement: payouts + rake = contributions; payouts are non-negative; one entry per seat -/
theorem settleShowdown_sum {fl : Rat → Rat} (hfl : C14.FlSpec fl) (rc : Pot.RakeCfg) (hf0 : 0 ≤ rc.f)
    (hf1 : rc.f ≤ 1) (bal : List Int) (hbal : ∀ b ∈ bal, 0 ≤ b) (tiers : List (List Nat)) (rp : Bool)
    {pay : List Rat} {rake : List Int} (h : Pot.settleShowdown fl rc bal tiers rp = .ok (pay, rake)) :
    sumQ pay + ((sumI rake : Int) : Rat) = ((sumI bal : Int) : Rat) ∧ (∀ x ∈ pay, 0 ≤ x) ∧
    pay.length = bal.length ∧ rake.length = bal.length ∧ rake = Pot.rakePerPlayer fl rc bal rp ∧
    (∀ p, p < bal.length → getI rake p ≤ getI bal p) :=
  settleShowdown_sum_B (hfl.toB (sumI bal)) rc hf0 hf1 bal hbal (Pot.mem_le_sumI hbal) tiers rp h

/-- the accumulation over run-outs: each iteration adds vectors of the right length whose sums add up to `c` -/
theorem foldlM_acc_sum {ι : Type} (f : List Rat × List Rat → ι → Except Err (List Rat × List Rat)) (n : Nat) (c : Rat)
    (hf : ∀ acc i acc', f acc i = .ok acc' → acc.1.length = n → acc.2.length = n →
      acc'.1.length = n ∧ acc'.2.length = n ∧ sumQ acc'.1 + sumQ acc'.2 = sumQ acc.1 + sumQ acc.2 + c ∧
      ((∀ x ∈ acc.1, 0 ≤ x) → ∀ x ∈ acc'.1, 0 ≤ x))
    (l : List ι) : ∀ (acc res : List Rat × List Rat), l.foldlM f acc = .ok res → acc.1.length = n → acc.2.length = n →
      res.1.length = n ∧ res.2.length = n ∧ sumQ res.1 + sumQ res.2 = sumQ acc.1 + sumQ acc.2 + (l.length : Rat) * c ∧
      ((∀ x ∈ acc.1, 0 ≤ x) → ∀ x ∈ res.1, 0 ≤ x) := by
  induction l with
  | nil =>
    intro acc res h h1 h2
    simp only [List.foldlM_nil, pure, Except.pure, Except.ok.injEq] at h
    subst h
    exact ⟨h1, h2, by simp, fun h => h⟩
  | cons i l ih =>
    intro acc res h h1 h2
    rw [List.foldlM_cons, bind_ok] at h
    obtain ⟨acc1, ha, h⟩ := h
    obtain ⟨a1, a2, a3, a4⟩ := hf acc i acc1 ha h1 h2
    obtain ⟨r1, r2, r3, r4⟩ := ih acc1 res h a1 a2
    refine ⟨r1, r2, ?_, fun h => r4 (a4 h)⟩
    rw [r3, a3]; simp only [List.length_cons]; push_cast; ring

/-- **`get_payouts_and_rake`**: payouts + rake = pot (exact rationals), payouts non-negative, one entry per seat
(rounding exact up to `B`, contributions at most `B`) -/
theorem getPayoutsAndRake_sum_B {env : Env} {B : Int} (hfl : C14.FlSpecB B env.fl) {s : State} (hf0 : 0 ≤ s.rake.f)
    (hf1 : s.rake.f ≤ 1) (hpot : ∀ b ∈ s.pot, 0 ≤ b) (hB : ∀ b ∈ s.pot, b ≤ B) (hlen : s.pot.length = s.n)
    (hr : 1 ≤ s.runouts) {pay rake : List Rat} (h : s.getPayoutsAndRake env = .ok (pay, rake)) :
    sumQ pay + sumQ rake = ((sumI s.pot : Int) : Rat) ∧ (∀ x ∈ pay, 0 ≤ x) ∧
    pay.length = s.n ∧ rake.length = s.n := by
  unfold State.getPayoutsAndRake at h
  simp only at h
  split at h
  · rw [bind_ok] at h
    obtain ⟨⟨pay', rake'⟩, hs, h⟩ := h
    simp only [Except.ok.injEq, Prod.mk.injEq] at h
    obtain ⟨rfl, rfl⟩ := h
    obtain ⟨h1, h2, h3, h4, _⟩ := settleShowdown_sum_B hfl s.rake hf0 hf1 s.pot hpot hB _ _ hs
    refine ⟨?_, h2, by rw [h3, hlen], by rw [List.length_map, h4, hlen]⟩
    rw [sumQ_map_intCast]; exact h1
  · generalize hk : (if (5 - s.board.length != 0 && s.action.isNone) = true then s.runouts else 1) = k at h
    have hk0 : (k : Rat) ≠ 0 := by
      have : 1 ≤ k := by rw [← hk]; split <;> omega
      exact_mod_cast (by omega : k ≠ 0)
    have := foldlM_acc_sum _ s.n (((sumI s.pot : Int) : Rat) / k) ?_ _ _ _ h (by simp) (by simp)
    · obtain ⟨r1, r2, r3, r4⟩ := this
      refine ⟨?_, r4 ?_, r1, r2⟩
      · rw [r3, sumQ_map_zero _ _ (fun _ _ => rfl), List.length_range]
        field_simp
        ring
      · intro x hx
        simp only [List.mem_map] at hx
        obtain ⟨_, _, rfl⟩ := hx
        exact le_refl _
    · intro acc i acc' hstep a1 a2
      rw [bind_ok] at hstep
      obtain ⟨runout, _, hstep⟩ := hstep
      rw [bind_ok] at hstep
      obtain ⟨winners, _, hstep⟩ := hstep
      rw [bind_ok] at hstep
      obtain ⟨⟨pay', rake'⟩, hs, hstep⟩ := hstep
      simp only [pure, Except.pure, Except.ok.injEq] at hstep
      subst hstep
      obtain ⟨h1, h2, h3, h4, _⟩ := settleShowdown_sum_B hfl s.rake hf0 hf1 s.pot hpot hB _ _ hs
      have l1 : acc.1.length = (pay'.map (· / (k : Rat))).length := by rw [List.length_map, h3, hlen, a1]
      have l2 : acc.2.length = (rake'.map fun (r : Int) => (r : Rat) / (k : Rat)).length := by
        rw [List.length_map, h4, hlen, a2]
      refine ⟨by rw [length_addQ _ _ l1, a1], by rw [length_addQ _ _ l2, a2], ?_, ?_⟩
      · simp only
        rw [sumQ_addQ _ _ l1, sumQ_addQ _ _ l2, sumQ_map_div_const, sumQ_map_div (f := fun (r : Int) => (r : Rat)),
          sumQ_map_intCast, ← h1]
        ring
      · intro hacc
        apply addQ_nonneg _ _ hacc
        intro x hx
        simp only [List.mem_map] at hx
        obtain ⟨y, hy, rfl⟩ := hx
        exact div_nonneg (h2 y hy) (Nat.cast_nonneg _)

/-- **`get_payouts_and_rake`**: payouts + rake = pot (exact rationals), payouts non-negative, one entry per seat -/
theorem getPayoutsAndRake_sum {env : Env} (hfl : C14.FlSpec env.fl) {s : State} (hf0 : 0 ≤ s.rake.f)
    (hf1 : s.rake.f ≤ 1) (hpot : ∀ b ∈ s.pot, 0 ≤ b) (hlen : s.pot.length = s.n) (hr : 1 ≤ s.runouts)
    {pay rake : List Rat} (h : s.getPayoutsAndRake env = .ok (pay, rake)) :
    sumQ pay + sumQ rake = ((sumI s.pot : Int) : Rat) ∧ (∀ x ∈ pay, 0 ≤ x) ∧
    pay.length = s.n ∧ rake.length = s.n :=
  getPayoutsAndRake_sum_B (hfl.toB (sumI s.pot)) hf0 hf1 hpot (Pot.mem_le_sumI hpot) hlen hr h

/-! ## §6 the constructor -/

/-- the blinds stored by the constructor (default `[1, 2]`, flipped heads-up) -/
def cfgBlinds (cfg : Cfg) : Except Err (List Int) :=
  let blinds0 := match cfg.blinds with | some b => b | none => [1, 2]
  if cfg.n == 2 then
    match blinds0 with
    | b0 :: b1 :: rest => pure (if b0 < b1 then [b1, b0] else b0 :: b1 :: rest)
    | _ => .error .indexError
  else pure blinds0

/-- the state before antes and blinds are posted -/
def baseState (cfg : Cfg) (blinds : List Int) : State :=
  { game := cfg.game, n := cfg.n, hands := cfg.hands, startingStacks := cfg.startingStacks, ante := cfg.ante,
    blinds := blinds, runouts := cfg.runouts, rake := cfg.rake, sampler := cfg.sampler,
    deck := cfg.deck, board := cfg.board,
    «stacks» := cfg.startingStacks, pot := cfg.startingStacks.map fun _ => 0,
    lastActions := cfg.startingStacks.map fun _ => none, street := 0, action := none, log := [],
    payouts := none, rakePaid := none, complete := false }

/-- the constructor without the `do` sugar -/
theorem construct_eq (cfg : Cfg) :
    construct cfg =
      if cfg.hands.any (fun h => h.length != cfg.game.holeCards) then .error .badLength else
      cfgBlinds cfg >>= fun blinds =>
      if cfg.n < 2 then .error .badConfig else
      if cfg.hands.length != cfg.n then .error .badConfig else
      if cfg.startingStacks.length != cfg.n then .error .badConfig else
      if cfg.ante == 0 && !(blinds.any (· != 0)) then .error .badConfig else
      (baseState cfg blinds).extractAntes >>= fun s1 => s1.extractBlinds >>= fun s2 =>
      s2.getStartingAction >>= fun a => .ok { s2 with action := some a } := by
  unfold construct cfgBlinds
  by_cases h1 : (cfg.hands.any fun h => h.length != cfg.game.holeCards) = true
  · rw [if_pos h1, if_pos h1]
  · rw [if_neg h1, if_neg h1]
    by_cases h2 : (cfg.n == 2) = true
    · simp only [h2, if_true]
      cases cfg.blinds with
      | none => rfl
      | some l => rcases l with _ | ⟨a, _ | ⟨b, r⟩⟩ <;> rfl
    · simp only [h2]
      rfl

/-- what a successful constructor call went through -/
theorem construct_ok_iff {cfg : Cfg} {s : State} :
    construct cfg = .ok s ↔
    (∀ h ∈ cfg.hands, h.length = cfg.game.holeCards) ∧ 2 ≤ cfg.n ∧ cfg.hands.length = cfg.n ∧
    cfg.startingStacks.length = cfg.n ∧
    ∃ blinds s1 s2 a, cfgBlinds cfg = .ok blinds ∧ (cfg.ante ≠ 0 ∨ blinds.any (· != 0) = true) ∧
      (baseState cfg blinds).extractAntes = .ok s1 ∧ s1.extractBlinds = .ok s2 ∧
      s2.getStartingAction = .ok a ∧ s = { s2 with action := some a } := by
  rw [construct_eq]
  by_cases h1 : (cfg.hands.any fun h => h.length != cfg.game.holeCards) = true
  · rw [if_pos h1]
    simp only [List.any_eq_true, bne_iff_ne, ne_eq] at h1
    obtain ⟨h, hh, hne⟩ := h1
    constructor
    · intro h; cases h
    · rintro ⟨h0, _⟩; exact absurd (h0 h hh) hne
  · rw [if_neg h1, bind_ok]
    have h1' : ∀ h ∈ cfg.hands, h.length = cfg.game.holeCards := by
      intro h hh
      by_contra hne
      exact h1 (List.any_eq_true.2 ⟨h, hh, by simpa using hne⟩)
    constructor
    · rintro ⟨blinds, hb, h⟩
      rw [ite_error_ok] at h; obtain ⟨g1, h⟩ := h
      rw [ite_error_ok] at h; obtain ⟨g2, h⟩ := h
      rw [ite_error_ok] at h; obtain ⟨g3, h⟩ := h
      rw [ite_error_ok] at h; obtain ⟨g4, h⟩ := h
      rw [bind_ok] at h; obtain ⟨s1, e1, h⟩ := h
      rw [bind_ok] at h; obtain ⟨s2, e2, h⟩ := h
      rw [bind_ok] at h; obtain ⟨a, e3, h⟩ := h
      simp only [Except.ok.injEq] at h
      refine ⟨h1', by omega, by simpa using g2, by simpa using g3, blinds, s1, s2, a, hb, ?_, e1, e2, e3, h.symm⟩
      by_cases ha : cfg.ante = 0
      · right; simpa [ha] using g4
      · exact Or.inl ha
    · rintro ⟨_, g1, g2, g3, blinds, s1, s2, a, hb, g4, e1, e2, e3, rfl⟩
      refine ⟨blinds, hb, ?_⟩
      rw [ite_error_ok]; refine ⟨by omega, ?_⟩
      rw [ite_error_ok]; refine ⟨by simpa using g2, ?_⟩
      rw [ite_error_ok]; refine ⟨by simpa using g3, ?_⟩
      rw [ite_error_ok]; refine ⟨?_, ?_⟩
      · rcases g4 with g4 | g4
        · simp [g4]
        · simp [g4]
      · rw [bind_ok]; refine ⟨s1, e1, ?_⟩
        rw [bind_ok]; refine ⟨s2, e2, ?_⟩
        rw [bind_ok]; exact ⟨a, e3, rfl⟩

/-- only the chips differ: what posting antes / blinds / a wager leaves alone -/
structure SameButChips (s s' : State) : Prop where
  cfg : SameCfg s s'
  table : SameTable s s'
  result : SameResult s s'
  lastActions : s'.lastActions = s.lastActions
  log : s'.log = s.log

theorem SameButChips.refl (s : State) : SameButChips s s :=
  ⟨SameCfg.refl s, SameTable.refl s, SameResult.refl s, rfl, rfl⟩
theorem SameButChips.trans {a b c : State} (h1 : SameButChips a b) (h2 : SameButChips b c) : SameButChips a c :=
  ⟨h1.cfg.trans h2.cfg, h1.table.trans h2.table, h1.result.trans h2.result,
   h2.lastActions.trans h1.lastActions, h2.log.trans h1.log⟩

theorem putMoneyInPot_sameButChips {s s' : State} {p : Nat} {x : Int} (h : s.putMoneyInPot p x = .ok s') :
    SameButChips s s' := by
  obtain ⟨a, b, c, d, e⟩ := putMoneyInPot_frame h
  exact ⟨a, b, c, d, e⟩

theorem extractAntes_frame {s s' : State} (h : s.extractAntes = .ok s') : SameButChips s s' := by
  unfold State.extractAntes at h
  exact foldlM_preserves (SameButChips s) _ _ s s'
    (fun b a b1 _ hb hs => hb.trans (putMoneyInPot_sameButChips hs)) (SameButChips.refl s) h

theorem extractBlinds_frame {s s' : State} (h : s.extractBlinds = .ok s') : SameButChips s s' := by
  unfold State.extractBlinds at h
  exact foldlM_preserves (SameButChips s) _ _ s s'
    (fun b a b1 _ hb hs => hb.trans (putMoneyInPot_sameButChips hs)) (SameButChips.refl s) h

/-- **frame of the constructor** (any configuration, valid or not) -/
theorem construct_frame {cfg : Cfg} {s : State} (h : construct cfg = .ok s) :
    s.n = cfg.n ∧ s.game = cfg.game ∧ s.hands = cfg.hands ∧ s.startingStacks = cfg.startingStacks ∧
    s.ante = cfg.ante ∧ cfgBlinds cfg = .ok s.blinds ∧ s.runouts = cfg.runouts ∧ s.rake = cfg.rake ∧
    s.sampler = cfg.sampler ∧ s.deck = cfg.deck ∧ s.board = cfg.board ∧ s.street = 0 ∧ s.log = [] ∧
    s.lastActions = cfg.startingStacks.map (fun _ => none) ∧
    s.payouts = none ∧ s.rakePaid = none ∧ s.complete = false ∧ s.action = some s.utgPreflop ∧
    2 ≤ cfg.n ∧ cfg.startingStacks.length = cfg.n := by
  obtain ⟨_, hn, _, hl, blinds, s1, s2, a, hb, _, e1, e2, e3, rfl⟩ := construct_ok_iff.1 h
  have f := (extractAntes_frame e1).trans (extractBlinds_frame e2)
  have hst : s2.street = 0 := f.table.street
  have ha : a = s2.utgPreflop := by
    unfold State.getStartingAction at e3
    simp only [hst, beq_self_eq_true, if_true, Except.ok.injEq] at e3
    exact e3.symm
  refine ⟨f.cfg.n, f.cfg.game, f.cfg.hands, f.cfg.startingStacks, f.cfg.ante, ?_, f.cfg.runouts, f.cfg.rake,
    f.cfg.sampler, f.table.deck, f.table.board, hst, f.log, f.lastActions, f.result.payouts, f.result.rakePaid,
    f.result.complete, ?_, hn, hl⟩
  · rw [hb]; exact congrArg _ f.cfg.blinds.symm
  · rw [ha]; rfl

/-! ### the chip invariant -/

/-- `n` seats, `T` chips in total, nothing negative -/
structure Chips (n : Nat) (T : Int) (s : State) : Prop where
  stacks_len : s.stacks.length = n
  pot_len : s.pot.length = n
  stacks_nonneg : ∀ x ∈ s.stacks, 0 ≤ x
  pot_nonneg : ∀ x ∈ s.pot, 0 ≤ x
  total : sumI s.stacks + sumI s.pot = T

/-- no contribution exceeds the conserved total -/
theorem Chips.pot_le {n : Nat} {T : Int} {s : State} (c : Chips n T s) : ∀ b ∈ s.pot, b ≤ T := by
  intro b hb
  have h1 := Pot.mem_le_sumI c.pot_nonneg b hb
  have h2 := Pot.sumI_nonneg c.stacks_nonneg
  have h3 := c.total
  omega

/-- moving `0 ≤ x ≤ stack` chips of seat `p` to the pot keeps the chip invariant (`p` may be out of range: no-op) -/
theorem Chips.move {n : Nat} {T : Int} {stk pot : List Int} (hl1 : stk.length = n) (hl2 : pot.length = n)
    (h1 : ∀ x ∈ stk, 0 ≤ x) (h2 : ∀ x ∈ pot, 0 ≤ x) (ht : sumI stk + sumI pot = T)
    (p : Nat) (x : Int) (hx0 : 0 ≤ x) (hx : x ≤ getI stk p) :
    (stk.modify p (· - x)).length = n ∧ (pot.modify p (· + x)).length = n ∧
    (∀ y ∈ stk.modify p (· - x), 0 ≤ y) ∧ (∀ y ∈ pot.modify p (· + x), 0 ≤ y) ∧
    sumI (stk.modify p (· - x)) + sumI (pot.modify p (· + x)) = T := by
  refine ⟨by rw [List.length_modify, hl1], by rw [List.length_modify, hl2],
    modify_sub_nonneg _ _ _ h1 hx, modify_add_nonneg _ _ _ h2 hx0, ?_⟩
  by_cases hp : p < n
  · rw [sumI_modify_sub _ _ _ (by omega), sumI_modify_add _ _ _ (by omega)]; omega
  · rw [modify_of_ge _ _ _ (by omega), modify_of_ge _ _ _ (by omega)]; exact ht

theorem putMoneyInPot_chips {n : Nat} {T : Int} {s s' : State} {p : Nat} {x : Int} (hc : Chips n T s)
    (hx0 : 0 ≤ x) (h : s.putMoneyInPot p x = .ok s') : Chips n T s' := by
  obtain ⟨_, hx, rfl⟩ := putMoneyInPot_ok.1 h
  obtain ⟨a, b, c, d, e⟩ := Chips.move hc.stacks_len hc.pot_len hc.stacks_nonneg hc.pot_nonneg hc.total p x hx0 hx
  exact ⟨a, b, c, d, e⟩

/-- an accepted action keeps the chip invariant -/
theorem appendAction_chips {n : Nat} {T : Int} {s s1 : State} {player : Int} {ty : Option ActType}
    {amount : Option Int} (hc : Chips n T s) (h : s.appendAction World.std player ty amount = .ok s1) :
    Chips n T s1 := by
  obtain ⟨a, t, x, _, _, _, _, hx0, hx, _, _, _, _, rfl⟩ := appendAction_spec h
  obtain ⟨a, b, c, d, e⟩ := Chips.move hc.stacks_len hc.pot_len hc.stacks_nonneg hc.pot_nonneg hc.total a x hx0 hx
  exact ⟨a, b, c, d, e⟩

theorem Chips.of_sameMoney {n : Nat} {T : Int} {s s' : State} (hc : Chips n T s) (h : SameMoney s s') :
    Chips n T s' :=
  ⟨by rw [h.stacks]; exact hc.stacks_len, by rw [h.pot]; exact hc.pot_len, by rw [h.stacks]; exact hc.stacks_nonneg,
   by rw [h.pot]; exact hc.pot_nonneg, by rw [h.stacks, h.pot]; exact hc.total⟩

/-! ### valid configurations -/

/-- the blinds a valid configuration ends up with -/
theorem cfgBlinds_valid {cfg : Cfg} (hv : cfg.Valid) :
    ∃ bl, cfgBlinds cfg = .ok bl ∧ bl.length ≤ cfg.n ∧ (∀ b ∈ bl, 0 ≤ b) ∧
      (cfg.ante ≠ 0 ∨ bl.any (· != 0) = true) := by
  have hb := hv.blinds_ok
  have hn := hv.n_ge
  unfold cfgBlinds
  cases hbl : cfg.blinds with
  | none =>
    by_cases h2 : cfg.n = 2
    · exact ⟨[2, 1], by simp [h2, pure, Except.pure], by simp; omega, by simp, Or.inr (by decide)⟩
    · exact ⟨[1, 2], by simp [h2, pure, Except.pure], by simp; omega, by simp, Or.inr (by decide)⟩
  | some l =>
    rw [hbl] at hb
    rcases l with _ | ⟨a, _ | ⟨b, _ | ⟨c, l⟩⟩⟩
    · simp only at hb
      have h2 : cfg.n ≠ 2 := by omega
      exact ⟨[], by simp [h2, pure, Except.pure], by simp, by simp, Or.inl (by omega)⟩
    · simp at hb
    · simp only at hb
      obtain ⟨ha, hb0, hpos⟩ := hb
      have hnz : cfg.ante ≠ 0 ∨ a ≠ 0 ∨ b ≠ 0 := by have := hv.ante_nonneg; omega
      by_cases h2 : cfg.n = 2
      · by_cases hab : a < b
        · refine ⟨[b, a], by simp [h2, hab, pure, Except.pure], by simp; omega, by simp; omega, ?_⟩
          rcases hnz with h | h | h
          · exact Or.inl h
          · right; simp [h]
          · right; simp [h]
        · refine ⟨[a, b], by simp [h2, hab, pure, Except.pure], by simp; omega, by simp; omega, ?_⟩
          rcases hnz with h | h | h
          · exact Or.inl h
          · right; simp [h]
          · right; simp [h]
      · refine ⟨[a, b], by simp [h2, pure, Except.pure], by simp; omega, by simp; omega, ?_⟩
        rcases hnz with h | h | h
        · exact Or.inl h
        · right; simp [h]
        · right; simp [h]
    · simp at hb

theorem extractAntes_total {n : Nat} {T : Int} {s : State} (hc : Chips n T s) (ha : 0 ≤ s.ante) :
    ∃ s', s.extractAntes = .ok s' ∧ Chips n T s' := by
  unfold State.extractAntes
  have := foldlM_total (fun s' : State => SameButChips s s' ∧ Chips n T s')
    (fun s p => s.putMoneyInPot p (min (getI s.stacks p) s.ante)) (List.range s.n) s ?_ ⟨SameButChips.refl s, hc⟩
  · obtain ⟨s', h1, _, h2⟩ := this; exact ⟨s', h1, h2⟩
  · intro b p hp ⟨hb1, hb2⟩
    have hp' : p < b.n := by rw [hb1.cfg.n]; exact List.mem_range.1 hp
    have hx0 : 0 ≤ min (getI b.stacks p) b.ante := by
      have := getI_nonneg _ hb2.stacks_nonneg p; rw [hb1.cfg.ante]; omega
    have hok : b.putMoneyInPot p (min (getI b.stacks p) b.ante) = .ok _ :=
      putMoneyInPot_ok.2 ⟨hp', by omega, rfl⟩
    exact ⟨_, hok, hb1.trans (putMoneyInPot_sameButChips hok), putMoneyInPot_chips hb2 hx0 hok⟩

theorem extractBlinds_total {n : Nat} {T : Int} {s : State} (hn : s.n = n) (hc : Chips n T s)
    (hlen : s.blinds.length ≤ n) (hb : ∀ b ∈ s.blinds, 0 ≤ b) :
    ∃ s', s.extractBlinds = .ok s' ∧ Chips n T s' := by
  unfold State.extractBlinds
  have := foldlM_total (fun s' : State => SameButChips s s' ∧ Chips n T s')
    (fun s p => s.putMoneyInPot p (min (getI s.stacks p) (getI s.blinds p))) (List.range s.blinds.length) s ?_
    ⟨SameButChips.refl s, hc⟩
  · obtain ⟨s', h1, _, h2⟩ := this; exact ⟨s', h1, h2⟩
  · intro b p hp ⟨hb1, hb2⟩
    have hp' : p < b.n := by rw [hb1.cfg.n, hn]; have := List.mem_range.1 hp; omega
    have hx0 : 0 ≤ min (getI b.stacks p) (getI b.blinds p) := by
      have := getI_nonneg _ hb2.stacks_nonneg p
      have := getI_nonneg _ hb p
      rw [hb1.cfg.blinds]; omega
    have hok : b.putMoneyInPot p (min (getI b.stacks p) (getI b.blinds p)) = .ok _ :=
      putMoneyInPot_ok.2 ⟨hp', by omega, rfl⟩
    exact ⟨_, hok, hb1.trans (putMoneyInPot_sameButChips hok), putMoneyInPot_chips hb2 hx0 hok⟩

/-- **the constructor accepts every valid configuration**, and the chips add up -/
theorem construct_total {cfg : Cfg} (hv : cfg.Valid) :
    ∃ s, construct cfg = .ok s ∧ Chips cfg.n (sumI cfg.startingStacks) s := by
  obtain ⟨bl, hbl, hlen, hnn, hnz⟩ := cfgBlinds_valid hv
  have hc0 : Chips cfg.n (sumI cfg.startingStacks) (baseState cfg bl) :=
    ⟨hv.stacks_len, by simp [baseState, hv.stacks_len], hv.stacks_nonneg,
     by intro x hx; simp only [baseState, List.mem_map] at hx; obtain ⟨_, _, rfl⟩ := hx; exact le_refl _,
     by show sumI cfg.startingStacks + sumI (cfg.startingStacks.map fun _ => 0) = _
        rw [sumI_map_const_zero]; omega⟩
  obtain ⟨s1, e1, c1⟩ := extractAntes_total (s := baseState cfg bl) hc0 hv.ante_nonneg
  have f1 := extractAntes_frame e1
  obtain ⟨s2, e2, c2⟩ := extractBlinds_total (s := s1) f1.cfg.n c1
    (by rw [f1.cfg.blinds]; exact hlen) (by rw [f1.cfg.blinds]; exact hnn)
  have f2 := f1.trans (extractBlinds_frame e2)
  have hst : s2.street = 0 := f2.table.street
  have e3 : s2.getStartingAction = .ok s2.utgPreflop := by
    unfold State.getStartingAction; simp [hst]
  refine ⟨{ s2 with action := some s2.utgPreflop }, ?_, ⟨c2.stacks_len, c2.pot_len, c2.stacks_nonneg, c2.pot_nonneg, c2.total⟩⟩
  exact construct_ok_iff.2 ⟨hv.hole, hv.n_ge, hv.hands_len, hv.stacks_len, bl, s1, s2, _, hbl, hnz, e1, e2, e3, rfl⟩

theorem construct_chips {cfg : Cfg} (hv : cfg.Valid) {s : State} (h : construct cfg = .ok s) :
    Chips cfg.n (sumI cfg.startingStacks) s := by
  obtain ⟨s0, h0, c⟩ := construct_total hv
  rw [h] at h0; cases h0; exact c

/-! ## §7 reachable states -/

/-- the part of a reachable state that is fixed by the configuration (no validity assumption needed) -/
structure CfgOf (cfg : Cfg) (s : State) : Prop where
  n : s.n = cfg.n
  game : s.game = cfg.game
  hands : s.hands = cfg.hands
  startingStacks : s.startingStacks = cfg.startingStacks
  ante : s.ante = cfg.ante
  blinds : cfgBlinds cfg = .ok s.blinds
  runouts : s.runouts = cfg.runouts
  rake : s.rake = cfg.rake
  sampler : s.sampler = cfg.sampler
  n_ge : 2 ≤ cfg.n
  starting_len : cfg.startingStacks.length = cfg.n

theorem CfgOf.of_sameCfg {cfg : Cfg} {s s' : State} (h : CfgOf cfg s) (f : SameCfg s s') : CfgOf cfg s' :=
  ⟨f.n.trans h.n, f.game.trans h.game, f.hands.trans h.hands, f.startingStacks.trans h.startingStacks,
   f.ante.trans h.ante, by rw [f.blinds]; exact h.blinds, f.runouts.trans h.runouts, f.rake.trans h.rake,
   f.sampler.trans h.sampler, h.n_ge, h.starting_len⟩

theorem construct_cfgOf {cfg : Cfg} {s : State} (h : construct cfg = .ok s) : CfgOf cfg s := by
  obtain ⟨a1, a2, a3, a4, a5, a6, a7, a8, a9, _, _, _, _, _, _, _, _, _, a10, a11⟩ := construct_frame h
  exact ⟨a1, a2, a3, a4, a5, a6, a7, a8, a9, a10, a11⟩

/-- the configuration fields of every reachable state are those of `cfg` (any `env`, any `cfg`) -/
theorem reachable_cfgOf {env : Env} {cfg : Cfg} {s : State} (h : Reachable env cfg s) : CfgOf cfg s := by
  induction h with
  | init h => exact construct_cfgOf h
  | step p ty amt _ hact ih => exact ih.of_sameCfg (act_frame hact)

/-- an action is only accepted on a hand in progress; if it completes the hand, the result is the settlement of an
intermediate state `s2` which differs from the result only by `payouts`, `rakePaid`, `complete` -/
theorem act_result {env : Env} {s s' : State} {player : Int} {ty : Option ActType} {amount : Option Int}
    (h : s.act env player ty amount = .ok s') :
    s.complete = false ∧
    ((s'.complete = false ∧ s'.payouts = s.payouts ∧ s'.rakePaid = s.rakePaid ∧ s'.action.isSome) ∨
     (∃ (s2 : State) (pay rake : List Rat), s2.complete = false ∧ s2.getPayoutsAndRake env = .ok (pay, rake) ∧
        s' = { s2 with payouts := some pay, rakePaid := some rake, complete := true })) := by
  obtain ⟨s1, h1, h2⟩ := act_ok.1 h
  have hc := (appendAction_ok.1 h1).1
  obtain ⟨_, _, r1⟩ := appendAction_frame h1
  obtain ⟨s2, _, _, r2, _, _, hcase⟩ := advanceAction_spec h2
  have hc2 : s2.complete = false := by rw [r2.complete, r1.complete, hc]
  refine ⟨hc, ?_⟩
  rcases hcase with ⟨_, hs, rfl⟩ | ⟨_, pay, rake, hp, rfl⟩
  · exact Or.inl ⟨hc2, by rw [r2.payouts, r1.payouts], by rw [r2.rakePaid, r1.rakePaid], hs⟩
  · exact Or.inr ⟨s2, pay, rake, hc2, hp, rfl⟩

/-- while the hand is in progress nothing has been paid out (any `env`, any `cfg`) -/
theorem reachable_no_payouts {env : Env} {cfg : Cfg} {s : State} (h : Reachable env cfg s)
    (hc : s.complete = false) : s.payouts = none ∧ s.rakePaid = none := by
  induction h with
  | init h =>
    obtain ⟨_, _, _, _, _, _, _, _, _, _, _, _, _, _, a, b, _⟩ := construct_frame h
    exact ⟨a, b⟩
  | step p ty amt _ hact ih =>
    obtain ⟨hc0, hcase⟩ := act_result hact
    rcases hcase with ⟨_, hp, hr, _⟩ | ⟨s2, pay, rake, _, _, rfl⟩
    · rw [hp, hr]; exact ih hc0
    · cases hc

/-- a complete hand is a final state: no action is accepted any more -/
theorem act_complete_error {env : Env} {s : State} (hc : s.complete = true) (player : Int) (ty : Option ActType)
    (amount : Option Int) : ∀ s', s.act env player ty amount ≠ .ok s' := by
  intro s' h
  have := (act_result h).1
  rw [hc] at this; cases this

/-- **the invariant of reachable states** (valid configuration, standard `Action` sets) -/
structure Inv (cfg : Cfg) (s : State) : Prop where
  cfgOf : CfgOf cfg s
  chips : Chips cfg.n (sumI cfg.startingStacks) s
  la_len : s.lastActions.length = cfg.n
  action_lt : ∀ a, s.action = some a → a < cfg.n
  action_some : s.complete = false → s.action.isSome

theorem construct_inv {cfg : Cfg} (hv : cfg.Valid) {s : State} (h : construct cfg = .ok s) : Inv cfg s := by
  have hc := construct_cfgOf h
  obtain ⟨_, _, _, _, _, _, _, _, _, _, _, _, _, hla, _, _, _, hact, _, _⟩ := construct_frame h
  refine ⟨hc, construct_chips hv h, by rw [hla, List.length_map]; exact hv.stacks_len, ?_, ?_⟩
  · intro a ha
    rw [hact] at ha; cases ha
    rw [← hc.n]; exact utgPreflop_lt s (by rw [hc.n]; exact hv.n_ge)
  · intro _; rw [hact]; rfl

theorem act_inv {env : Env} (hw : env.w = World.std) {cfg : Cfg} {s s' : State} {player : Int}
    {ty : Option ActType} {amount : Option Int} (hi : Inv cfg s) (h : s.act env player ty amount = .ok s') :
    Inv cfg s' := by
  obtain ⟨s1, h1, h2⟩ := act_ok.1 h
  rw [hw] at h1
  have c1 := appendAction_chips hi.chips h1
  obtain ⟨f1, t1, _⟩ := appendAction_frame h1
  have l1 : s1.lastActions.length = cfg.n := by
    obtain ⟨a, t, x, _, _, _, _, _, _, _, _, _, _, rfl⟩ := appendAction_spec h1
    simp only [List.length_set]; exact hi.la_len
  obtain ⟨s2, f2, m2, _, l2, a2, hcase⟩ := advanceAction_spec h2
  have hn1 : s1.n = cfg.n := f1.n.trans hi.cfgOf.n
  have c2 := c1.of_sameMoney m2
  have cf2 := (hi.cfgOf.of_sameCfg f1).of_sameCfg f2
  have alt2 : ∀ a, s2.action = some a → a < cfg.n := by
    have := a2 (by rw [hn1]; have := hi.cfgOf.n_ge; omega)
      (by intro a ha; rw [t1.action] at ha; rw [hn1]; exact hi.action_lt a ha)
    rwa [hn1] at this
  rcases hcase with ⟨_, hs, rfl⟩ | ⟨_, pay, rake, _, rfl⟩
  · exact ⟨cf2, c2, by rw [l2, l1], alt2, fun _ => hs⟩
  · refine ⟨⟨cf2.n, cf2.game, cf2.hands, cf2.startingStacks, cf2.ante, cf2.blinds, cf2.runouts, cf2.rake,
      cf2.sampler, cf2.n_ge, cf2.starting_len⟩,
      ⟨c2.stacks_len, c2.pot_len, c2.stacks_nonneg, c2.pot_nonneg, c2.total⟩, by rw [← l1, ← l2], alt2, ?_⟩
    intro hc; cases hc

theorem reachable_inv {env : Env} (hw : env.w = World.std) {cfg : Cfg} (hv : cfg.Valid) {s : State}
    (h : Reachable env cfg s) : Inv cfg s := by
  induction h with
  | init h => exact construct_inv hv h
  | step p ty amt _ hact ih => exact act_inv hw ih hact

theorem biggestBlind_nonneg (s : State) (h : 0 ≤ s.ante) : 0 ≤ s.biggestBlind := by
  unfold State.biggestBlind
  have := (foldl_max_ge s.blinds s.ante).1
  omega

theorem Inv.wf {cfg : Cfg} (hv : cfg.Valid) {s : State} (hi : Inv cfg s) : s.WF where
  n_ge := by rw [hi.cfgOf.n]; exact hv.n_ge
  stacks_len := by rw [hi.cfgOf.n]; exact hi.chips.stacks_len
  pot_len := by rw [hi.cfgOf.n]; exact hi.chips.pot_len
  la_len := by rw [hi.cfgOf.n]; exact hi.la_len
  stacks_nonneg := hi.chips.stacks_nonneg
  bb_nonneg := biggestBlind_nonneg s (by rw [hi.cfgOf.ante]; exact hv.ante_nonneg)
  action_lt := by rw [hi.cfgOf.n]; exact hi.action_lt
  action_some := hi.action_some

/-- `Σ_p pnl p = Σ payouts + Σ stacks − Σ starting stacks` -/
theorem sum_pnl (s : State) (pay : List Rat) (hp : s.payouts = some pay) (hl : pay.length = s.n)
    (hs : s.stacks.length = s.n) (hst : s.startingStacks.length = s.n) :
    sumQ ((List.range s.n).map s.pnl) = sumQ pay + ((sumI s.stacks - sumI s.startingStacks : Int) : Rat) := by
  unfold State.pnl
  rw [hp]
  simp only
  rw [sumQ_map_add, sumQ_map_intCast_comp, sumI_map_sub]
  congr 1
  · rw [← hl]; exact sumQ_map_getD_range pay
  · congr 2
    · rw [← hs]; exact sumI_map_getI_range _
    · rw [← hst]; exact sumI_map_getI_range _

/-- **settlement of a reachable complete hand** (rounding exact up to `B`, at most `B` chips on the table) -/
theorem reachable_complete_B {env : Env} (hw : env.w = World.std) {B : Int} (hfl : C14.FlSpecB B env.fl) {cfg : Cfg}
    (hv : cfg.Valid) (hB : sumI cfg.startingStacks ≤ B) {s : State} (h : Reachable env cfg s)
    (hc : s.complete = true) :
    ∃ pay rake, s.payouts = some pay ∧ s.rakePaid = some rake ∧ pay.length = cfg.n ∧ rake.length = cfg.n ∧
      sumQ pay + sumQ rake = ((sumI s.pot : Int) : Rat) ∧ (∀ x ∈ pay, 0 ≤ x) := by
  have hi := reachable_inv hw hv h
  cases h with
  | init h =>
    obtain ⟨_, _, _, _, _, _, _, _, _, _, _, _, _, _, _, _, hcf, _⟩ := construct_frame h
    rw [hc] at hcf; cases hcf
  | step p ty amt _ hact =>
    rcases (act_result hact).2 with ⟨hcf, _⟩ | ⟨s2, pay, rake, _, hp, rfl⟩
    · rw [hc] at hcf; cases hcf
    · have hrake : s2.rake = cfg.rake := hi.cfgOf.rake
      have hn : s2.n = cfg.n := hi.cfgOf.n
      have hr : s2.runouts = cfg.runouts := hi.cfgOf.runouts
      obtain ⟨g1, g2, g3, g4⟩ := getPayoutsAndRake_sum_B hfl (s := s2) (by rw [hrake]; exact hv.f_nonneg)
        (by rw [hrake]; exact hv.f_le_one) hi.chips.pot_nonneg
        (fun b hb => Int.le_trans (hi.chips.pot_le b hb) hB) (by rw [hn]; exact hi.chips.pot_len)
        (by rw [hr]; exact hv.runouts_pos) hp
      exact ⟨pay, rake, rfl, rfl, by rw [g3, hn], by rw [g4, hn], g1, g2⟩

/-- **settlement of a reachable complete hand** -/
theorem reachable_complete {env : Env} (hw : env.w = World.std) (hfl : C14.FlSpec env.fl) {cfg : Cfg}
    (hv : cfg.Valid) {s : State} (h : Reachable env cfg s) (hc : s.complete = true) :
    ∃ pay rake, s.payouts = some pay ∧ s.rakePaid = some rake ∧ pay.length = cfg.n ∧ rake.length = cfg.n ∧
      sumQ pay + sumQ rake = ((sumI s.pot : Int) : Rat) ∧ (∀ x ∈ pay, 0 ≤ x) :=
  reachable_complete_B hw (hfl.toB (sumI cfg.startingStacks)) hv (Int.le_refl _) h hc

end CardVerif.Betting
