import CardModel.Spec.GinMeldRules
import Mathlib.Data.List.Perm.Basic
import Mathlib.Data.List.Perm.Subperm
import Mathlib.Data.List.Sublists
import Mathlib.Data.List.Dedup
import Mathlib.Data.List.Nodup
/-!
# C08 — the meld search on top of an exact meld enumeration

Everything here takes `AllMeldsExact hand` (the enumeration lists exactly the legal melds inside the hand, each once
up to order) as a hypothesis and derives the C08 statements about `getCandidateMelds` / `splitMelds`.

Helper lemmas live in `CardVerif.Gin.MeldSearch`, the six C08 theorems in `CardVerif.Gin`.
-/
namespace CardVerif.Gin
namespace MeldSearch
open List

/-! ## generic list helpers: `combinations`, `dedup`, `sortBy` -/

/-- `itertools.combinations`: the sublists of the given length -/
theorem mem_combinations {α : Type} {k : Nat} {l s : List α} :
    s ∈ combinations k l ↔ s.Sublist l ∧ s.length = k := by
  rw [← List.mem_sublistsLen]
  induction l generalizing k s with
  | nil => cases k <;> simp [combinations]
  | cons x xs ih =>
    cases k with
    | zero => simp [combinations]
    | succ k => simp [combinations, List.sublistsLen_succ_cons, ih, or_comm]

theorem dedup_eq {α : Type} [DecidableEq α] (l : List α) : CardVerif.dedup l = l.dedup := by
  induction l with
  | nil => rfl
  | cons x xs ih =>
    by_cases h : x ∈ xs
    · simp [CardVerif.dedup, h, ih, List.dedup_cons_of_mem h]
    · simp [CardVerif.dedup, h, ih, List.dedup_cons_of_notMem h]

theorem dedup_length_eq_iff {α : Type} [DecidableEq α] (l : List α) :
    (CardVerif.dedup l).length = l.length ↔ l.Nodup := by
  rw [dedup_eq]
  constructor
  · intro h
    exact List.dedup_eq_self.1 ((List.dedup_sublist l).eq_of_length h)
  · intro h; rw [List.dedup_eq_self.2 h]

theorem insertBy_perm {α : Type} (le : α → α → Bool) (x : α) (l : List α) :
    (insertBy le x l).Perm (x :: l) := by
  induction l with
  | nil => exact Perm.refl _
  | cons y ys ih =>
    simp only [insertBy]
    split
    · exact Perm.refl _
    · exact (ih.cons y).trans (Perm.swap x y ys)

theorem sortBy_perm {α : Type} (le : α → α → Bool) (l : List α) : (sortBy le l).Perm l := by
  induction l with
  | nil => exact Perm.refl _
  | cons x xs ih =>
    show (insertBy le x (sortBy le xs)).Perm (x :: xs)
    exact (insertBy_perm le x _).trans (ih.cons x)

theorem sortByRank_perm (l : List Card) : (sortByRank l).Perm l := sortBy_perm _ l

theorem forall₂_perm_map_sortByRank (s : List (List Card)) : List.Forall₂ List.Perm (s.map sortByRank) s := by
  induction s with
  | nil => exact .nil
  | cons m s ih => exact .cons (sortByRank_perm m) ih

theorem flatten_map_sortByRank_perm (s : List (List Card)) : (s.map sortByRank).flatten.Perm s.flatten :=
  List.Perm.flatten_congr (forall₂_perm_map_sortByRank s)

theorem forall₂_mem_left {α β : Type} {R : α → β → Prop} {l₁ : List α} {l₂ : List β} (h : List.Forall₂ R l₁ l₂)
    {a : α} (ha : a ∈ l₁) : ∃ b ∈ l₂, R a b := by
  induction h with
  | nil => cases ha
  | cons hab _ ih =>
    rcases List.mem_cons.1 ha with rfl | ha
    · exact ⟨_, List.mem_cons_self, hab⟩
    · obtain ⟨b, hb, hr⟩ := ih ha
      exact ⟨b, List.mem_cons_of_mem _ hb, hr⟩

theorem forall₂_mem_right {α β : Type} {R : α → β → Prop} {l₁ : List α} {l₂ : List β} (h : List.Forall₂ R l₁ l₂)
    {b : β} (hb : b ∈ l₂) : ∃ a ∈ l₁, R a b := by
  induction h with
  | nil => cases hb
  | cons hab _ ih =>
    rcases List.mem_cons.1 hb with rfl | hb
    · exact ⟨_, List.mem_cons_self, hab⟩
    · obtain ⟨a, ha, hr⟩ := ih hb
      exact ⟨a, List.mem_cons_of_mem _ ha, hr⟩

/-! ## deadwood -/

theorem deadwood_nil : deadwood [] = 0 := rfl
theorem deadwood_cons (c : Card) (l : List Card) : deadwood (c :: l) = pip c + deadwood l := rfl

theorem deadwood_perm {l₁ l₂ : List Card} (h : l₁.Perm l₂) : deadwood l₁ = deadwood l₂ := by
  induction h with
  | nil => rfl
  | cons x _ ih => simp only [deadwood_cons, ih]
  | swap x y l => simp only [deadwood_cons]; omega
  | trans _ _ ih1 ih2 => exact ih1.trans ih2

theorem one_le_pip {c : Card} (h : c.Valid) : 1 ≤ pip c := by
  obtain ⟨h2, _, _⟩ := h
  unfold pip lowValue
  split <;> omega

theorem eq_nil_of_deadwood_eq_zero {l : List Card} (hv : ∀ c ∈ l, c.Valid) (h : deadwood l = 0) : l = [] := by
  cases l with
  | nil => rfl
  | cons c l =>
    have := one_le_pip (hv c List.mem_cons_self)
    rw [deadwood_cons] at h
    omega

/-! ## legal melds are invariant under permutation and have at least three cards -/

theorem isSet_perm {m m' : List Card} (h : m.Perm m') (hs : IsSet m) : IsSet m' := by
  obtain ⟨hn, hl, r, hr⟩ := hs
  refine ⟨h.nodup_iff.1 hn, ?_, r, fun c hc => hr c (h.mem_iff.2 hc)⟩
  rw [← h.length_eq]; exact hl

theorem isRun_perm {m m' : List Card} (h : m.Perm m') (hs : IsRun m) : IsRun m' := by
  obtain ⟨s, lo, len, h1, h2, h3, h4, hp⟩ := hs
  exact ⟨s, lo, len, h1, h2, h3, h4, h.symm.trans hp⟩

theorem legalMeld_perm {m m' : List Card} (h : m.Perm m') (hs : LegalMeld m) : LegalMeld m' :=
  hs.elim (fun hs => .inl (isSet_perm h hs)) (fun hr => .inr (isRun_perm h hr))

theorem legalMeld_length {m : List Card} (h : LegalMeld m) : 3 ≤ m.length := by
  rcases h with ⟨_, hl, _⟩ | ⟨s, lo, len, h1, _, _, _, hp⟩
  · omega
  · rw [hp.length_eq]; simp [runCards]; exact h1

/-! ## `removeMelded`, `restOf`, `disjointMelds` -/

theorem removeMelded_eq_restOf (hand : List Card) (ms : List (List Card)) : removeMelded hand ms = restOf hand ms := by
  unfold removeMelded restOf
  apply List.filter_congr
  intro c _
  congr 1
  rw [Bool.eq_iff_iff]
  simp [List.mem_flatten]

theorem restOf_congr (hand : List Card) {ms ms' : List (List Card)}
    (h : ∀ c, c ∈ ms.flatten ↔ c ∈ ms'.flatten) : restOf hand ms = restOf hand ms' := by
  unfold restOf
  apply List.filter_congr
  intro c _
  congr 1
  rw [Bool.eq_iff_iff]
  simp only [List.contains_iff_mem, h c]

theorem restOf_nil (hand : List Card) : restOf hand [] = hand := by
  simp [restOf]

theorem restOf_sub (hand : List Card) (ms : List (List Card)) : ∀ c ∈ restOf hand ms, c ∈ hand := by
  intro c hc
  exact (List.mem_filter.1 hc).1

theorem disjointMelds_iff (ms : List (List Card)) : disjointMelds ms = true ↔ ms.flatten.Nodup := by
  unfold disjointMelds
  rw [beq_iff_eq, dedup_length_eq_iff]

/-! ## the combos loop -/

/-- the limit test of `get_candidate_melds` -/
def within (maxDw : Option Nat) (dw : Nat) : Bool :=
  match maxDw with | none => true | some d => decide (dw ≤ d)

theorem within_iff (maxDw : Option Nat) (dw : Nat) : within maxDw dw = true ↔ ∀ d, maxDw = some d → dw ≤ d := by
  cases maxDw <;> simp [within]

/-- deadwood computed for a combo -/
def dwOf (hand : List Card) (ms : List (List Card)) : Nat := deadwood (sortByRank (removeMelded hand ms))

/-- the candidate appended for a combo -/
def candOf (hand : List Card) (ms : List (List Card)) : Candidate :=
  ⟨dwOf hand ms, ms.map sortByRank, sortByRank (removeMelded hand ms)⟩

theorem dwOf_eq (hand : List Card) (ms : List (List Card)) : dwOf hand ms = deadwood (restOf hand ms) := by
  unfold dwOf
  rw [deadwood_perm (sortByRank_perm _), removeMelded_eq_restOf]

theorem candLoop_nil (hand : List Card) (maxDw : Option Nat) (stop : Bool) (acc : List Candidate) :
    candLoop hand maxDw stop [] acc = .inr acc := rfl

theorem candLoop_cons (hand : List Card) (maxDw : Option Nat) (stop : Bool) (ms : List (List Card))
    (rest : List (List (List Card))) (acc : List Candidate) :
    candLoop hand maxDw stop (ms :: rest) acc =
      if disjointMelds ms = true then
        if dwOf hand ms = 0 ∧ stop = true then .inl ⟨0, ms.map sortByRank, []⟩
        else if within maxDw (dwOf hand ms) = true then candLoop hand maxDw stop rest (acc ++ [candOf hand ms])
        else candLoop hand maxDw stop rest acc
      else candLoop hand maxDw stop rest acc := by
  rw [candLoop]
  simp only [dwOf, candOf, within, Bool.and_eq_true, beq_iff_eq]
  congr

/-- the early exit: only with `stop`, on a disjoint combo of zero deadwood -/
theorem candLoop_inl {hand : List Card} {maxDw : Option Nat} {stop : Bool} :
    ∀ (combos : List (List (List Card))) (acc : List Candidate) (g : Candidate),
      candLoop hand maxDw stop combos acc = .inl g →
      stop = true ∧ ∃ ms ∈ combos, disjointMelds ms = true ∧ dwOf hand ms = 0 ∧ g = ⟨0, ms.map sortByRank, []⟩ := by
  intro combos
  induction combos with
  | nil => intro acc g h; simp [candLoop_nil] at h
  | cons ms rest ih =>
    intro acc g h
    rw [candLoop_cons] at h
    have lift : ∀ acc', candLoop hand maxDw stop rest acc' = .inl g →
        stop = true ∧ ∃ ms' ∈ ms :: rest, disjointMelds ms' = true ∧ dwOf hand ms' = 0 ∧
          g = ⟨0, ms'.map sortByRank, []⟩ := by
      intro acc' h'
      obtain ⟨hs, ms', hm, hrest⟩ := ih acc' g h'
      exact ⟨hs, ms', List.mem_cons_of_mem _ hm, hrest⟩
    split at h
    · rename_i hd
      split at h
      · rename_i hz
        injection h with h
        exact ⟨hz.2, ms, List.mem_cons_self, hd, hz.1, h.symm⟩
      · split at h
        · exact lift _ h
        · exact lift _ h
    · exact lift _ h

/-- without early exit: every listed candidate is an old one or the candidate of a disjoint combo within the limit -/
theorem candLoop_inr_sound {hand : List Card} {maxDw : Option Nat} {stop : Bool} :
    ∀ (combos : List (List (List Card))) (acc cs : List Candidate),
      candLoop hand maxDw stop combos acc = .inr cs →
      ∀ c ∈ cs, c ∈ acc ∨ ∃ ms ∈ combos, disjointMelds ms = true ∧ within maxDw (dwOf hand ms) = true ∧
        c = candOf hand ms := by
  intro combos
  induction combos with
  | nil =>
    intro acc cs h c hc
    simp only [candLoop_nil, Sum.inr.injEq] at h
    subst h; exact .inl hc
  | cons ms rest ih =>
    intro acc cs h c hc
    rw [candLoop_cons] at h
    have lift : candLoop hand maxDw stop rest acc = .inr cs →
        c ∈ acc ∨ ∃ ms' ∈ ms :: rest, disjointMelds ms' = true ∧ within maxDw (dwOf hand ms') = true ∧
          c = candOf hand ms' := by
      intro h'
      rcases ih acc cs h' c hc with h1 | ⟨ms', hm, hrest⟩
      · exact .inl h1
      · exact .inr ⟨ms', List.mem_cons_of_mem _ hm, hrest⟩
    split at h
    · rename_i hd
      split at h
      · cases h
      · split at h
        · rename_i hw
          rcases ih _ cs h c hc with h1 | ⟨ms', hm, hrest⟩
          · rcases List.mem_append.1 h1 with h1 | h1
            · exact .inl h1
            · rw [List.mem_singleton] at h1
              exact .inr ⟨ms, List.mem_cons_self, hd, hw, h1⟩
          · exact .inr ⟨ms', List.mem_cons_of_mem _ hm, hrest⟩
        · exact lift h
    · exact lift h

/-- without early exit: the old candidates are kept, every disjoint combo within the limit is listed, and – with
`stop` – no disjoint combo had zero deadwood -/
theorem candLoop_inr_complete {hand : List Card} {maxDw : Option Nat} {stop : Bool} :
    ∀ (combos : List (List (List Card))) (acc cs : List Candidate),
      candLoop hand maxDw stop combos acc = .inr cs →
      (∀ c ∈ acc, c ∈ cs) ∧
      (∀ ms ∈ combos, disjointMelds ms = true → within maxDw (dwOf hand ms) = true → candOf hand ms ∈ cs) ∧
      (stop = true → ∀ ms ∈ combos, disjointMelds ms = true → dwOf hand ms ≠ 0) := by
  intro combos
  induction combos with
  | nil =>
    intro acc cs h
    simp only [candLoop_nil, Sum.inr.injEq] at h
    subst h
    exact ⟨fun _ h => h, fun _ h => (by cases h), fun _ _ h => (by cases h)⟩
  | cons ms rest ih =>
    intro acc cs h
    rw [candLoop_cons] at h
    split at h
    · rename_i hd
      split at h
      · cases h
      · rename_i hz
        split at h
        · rename_i hw
          obtain ⟨h1, h2, h3⟩ := ih _ cs h
          refine ⟨fun c hc => h1 c (List.mem_append_left _ hc), ?_, ?_⟩
          · intro ms' hm hd' hw'
            rcases List.mem_cons.1 hm with rfl | hm
            · exact h1 _ (List.mem_append_right _ (List.mem_singleton.2 rfl))
            · exact h2 ms' hm hd' hw'
          · intro hs ms' hm hd'
            rcases List.mem_cons.1 hm with rfl | hm
            · intro h0; exact hz ⟨h0, hs⟩
            · exact h3 hs ms' hm hd'
        · rename_i hw
          obtain ⟨h1, h2, h3⟩ := ih _ cs h
          refine ⟨h1, ?_, ?_⟩
          · intro ms' hm hd' hw'
            rcases List.mem_cons.1 hm with rfl | hm
            · exact absurd hw' hw
            · exact h2 ms' hm hd' hw'
          · intro hs ms' hm hd'
            rcases List.mem_cons.1 hm with rfl | hm
            · intro h0; exact hz ⟨h0, hs⟩
            · exact h3 hs ms' hm hd'
    · rename_i hd
      obtain ⟨h1, h2, h3⟩ := ih _ cs h
      refine ⟨h1, ?_, ?_⟩
      · intro ms' hm hd' hw'
        rcases List.mem_cons.1 hm with rfl | hm
        · exact absurd hd' hd
        · exact h2 ms' hm hd' hw'
      · intro hs ms' hm hd'
        rcases List.mem_cons.1 hm with rfl | hm
        · exact absurd hd' hd
        · exact h3 hs ms' hm hd'

/-! ## `getCandidateMelds` unfolded -/

/-- the no-meld candidate, if within the limit -/
def c0 (hand : List Card) (maxDw : Option Nat) : List Candidate :=
  if within maxDw (deadwood hand) = true then [⟨deadwood hand, [], sortByRank hand⟩] else []

/-- the enumerated combos: all 1-, 2- and 3-sublists of the meld list -/
def combos (hand : List Card) : List (List (List Card)) :=
  (List.range' 1 (min 3 (allMelds hand).length)).flatMap fun k => combinations k (allMelds hand)

theorem getCandidateMelds_eq (hand : List Card) (maxDw : Option Nat) (stop : Bool) :
    getCandidateMelds hand maxDw stop =
      match candLoop hand maxDw stop (combos hand) (c0 hand maxDw) with
      | .inl gin => [gin]
      | .inr cs => cs := rfl

theorem mem_combos {hand : List Card} {s : List (List Card)} :
    s ∈ combos hand ↔ s.Sublist (allMelds hand) ∧ 1 ≤ s.length ∧ s.length ≤ 3 := by
  unfold combos
  simp only [List.mem_flatMap, List.mem_range', mem_combinations]
  constructor
  · rintro ⟨k, ⟨i, hi, rfl⟩, hs, hk⟩
    exact ⟨hs, by omega, by omega⟩
  · rintro ⟨hs, h1, h3⟩
    have := hs.length_le
    exact ⟨s.length, ⟨s.length - 1, by omega, by omega⟩, hs, rfl⟩

/-! ## `minCandidate` -/

theorem foldl_min_spec (cs : List Candidate) (c : Candidate) :
    ((cs.foldl (fun best x => if x.deadwood < best.deadwood then x else best) c) = c ∨
      (cs.foldl (fun best x => if x.deadwood < best.deadwood then x else best) c) ∈ cs) ∧
    (cs.foldl (fun best x => if x.deadwood < best.deadwood then x else best) c).deadwood ≤ c.deadwood ∧
    ∀ x ∈ cs, (cs.foldl (fun best x => if x.deadwood < best.deadwood then x else best) c).deadwood ≤ x.deadwood := by
  induction cs generalizing c with
  | nil => simp
  | cons y ys ih =>
    simp only [List.foldl_cons]
    obtain ⟨h1, h2, h3⟩ := ih (if y.deadwood < c.deadwood then y else c)
    refine ⟨?_, ?_, ?_⟩
    · rcases h1 with h1 | h1
      · rw [h1]
        split
        · exact .inr List.mem_cons_self
        · exact .inl rfl
      · exact .inr (List.mem_cons_of_mem _ h1)
    · refine Nat.le_trans h2 ?_
      split <;> omega
    · intro x hx
      rcases List.mem_cons.1 hx with rfl | hx
      · refine Nat.le_trans h2 ?_
        split <;> omega
      · exact h3 x hx

/-- `minCandidate` returns a listed candidate of minimal deadwood -/
theorem minCandidate_spec {l : List Candidate} {c : Candidate} (h : minCandidate l = some c) :
    c ∈ l ∧ ∀ x ∈ l, c.deadwood ≤ x.deadwood := by
  cases l with
  | nil => cases h
  | cons a as =>
    simp only [minCandidate, Option.some.injEq] at h
    obtain ⟨h1, h2, h3⟩ := foldl_min_spec as a
    rw [h] at h1 h2 h3
    refine ⟨?_, ?_⟩
    · rcases h1 with h1 | h1
      · rw [h1]; exact List.mem_cons_self
      · exact List.mem_cons_of_mem _ h1
    · intro x hx
      rcases List.mem_cons.1 hx with rfl | hx
      · exact h2
      · exact h3 x hx

theorem minCandidate_isSome {l : List Candidate} (h : l ≠ []) : ∃ c, minCandidate l = some c := by
  cases l with
  | nil => exact absurd rfl h
  | cons a as => exact ⟨_, rfl⟩

/-! ## arrangements versus combos -/

/-- an arrangement of a hand of at most 11 cards has at most three melds -/
theorem three_mul_length_le_flatten {ms : List (List Card)} (h : ∀ m ∈ ms, 3 ≤ m.length) :
    3 * ms.length ≤ ms.flatten.length := by
  induction ms with
  | nil => simp
  | cons m ms ih =>
    have h1 := h m List.mem_cons_self
    have h2 := ih (fun m' hm' => h m' (List.mem_cons_of_mem _ hm'))
    simp only [List.length_cons, List.flatten_cons, List.length_append]
    omega

theorem arrangement_length_le {hand : List Card} {ms : List (List Card)} (harr : Arrangement hand ms) :
    3 * ms.length ≤ hand.length := by
  have h1 := three_mul_length_le_flatten (fun m hm => legalMeld_length (harr.legal m hm))
  have hsub : ms.flatten ⊆ hand := by
    intro c hc
    obtain ⟨m, hm, hcm⟩ := List.mem_flatten.1 hc
    exact harr.sub m hm c hcm
  have h2 := (harr.disjoint.subperm hsub).length_le
  omega

theorem arrangement_length_le_three {hand : List Card} {ms : List (List Card)} (harr : Arrangement hand ms)
    (hlen : hand.length ≤ 11) : ms.length ≤ 3 := by
  have := arrangement_length_le harr
  omega

/-- listed representatives of the melds of an arrangement -/
theorem exists_reps {hand : List Card} (hall : AllMeldsExact hand) {ms : List (List Card)}
    (harr : Arrangement hand ms) :
    ∃ reps : List (List Card), List.Forall₂ List.Perm reps ms ∧ ∀ r ∈ reps, r ∈ allMelds hand := by
  have hlegal := harr.legal
  have hsub := harr.sub
  clear harr
  induction ms with
  | nil => exact ⟨[], .nil, fun _ h => (by cases h)⟩
  | cons m ms ih =>
    obtain ⟨reps, hf, hr⟩ := ih (fun m' hm' => hlegal m' (List.mem_cons_of_mem _ hm'))
      (fun m' hm' => hsub m' (List.mem_cons_of_mem _ hm'))
    obtain ⟨r, hra, hrp⟩ := hall.complete m (hlegal m List.mem_cons_self) (hsub m List.mem_cons_self)
    refine ⟨r :: reps, .cons hrp hf, ?_⟩
    intro r' hr'
    rcases List.mem_cons.1 hr' with rfl | hr'
    · exact hra
    · exact hr r' hr'

/-- representatives of pairwise disjoint non-empty melds are distinct -/
theorem reps_nodup {reps ms : List (List Card)} (hf : List.Forall₂ List.Perm reps ms)
    (hne : ∀ m ∈ ms, m ≠ []) (hd : ms.flatten.Nodup) : reps.Nodup := by
  induction hf with
  | nil => exact List.nodup_nil
  | @cons r m reps ms hrm hf ih =>
    rw [List.flatten_cons, List.nodup_append] at hd
    obtain ⟨_, hd2, hd3⟩ := hd
    refine List.nodup_cons.2 ⟨?_, ih (fun m' hm' => hne m' (List.mem_cons_of_mem _ hm')) hd2⟩
    intro hr
    obtain ⟨m', hm', hp⟩ := forall₂_mem_left hf hr
    have hmne := hne m List.mem_cons_self
    obtain ⟨c, hc⟩ := List.exists_mem_of_ne_nil m hmne
    have hc' : c ∈ m' := hp.mem_iff.1 (hrm.mem_iff.2 hc)
    exact hd3 c hc c (List.mem_flatten.2 ⟨m', hm', hc'⟩) rfl

/-- a non-empty arrangement of at most three melds is (up to order) one of the enumerated combos, and that combo
passes the disjointness test -/
theorem exists_combo {hand : List Card} (hall : AllMeldsExact hand) {ms : List (List Card)}
    (harr : Arrangement hand ms) (hne : ms ≠ []) (h3 : ms.length ≤ 3) :
    ∃ s ∈ combos hand, disjointMelds s = true ∧ s.length = ms.length ∧
      (∀ m ∈ ms, ∃ m' ∈ s, m'.Perm m) ∧ s.flatten.Perm ms.flatten := by
  obtain ⟨reps, hf, hr⟩ := exists_reps hall harr
  have hnd : reps.Nodup := by
    refine reps_nodup hf ?_ harr.disjoint
    intro m hm h0
    have := legalMeld_length (harr.legal m hm)
    rw [h0] at this
    simp at this
  obtain ⟨s, hsp, hss⟩ := hnd.subperm (fun r h => hr r h)
  have hlen : s.length = ms.length := hsp.length_eq.trans hf.length_eq
  have hflat : s.flatten.Perm ms.flatten := hsp.flatten.trans (List.Perm.flatten_congr hf)
  refine ⟨s, mem_combos.2 ⟨hss, ?_, by omega⟩, ?_, hlen, ?_, hflat⟩
  · have : ms.length ≠ 0 := fun h => hne (List.length_eq_zero_iff.1 h)
    omega
  · rw [disjointMelds_iff]; exact hflat.nodup_iff.2 harr.disjoint
  · intro m hm
    obtain ⟨r, hr, hp⟩ := forall₂_mem_right hf hm
    exact ⟨r, hsp.mem_iff.2 hr, hp⟩

/-- what a disjoint enumerated combo yields -/
theorem combo_sound {hand : List Card} (hall : AllMeldsExact hand) {s : List (List Card)} (hs : s ∈ combos hand)
    (hd : disjointMelds s = true) :
    Arrangement hand (s.map sortByRank) ∧ (s.map sortByRank).length ≤ 3 ∧
      restOf hand (s.map sortByRank) = restOf hand s := by
  obtain ⟨hsub, _, h3⟩ := mem_combos.1 hs
  refine ⟨⟨?_, ?_, ?_⟩, by simpa using h3, ?_⟩
  · intro m hm
    obtain ⟨m0, hm0, rfl⟩ := List.mem_map.1 hm
    exact legalMeld_perm (sortByRank_perm m0).symm (hall.sound m0 (hsub.subset hm0)).1
  · intro m hm c hc
    obtain ⟨m0, hm0, rfl⟩ := List.mem_map.1 hm
    exact (hall.sound m0 (hsub.subset hm0)).2 c ((sortByRank_perm m0).mem_iff.1 hc)
  · exact (flatten_map_sortByRank_perm s).nodup_iff.2 ((disjointMelds_iff s).1 hd)
  · exact restOf_congr hand (fun c => (flatten_map_sortByRank_perm s).mem_iff)

theorem mem_c0 {hand : List Card} {maxDw : Option Nat} {c : Candidate} (h : c ∈ c0 hand maxDw) :
    c = ⟨deadwood hand, [], sortByRank hand⟩ ∧ within maxDw (deadwood hand) = true := by
  unfold c0 at h
  split at h
  · rename_i hw
    exact ⟨List.mem_singleton.1 h, hw⟩
  · cases h

theorem arrangement_nil (hand : List Card) : Arrangement hand [] :=
  ⟨fun _ h => (by cases h), fun _ h => (by cases h), by simp⟩

end MeldSearch

open MeldSearch

/-! ## the C08 theorems, relative to `AllMeldsExact` -/

-- the C08 statements keep `hok` / `hlen` even where a proof does not use them
set_option linter.unusedVariables false

/-- every listed candidate is a legal arrangement of at most three melds within the limit -/
theorem candidates_sound_of (hand : List Card) (hok : HandOK hand) (hlen : hand.length ≤ 11)
    (hall : AllMeldsExact hand) (maxDw : Option Nat)
    (stop : Bool) (c : Candidate) (hc : c ∈ getCandidateMelds hand maxDw stop) :
    Arrangement hand c.melds ∧ c.melds.length ≤ 3 ∧ c.unmelded.Perm (restOf hand c.melds) ∧
    c.deadwood = deadwood c.unmelded ∧ (∀ d, maxDw = some d → c.deadwood ≤ d) := by
  rw [getCandidateMelds_eq] at hc
  cases hloop : candLoop hand maxDw stop (combos hand) (c0 hand maxDw) with
  | inl g =>
    rw [hloop] at hc
    obtain rfl := List.mem_singleton.1 hc
    obtain ⟨_, s, hs, hd, hz, rfl⟩ := candLoop_inl _ _ _ hloop
    obtain ⟨harr, hl3, hrest⟩ := combo_sound hall hs hd
    refine ⟨harr, hl3, ?_, rfl, fun d _ => Nat.zero_le d⟩
    rw [dwOf_eq] at hz
    have : restOf hand s = [] :=
      eq_nil_of_deadwood_eq_zero (fun c hc => hok.2 c (restOf_sub hand s c hc)) hz
    show List.Perm [] (restOf hand (s.map sortByRank))
    rw [hrest, this]
  | inr cs =>
    rw [hloop] at hc
    rcases candLoop_inr_sound _ _ _ hloop c hc with h0 | ⟨s, hs, hd, hw, rfl⟩
    · obtain ⟨rfl, hw⟩ := mem_c0 h0
      refine ⟨arrangement_nil hand, by simp, ?_, ?_, (within_iff _ _).1 hw⟩
      · show (sortByRank hand).Perm (restOf hand [])
        rw [restOf_nil]; exact sortByRank_perm hand
      · show deadwood hand = deadwood (sortByRank hand)
        exact (deadwood_perm (sortByRank_perm hand)).symm
    · obtain ⟨harr, hl3, hrest⟩ := combo_sound hall hs hd
      refine ⟨harr, hl3, ?_, rfl, (within_iff _ _).1 hw⟩
      show (sortByRank (removeMelded hand s)).Perm (restOf hand (s.map sortByRank))
      rw [hrest, removeMelded_eq_restOf]; exact sortByRank_perm _

/-- without the gin stop, every arrangement of at most three melds within the limit is listed (up to the order of
cards inside melds and of the melds) -/
theorem candidates_complete_of (hand : List Card) (hok : HandOK hand) (hlen : hand.length ≤ 11)
    (hall : AllMeldsExact hand) (maxDw : Option Nat)
    (ms : List (List Card)) (harr : Arrangement hand ms) (h3 : ms.length ≤ 3)
    (hd : ∀ d, maxDw = some d → deadwood (restOf hand ms) ≤ d) :
    ∃ c ∈ getCandidateMelds hand maxDw false, c.melds.length = ms.length ∧
      (∀ m ∈ ms, ∃ m' ∈ c.melds, m'.Perm m) ∧ c.deadwood = deadwood (restOf hand ms) := by
  rw [getCandidateMelds_eq]
  cases hloop : candLoop hand maxDw false (combos hand) (c0 hand maxDw) with
  | inl g =>
    have := (candLoop_inl _ _ _ hloop).1
    cases this
  | inr cs =>
    obtain ⟨hacc, hcomb, _⟩ := candLoop_inr_complete _ _ _ hloop
    by_cases hne : ms = []
    · subst hne
      rw [restOf_nil] at hd ⊢
      refine ⟨⟨deadwood hand, [], sortByRank hand⟩, hacc _ ?_, rfl, fun _ h => (by cases h), rfl⟩
      unfold c0
      rw [if_pos ((within_iff _ _).2 hd)]
      exact List.mem_singleton.2 rfl
    · obtain ⟨s, hs, hdj, hl, hrep, hflat⟩ := exists_combo hall harr hne h3
      have hdw : dwOf hand s = deadwood (restOf hand ms) := by
        rw [dwOf_eq, restOf_congr hand (fun c => hflat.mem_iff)]
      refine ⟨candOf hand s, hcomb s hs hdj ((within_iff _ _).2 (by rw [hdw]; exact hd)), ?_, ?_, hdw⟩
      · show (s.map sortByRank).length = ms.length
        rw [List.length_map, hl]
      · intro m hm
        obtain ⟨m', hm', hp⟩ := hrep m hm
        exact ⟨sortByRank m', List.mem_map.2 ⟨m', hm', rfl⟩, (sortByRank_perm m').trans hp⟩

/-- with the gin stop: if some arrangement of at most three melds has zero deadwood, the list is a single
zero-deadwood arrangement -/
theorem candidates_stop_on_gin_of (hand : List Card) (hok : HandOK hand) (hlen : hand.length ≤ 11)
    (hall : AllMeldsExact hand) (maxDw : Option Nat)
    (ms : List (List Card)) (harr : Arrangement hand ms) (h3 : ms.length ≤ 3) (hne : ms ≠ [])
    (hz : deadwood (restOf hand ms) = 0) :
    ∃ c, getCandidateMelds hand maxDw true = [c] ∧ c.deadwood = 0 := by
  rw [getCandidateMelds_eq]
  obtain ⟨s, hs, hdj, _, _, hflat⟩ := exists_combo hall harr hne h3
  have hdw : dwOf hand s = 0 := by
    rw [dwOf_eq, restOf_congr hand (fun c => hflat.mem_iff)]; exact hz
  cases hloop : candLoop hand maxDw true (combos hand) (c0 hand maxDw) with
  | inl g =>
    obtain ⟨_, s', _, _, _, rfl⟩ := candLoop_inl _ _ _ hloop
    exact ⟨_, rfl, rfl⟩
  | inr cs =>
    obtain ⟨_, _, hno⟩ := candLoop_inr_complete _ _ _ hloop
    exact absurd hdw (hno rfl s hs hdj)

/-- `split_melds` never fails -/
theorem split_total_thm (hand : List Card) : ∃ c, splitMelds hand = .ok c := by
  have hne : getCandidateMelds hand none true ≠ [] := by
    rw [getCandidateMelds_eq]
    cases hloop : candLoop hand none true (combos hand) (c0 hand none) with
    | inl g => simp
    | inr cs =>
      obtain ⟨hacc, _, _⟩ := candLoop_inr_complete _ _ _ hloop
      have : (⟨deadwood hand, [], sortByRank hand⟩ : Candidate) ∈ cs := hacc _ (by simp [c0, within])
      exact List.ne_nil_of_mem this
  obtain ⟨c, hc⟩ := minCandidate_isSome hne
  exact ⟨c, by simp [splitMelds, hc]⟩

theorem splitMelds_ok {hand : List Card} {c : Candidate} (h : splitMelds hand = .ok c) :
    minCandidate (getCandidateMelds hand none true) = some c := by
  unfold splitMelds at h
  split at h
  · rename_i c' hc'
    injection h with h
    rw [hc', h]
  · cases h

/-- the best split is a legal arrangement of the hand, the unmelded cards are exactly the rest, and the reported
deadwood is their pip total -/
theorem split_legal_of (hand : List Card) (hok : HandOK hand) (hlen : hand.length ≤ 11)
    (hall : AllMeldsExact hand) (c : Candidate)
    (h : splitMelds hand = .ok c) :
    Arrangement hand c.melds ∧ c.unmelded.Perm (restOf hand c.melds) ∧ c.deadwood = deadwood c.unmelded := by
  have hmem := (minCandidate_spec (splitMelds_ok h)).1
  obtain ⟨h1, _, h2, h3, _⟩ := candidates_sound_of hand hok hlen hall none true c hmem
  exact ⟨h1, h2, h3⟩

/-- **optimality**: no legal arrangement of the hand has lower deadwood -/
theorem split_optimal_of (hand : List Card) (hok : HandOK hand) (hlen : hand.length ≤ 11)
    (hall : AllMeldsExact hand) (c : Candidate)
    (h : splitMelds hand = .ok c) (ms : List (List Card)) (harr : Arrangement hand ms) :
    c.deadwood ≤ deadwood (restOf hand ms) := by
  obtain ⟨hmem, hmin⟩ := minCandidate_spec (splitMelds_ok h)
  have h3 := arrangement_length_le_three harr hlen
  rw [getCandidateMelds_eq] at hmem hmin
  cases hloop : candLoop hand none true (combos hand) (c0 hand none) with
  | inl g =>
    -- early exit: the single candidate has deadwood 0
    rw [hloop] at hmem
    obtain ⟨_, s', _, _, _, rfl⟩ := candLoop_inl _ _ _ hloop
    rw [List.mem_singleton.1 hmem]
    exact Nat.zero_le _
  | inr cs =>
    rw [hloop] at hmin
    obtain ⟨hacc, hcomb, _⟩ := candLoop_inr_complete _ _ _ hloop
    by_cases hne : ms = []
    · subst hne
      rw [restOf_nil]
      exact hmin ⟨deadwood hand, [], sortByRank hand⟩ (hacc _ (by simp [c0, within]))
    · obtain ⟨s, hs, hdj, _, _, hflat⟩ := exists_combo hall harr hne h3
      have hdw : dwOf hand s = deadwood (restOf hand ms) := by
        rw [dwOf_eq, restOf_congr hand (fun c => hflat.mem_iff)]
      have := hmin (candOf hand s) (hcomb s hs hdj rfl)
      rw [← hdw]; exact this

end CardVerif.Gin
