import CardVerif.Props.C08b
/-! # C08b: non-vacuity examples (kernel-evaluated) -/

/-! ## non-vacuity: a concrete hand with overlapping melds -/
namespace CardVerif.C08.Audit
open CardVerif CardVerif.Gin CardVerif.C08

instance (a b : List (List Card)) : Decidable (SameArrangement a b) := by
  unfold SameArrangement; infer_instance

/-- 5c 5d 5h 5s 6s 7s 8s: four 3-sets and the 4-set of fives, the runs 5-6-7, 6-7-8 and 5-6-7-8 of spades, all
through the 5s -/
def h7 : List Card := [⟨5, 0⟩, ⟨5, 1⟩, ⟨5, 2⟩, ⟨5, 3⟩, ⟨6, 3⟩, ⟨7, 3⟩, ⟨8, 3⟩]

/-- the same with the king of clubs: no gin arrangement any more -/
def h8 : List Card := h7 ++ [⟨13, 0⟩]

example : HandOK h7 ∧ h7.length ≤ 11 ∧ HandOK h8 ∧ h8.length ≤ 11 := by
  unfold HandOK Card.Valid; decide

/-- 16 candidates (the empty arrangement, 8 single melds, 7 disjoint pairs), pairwise different arrangements -/
example : (getCandidateMelds h7 none false).length = 16 ∧ 4 ≤ (getCandidateMelds h7 none false).length ∧
    (getCandidateMelds h7 none false).Pairwise (fun a b => ¬ SameArrangement a.melds b.melds) := by
  decide +kernel

/-- the limit is effective: 7 of them leave at most 10 points -/
example : (getCandidateMelds h7 (some 10) false).length = 7 := by decide +kernel

/-- `h7` has a gin arrangement, so the hypothesis of `candidates_stop_no_gin` is needed: with the stop the list is
one candidate, without it sixteen -/
example : (getCandidateMelds h7 none true).length = 1 ∧
    getCandidateMelds h7 none true ≠ getCandidateMelds h7 none false := by decide +kernel

/-- `h8` has none: the two lists coincide, and every candidate has positive deadwood -/
example : getCandidateMelds h8 none true = getCandidateMelds h8 none false ∧
    (getCandidateMelds h8 none false).length = 16 ∧
    ∀ c ∈ getCandidateMelds h8 none false, 0 < c.deadwood := by decide +kernel

/-- the empty hand: the no-meld candidate has zero deadwood, and still the stop changes nothing (the early exit
is only taken on a combo of one to three melds) -/
example : getCandidateMelds [] none true = [⟨0, [], []⟩] ∧
    getCandidateMelds [] none true = getCandidateMelds [] none false := by decide +kernel

end CardVerif.C08.Audit
