import CardVerif.Proofs.GinInv
import CardVerif.Proofs.MeldSearch
/-!
# Gin turn protocol (C10): totality of the deadwood computations and "accepted iff allowed"

* §1 generic `Except` list lemmas (`mapM`, `foldlM`);
* §2 `splitSetsRuns` succeeds exactly on lists of melds that are single-suit or single-rank (`splitSetsRuns_ok_iff`);
* §3 `layoffDeadwood` succeeds exactly when `splitSetsRuns` does (`layoffDeadwood_ok_iff`);
* §4 `handPoints` never fails on a hand that does not have eight cards (`handPoints_total`);
* §5 `getDeadwood` per variant;
* §6 accepted iff allowed, and the transition lemmas, over the invariant `GInv`.
-/
namespace CardVerif.Gin
open CardVerif

/-! ## §1 generic lemmas -/

theorem mapM_ok_iff {ε α β : Type} (f : α → Except ε β) (l : List α) :
    (∃ ys, l.mapM f = .ok ys) ↔ ∀ x ∈ l, ∃ y, f x = .ok y := by
  induction l with
  | nil => simp [pure, Except.pure]
  | cons x l ih =>
    rw [List.mapM_cons]
    cases hx : f x with
    | error e => simp [bind, Except.bind, hx]
    | ok y =>
      cases hl : l.mapM f with
      | error e =>
        rw [hl] at ih
        have : ¬ ∀ x ∈ l, ∃ y, f x = .ok y := fun h => by simpa using ih.2 h
        simp only [bind, Except.bind, List.mem_cons, forall_eq_or_imp]
        constructor
        · rintro ⟨ys, h⟩; cases h
        · rintro ⟨-, h⟩; exact absurd h this
      | ok ys =>
        rw [hl] at ih
        have : ∀ x ∈ l, ∃ y, f x = .ok y := ih.1 ⟨ys, rfl⟩
        simp only [bind, Except.bind, pure, Except.pure, List.mem_cons, forall_eq_or_imp]
        exact ⟨fun _ => ⟨⟨y, hx⟩, this⟩, fun _ => ⟨_, rfl⟩⟩

theorem foldlM_total {ε α β : Type} (f : β → α → Except ε β) (h : ∀ b a, ∃ b', f b a = .ok b') (l : List α)
    (b : β) : ∃ b', l.foldlM f b = .ok b' := by
  induction l generalizing b with
  | nil => exact ⟨b, rfl⟩
  | cons a l ih =>
    obtain ⟨b1, h1⟩ := h b a
    obtain ⟨b2, h2⟩ := ih b1
    exact ⟨b2, by rw [List.foldlM_cons, h1]; exact h2⟩

theorem dedupFirst_foldl_mem {α : Type} [DecidableEq α] (l acc : List α) (x : α)
    (h : x ∈ l.foldl (fun acc x => if x ∈ acc then acc else acc ++ [x]) acc) : x ∈ acc ∨ x ∈ l := by
  induction l generalizing acc with
  | nil => exact .inl h
  | cons y ys ih =>
    rw [List.foldl_cons] at h
    rcases ih _ h with h' | h'
    · split at h'
      · exact .inl h'
      · rcases List.mem_append.1 h' with h' | h'
        · exact .inl h'
        · exact .inr (by rw [List.mem_singleton.1 h']; exact List.mem_cons_self)
    · exact .inr (List.mem_cons_of_mem _ h')

theorem mem_of_mem_dedupFirst {α : Type} [DecidableEq α] {l : List α} {x : α} (h : x ∈ dedupFirst l) : x ∈ l := by
  rcases dedupFirst_foldl_mem l [] x h with h | h
  · cases h
  · exact h

/-! ## §2 `splitSetsRuns` -/

/-- a single-suit meld read as a run: `(suit, (low value, high value))` -/
def classifyRun (suit : Nat) (ranks : List Nat) : Except Err (Sum (Nat × Nat) (Nat × (Nat × Nat))) :=
  let sorted := sortBy (fun a b => decide (lowValue a ≤ lowValue b)) ranks
  match sorted.head?, sorted.getLast? with
  | some lo, some hi =>
    if lo == 14 && hi == 13 then
      match sorted.tail.head? with
      | some lo' => .ok (Sum.inr (suit, (lowValue lo', 14)))
      | none => .error .indexError
    else .ok (Sum.inr (suit, (lowValue lo, if hi == 14 then 14 else hi)))
  | _, _ => .error .indexError

/-- the per-meld step of `_split_sets_runs` -/
def classify (meld : List Card) : Except Err (Sum (Nat × Nat) (Nat × (Nat × Nat))) :=
  match suitPartition meld with
  | [(suit, ranks)] => classifyRun suit ranks
  | _ =>
    match rankPartition meld with
    | [(rank, suits)] => .ok (Sum.inl (rank, suits.length))
    | _ => .error .invalidMeld

theorem splitSetsRuns_eq (melds : List (List Card)) :
    splitSetsRuns melds = (melds.mapM classify >>= fun classified =>
      let sets := classified.filterMap fun c => match c with
        | .inl (r, k) => if k == 3 then some r else none
        | .inr _ => none
      let runs := classified.filterMap fun c => match c with | .inr x => some x | .inl _ => none
      let suits := dedupFirst (runs.map (·.1))
      .ok (sortBy (fun a b => decide (rankChar a ≤ rankChar b)) sets,
           suits.map fun s => (s, (runs.filter (·.1 == s)).map (·.2)))) := rfl

theorem splitSetsRuns_ok_iff_mapM (melds : List (List Card)) :
    (∃ r, splitSetsRuns melds = .ok r) ↔ ∃ cl, melds.mapM classify = .ok cl := by
  rw [splitSetsRuns_eq]
  cases melds.mapM classify with
  | error e => simp [bind, Except.bind]
  | ok cl => simp [bind, Except.bind]

/-- every entry of the suit partition lists at least one rank -/
theorem suitPartition_snd_ne_nil {m : List Card} {e : Nat × List Nat} (h : e ∈ suitPartition m) : e.2 ≠ [] := by
  unfold suitPartition at h
  obtain ⟨s, hs, rfl⟩ := List.mem_map.1 h
  obtain ⟨c, hc, rfl⟩ := List.mem_map.1 (mem_of_mem_dedupFirst hs)
  have : c.rank ∈ (m.filter (·.suit == c.suit)).map (·.rank) :=
    List.mem_map.2 ⟨c, List.mem_filter.2 ⟨hc, by simp⟩, rfl⟩
  exact List.ne_nil_of_mem this

theorem classifyRun_ok (suit : Nat) {ranks : List Nat} (h : ranks ≠ []) : ∃ x, classifyRun suit ranks = .ok x := by
  unfold classifyRun
  have hlen := (MeldSearch.sortBy_perm (fun a b => decide (lowValue a ≤ lowValue b)) ranks).length_eq
  rcases hs : sortBy (fun a b => decide (lowValue a ≤ lowValue b)) ranks with _ | ⟨a, _ | ⟨b, t⟩⟩
  · rw [hs] at hlen
    exact absurd (List.length_eq_zero_iff.1 hlen.symm) h
  · by_cases ha : a = 14 <;> simp [ha]
  · simp only [List.head?_cons, List.tail_cons]
    cases hl : (a :: b :: t).getLast? with
    | none => simp at hl
    | some hi =>
      simp only []
      split <;> exact ⟨_, rfl⟩

/-- a meld is classified iff it is single-suit or (failing that) single-rank -/
theorem classify_ok_iff (m : List Card) :
    (∃ x, classify m = .ok x) ↔ (suitPartition m).length = 1 ∨ (rankPartition m).length = 1 := by
  unfold classify
  have hrp : (∃ x, (match rankPartition m with
      | [(rank, suits)] => (.ok (Sum.inl (rank, suits.length)) : Except Err (Sum (Nat × Nat) (Nat × (Nat × Nat))))
      | _ => .error .invalidMeld) = .ok x) ↔ (rankPartition m).length = 1 := by
    rcases rankPartition m with _ | ⟨⟨r, ss⟩, _ | ⟨e2, t⟩⟩ <;> simp
  rcases hsp : suitPartition m with _ | ⟨⟨s, rs⟩, _ | ⟨e2, t⟩⟩
  · simpa using hrp
  · have hne : rs ≠ [] := suitPartition_snd_ne_nil (m := m) (e := (s, rs)) (by rw [hsp]; exact List.mem_cons_self)
    simpa using classifyRun_ok s hne
  · simpa using hrp

/-- **`_split_sets_runs` succeeds exactly when every meld is single-suit or single-rank** -/
theorem splitSetsRuns_ok_iff (om : List (List Card)) :
    (∀ m ∈ om, (suitPartition m).length = 1 ∨ (rankPartition m).length = 1) ↔ ∃ r, splitSetsRuns om = .ok r := by
  rw [splitSetsRuns_ok_iff_mapM, mapM_ok_iff]
  exact forall_congr' fun m => imp_congr_right fun _ => (classify_ok_iff m).symm

/-! ## §3 `layoffDeadwood` -/

/-- the candidate list of the meld search is never empty (the no-meld arrangement is always there) -/
theorem getCandidateMelds_ne_nil (hand : List Card) : getCandidateMelds hand none true ≠ [] := by
  rw [MeldSearch.getCandidateMelds_eq]
  cases hloop : candLoop hand none true (MeldSearch.combos hand) (MeldSearch.c0 hand none) with
  | inl g => simp
  | inr cs =>
    obtain ⟨hacc, _, _⟩ := MeldSearch.candLoop_inr_complete _ _ _ hloop
    have : (⟨deadwood hand, [], sortByRank hand⟩ : Candidate) ∈ cs :=
      hacc _ (by simp [MeldSearch.c0, MeldSearch.within])
    exact List.ne_nil_of_mem this

theorem nil_mem_powerset {α : Type} (l : List α) : [] ∈ powerset l := by
  unfold powerset
  rw [List.mem_flatMap]
  exact ⟨0, by simp, by simp [combinations]⟩

/-- there is always a lay-off candidate: any own arrangement with nothing laid off -/
theorem layoffCandidates_ne_nil (hand : List Card) (sets : List Nat) (runs : List (Nat × List (Nat × Nat))) :
    layoffCandidates hand sets runs ≠ [] := by
  obtain ⟨cand, hc⟩ := List.exists_mem_of_ne_nil _ (getCandidateMelds_ne_nil hand)
  intro h
  unfold layoffCandidates at h
  rw [List.flatMap_eq_nil_iff] at h
  have h1 := h cand hc
  simp only [List.flatMap_eq_nil_iff] at h1
  have h2 := h1 [] (nil_mem_powerset _)
  rw [List.map_eq_nil_iff] at h2
  exact List.ne_nil_of_mem (nil_mem_powerset _) h2

/-- **`layoff_deadwood` fails only through `_split_sets_runs`** -/
theorem layoffDeadwood_ok_iff (hand : List Card) (om : List (List Card)) (stop : Bool) :
    (∃ r, layoffDeadwood hand om stop = .ok r) ↔ ∃ sr, splitSetsRuns om = .ok sr := by
  unfold layoffDeadwood
  cases hsr : splitSetsRuns om with
  | error e => simp [bind, Except.bind]
  | ok sr =>
    obtain ⟨sets, runs⟩ := sr
    simp only [bind, Except.bind, Except.ok.injEq, exists_eq', iff_true]
    split
    · exact ⟨_, rfl⟩
    · split
      · rename_i h; exact absurd h (layoffCandidates_ne_nil hand sets runs)
      · exact ⟨_, rfl⟩

/-! ## §4 gin ricky: `handPoints` -/

theorem rickyValue_ok {n : Nat} (h : n ≠ 8) (cards : List Card) : rickyValue n cards = .ok (rickyPoints cards) := by
  simp [rickyValue, h]

theorem sortedHandPoints_total {hand : List Card} (h : hand.length ≠ 8) : ∃ r, sortedHandPoints hand = .ok r := by
  unfold sortedHandPoints
  simp only [rickyValue_ok h, bind, Except.bind, pure, Except.pure]
  split
  · exact ⟨_, rfl⟩
  · split
    · exact ⟨_, rfl⟩
    · apply foldlM_total
      intro b a
      split <;> exact ⟨_, rfl⟩

/-- **`hand_points` never fails on a hand that does not have exactly eight cards** (seven after a discard) -/
theorem handPoints_total {hand : List Card} (h : hand.length ≠ 8) : ∃ p, handPoints hand = .ok p := by
  obtain ⟨⟨s, p⟩, hr⟩ := sortedHandPoints_total h
  exact ⟨p, by simp [handPoints, hr, bind, Except.bind, pure, Except.pure]⟩

/-! ## §5 `getDeadwood` per variant -/

/-- gin rummy, own hand, no melds given: the best split -/
theorem getDeadwood_rummy_split (hand : List Card) :
    ∃ c, splitMelds hand = .ok c ∧ getDeadwood .rummy hand none none = .ok (c.deadwood : Int) := by
  obtain ⟨c, hc⟩ := split_total_thm hand
  exact ⟨c, hc, by simp [getDeadwood, hc, bind, Except.bind, pure, Except.pure]⟩

/-- gin rummy: the knocker's own deadwood is always computable -/
theorem getDeadwood_rummy_own_total (hand : List Card) (ms : Option (List (List Card))) :
    ∃ a, getDeadwood .rummy hand ms none = .ok a := by
  cases ms with
  | none => obtain ⟨c, _, h⟩ := getDeadwood_rummy_split hand; exact ⟨_, h⟩
  | some l => exact ⟨_, rfl⟩

/-- gin rummy: the opponent's deadwood after lay-offs is computable iff the knocker's melds are single-suit or
single-rank -/
theorem getDeadwood_rummy_opp_ok_iff (hand : List Card) (ms : Option (List (List Card))) :
    (∃ b, getDeadwood .rummy hand none ms = .ok b) ↔
      ∀ l, ms = some l → ∀ m ∈ l, (suitPartition m).length = 1 ∨ (rankPartition m).length = 1 := by
  cases ms with
  | none =>
    obtain ⟨c, _, h⟩ := getDeadwood_rummy_split hand
    simp only [reduceCtorEq, false_implies, implies_true, iff_true]
    exact ⟨_, h⟩
  | some l =>
    simp only [Option.some.injEq, forall_eq']
    rw [splitSetsRuns_ok_iff, ← layoffDeadwood_ok_iff hand l true]
    show (∃ b, (layoffDeadwood hand l true >>= fun r => pure (r.deadwood : Int)) = .ok b) ↔ _
    cases layoffDeadwood hand l true <;> simp [bind, Except.bind, pure, Except.pure]

/-- gin ricky: the points of a hand that does not have eight cards are always computable -/
theorem getDeadwood_ricky_total {hand : List Card} (h : hand.length ≠ 8) (ms om : Option (List (List Card))) :
    ∃ p, getDeadwood .ricky hand ms om = .ok p := by
  obtain ⟨p, hp⟩ := handPoints_total h
  exact ⟨p, by simp [getDeadwood, hp, bind, Except.bind, pure, Except.pure]⟩

/-! ## §6 the protocol over the invariant -/

section
variable {g0 g : GState}

/-- the mover's hand at a discard turn has one card more than dealt, the other hand exactly the dealt number -/
theorem Live.discard_lens (hl : Live g) (ht : g.turn.isDiscard = true) :
    (g.handOf g.turn.owner).length = g.params.cardsDealt + 1 ∧
    (g.handOf (!g.turn.owner)).length = g.params.cardsDealt := by
  have h1 := hl.p1_len
  have h2 := hl.p2_len
  cases hT : g.turn <;> simp_all [Turn.isDiscard, Turn.owner, GState.handOf]

theorem GInv.handOf_nodup (hi : GInv g0 g) (p : Bool) : (g.handOf p).Nodup := by
  cases p
  · exact hi.p2_nodup
  · exact hi.p1_nodup

/-- the deadwood computations of a discard never fail in a reachable state -/
theorem GInv.discard_deadwood_total (hi : GInv g0 g) (hl : Live g) (ht : g.turn.isDiscard = true) {c : Card}
    (hmem : c ∈ g.handOf g.turn.owner) :
    (∃ dw, getDeadwood g.params.variant ((g.handOf g.turn.owner).filter (· != c)) none none = .ok dw) ∧
    (∃ dw, getDeadwood g.params.variant (g.handOf (!g.turn.owner)) none none = .ok dw) := by
  obtain ⟨hlen, hopp⟩ := hl.discard_lens ht
  have hf := length_filter_bne (hi.handOf_nodup g.turn.owner) hmem
  rcases hi.params_cases with ⟨hv, hcd, -, -⟩ | ⟨hv, hcd, -, -⟩
  · rw [hv]
    exact ⟨getDeadwood_rummy_own_total _ none, getDeadwood_rummy_own_total _ none⟩
  · rw [hv]
    exact ⟨getDeadwood_ricky_total (by omega) _ _, getDeadwood_ricky_total (by omega) _ _⟩

/-- **accepted iff allowed**, for every in-progress state satisfying the invariant -/
theorem GInv.accept_iff_allowed (shuffle : List Card → List Card) (hi : GInv g0 g) (hc : g.complete = false)
    (m : Move) : (∃ g', g.apply shuffle m = .ok g') ↔ Allowed g m := by
  have hl := hi.live hc
  have hndd := hl.no_draw_from_deck
  cases m with
  | pass =>
    show (∃ g', g.firstTurnPass = .ok g') ↔ g.turn.isFirstDraw = true
    constructor
    · rintro ⟨g', h⟩; exact (firstTurnPass_ok.1 h).1
    · intro ht
      by_cases hft : g.firstTurn = oppDrawsFirst g.turn.owner
      · have hnd : g.turn.isDiscard = false ∧ g.turn.isKnock = false := by
          cases hT : g.turn <;> simp_all [Turn.isFirstDraw, Turn.isDiscard, Turn.isKnock]
        have hst := hl.stock hnd.1 hnd.2
        obtain ⟨c, rest, hd⟩ := List.exists_cons_of_length_pos (Nat.lt_of_le_of_lt (Nat.zero_le _) hst)
        exact ⟨_, firstTurnPass_ok.2 ⟨ht, .inr ⟨hft, c, rest, hd, rfl⟩⟩⟩
      · exact ⟨_, firstTurnPass_ok.2 ⟨ht, .inl ⟨hft, rfl⟩⟩⟩
  | draw d =>
    cases d with
    | true =>
      show (∃ g', g.drawCard true = .ok g') ↔ (g.turn.isFirstDraw = true ∨ g.turn.isDraw = true) ∧ g.discard ≠ []
      constructor
      · rintro ⟨g', h⟩
        obtain ⟨c, rest, ht, -, -, hdisc, -⟩ := drawCard_true_ok.1 h
        refine ⟨?_, by rw [hdisc]; simp⟩
        cases hT : g.turn <;> simp_all [Turn.isDraw, Turn.isFirstDraw, Turn.isDrawFromDeck]
      · rintro ⟨ht, hne⟩
        obtain ⟨rest, c, hdisc⟩ := (List.eq_nil_or_concat g.discard).resolve_left hne
        rw [List.concat_eq_append] at hdisc
        have hnd : g.turn.isDiscard = false := by
          cases hT : g.turn <;> simp_all [Turn.isDraw, Turn.isFirstDraw, Turn.isDiscard]
        have hlens := hl.lens hnd
        refine ⟨_, drawCard_true_ok.2 ⟨c, rest, ?_, fun _ => hlens.1, fun _ => hlens.2, hdisc, rfl⟩⟩
        cases hT : g.turn <;> simp_all [Turn.isDraw, Turn.isFirstDraw, Turn.isDrawFromDeck]
    | false =>
      show (∃ g', g.drawCard false = .ok g') ↔ g.turn.isDraw = true ∧ g.deck ≠ []
      constructor
      · rintro ⟨g', h⟩
        obtain ⟨c, rest, ht, -, -, hdeck, -⟩ := drawCard_false_ok.1 h
        refine ⟨?_, by rw [hdeck]; simp⟩
        cases hT : g.turn <;> simp_all [Turn.isDraw, Turn.isDrawFromDeck]
      · rintro ⟨ht, hne⟩
        obtain ⟨c, rest, hdeck⟩ := List.exists_cons_of_ne_nil hne
        have hnd : g.turn.isDiscard = false := by
          cases hT : g.turn <;> simp_all [Turn.isDraw, Turn.isDiscard]
        have hlens := hl.lens hnd
        exact ⟨_, drawCard_false_ok.2 ⟨c, rest, by simp [ht], fun _ => hlens.1, fun _ => hlens.2, hdeck, rfl⟩⟩
  | discard c =>
    show (∃ g', g.discardCard shuffle c = .ok g') ↔ g.turn.isDiscard = true ∧ c ∈ g.handOf g.turn.owner
    constructor
    · rintro ⟨g', h⟩
      obtain ⟨h1, -, h3, -⟩ := discardCard_ok.1 h
      exact ⟨h1, h3⟩
    · rintro ⟨ht, hmem⟩
      obtain ⟨hlen, -⟩ := hl.discard_lens ht
      obtain ⟨⟨dw, hdw⟩, ⟨odw, hodw⟩⟩ := hi.discard_deadwood_total hl ht hmem
      by_cases h0 : dw = 0
      · exact ⟨_, discardCard_ok.2 ⟨ht, hlen, hmem, dw, hdw, .inr ⟨h0, odw, hodw, rfl⟩⟩⟩
      · exact ⟨_, discardCard_ok.2 ⟨ht, hlen, hmem, dw, hdw, .inl ⟨h0, rfl⟩⟩⟩
  | knock k ms =>
    show (∃ g', g.decideKnock shuffle k ms = .ok g') ↔ g.turn.isKnock = true ∧
      (k = true → ∀ l, ms = some l → ∀ m ∈ l, (suitPartition m).length = 1 ∨ (rankPartition m).length = 1)
    constructor
    · rintro ⟨g', h⟩
      obtain ⟨ht, hrest⟩ := decideKnock_ok.1 h
      refine ⟨ht, ?_⟩
      have hv := hl.knock_rummy ht
      rintro rfl
      rcases hrest with ⟨hk, -⟩ | ⟨-, a, b, -, hb, -⟩
      · cases hk
      · rw [hv] at hb
        exact (getDeadwood_rummy_opp_ok_iff _ _).1 ⟨b, hb⟩
    · rintro ⟨ht, hk⟩
      have hv := hl.knock_rummy ht
      cases k with
      | false =>
        cases hw : (g.checkWall shuffle).1
        · exact ⟨_, decideKnock_ok.2 ⟨ht, .inl ⟨rfl, .inr ⟨hw, hv, rfl⟩⟩⟩⟩
        · exact ⟨_, decideKnock_ok.2 ⟨ht, .inl ⟨rfl, .inl ⟨hw, rfl⟩⟩⟩⟩
      | true =>
        obtain ⟨a, ha⟩ := getDeadwood_rummy_own_total (g.handOf g.turn.owner) ms
        obtain ⟨b, hb⟩ := (getDeadwood_rummy_opp_ok_iff (g.handOf (!g.turn.owner)) ms).2 (hk rfl)
        exact ⟨_, decideKnock_ok.2 ⟨ht, .inr ⟨rfl, a, b, by rw [hv]; exact ha, by rw [hv]; exact hb, rfl⟩⟩⟩

/-- on first-draw turns: the turn differs from the first turn exactly when the first player passed already -/
theorem firstDraw_eq_iff {t ft : Turn} (ht : t.isFirstDraw = true) (hf : ft.isFirstDraw = true) :
    ft = oppDrawsFirst t.owner ↔ t ≠ ft := by
  cases t <;> cases ft <;> simp_all [Turn.isFirstDraw, oppDrawsFirst, Turn.owner]

/-- a pass, read off `firstTurnPass_ok` -/
theorem GInv.pass_next (hi : GInv g0 g) (hc : g.complete = false) {g' : GState} (hp : g.firstTurnPass = .ok g') :
    g'.complete = false ∧ g'.turns = g.turns + 1 ∧
    (g.turn = g.firstTurn → g'.turn = oppDrawsFirst g.turn.owner ∧ g'.deck = g.deck ∧ g'.p1 = g.p1 ∧ g'.p2 = g.p2) ∧
    (g.turn ≠ g.firstTurn → g'.turn = ownDiscards g.firstTurn.owner ∧
        ∃ c rest, g.deck = c :: rest ∧ g'.deck = rest ∧
          g'.handOf g.firstTurn.owner = g.handOf g.firstTurn.owner ++ [c]) := by
  have hfd : g.firstTurn.isFirstDraw = true := by rw [hi.firstTurn]; exact hi.first_draw
  obtain ⟨ht, ⟨hft, rfl⟩ | ⟨hft, c, rest, hdeck, rfl⟩⟩ := firstTurnPass_ok.1 hp
  · exact ⟨hc, rfl, fun _ => ⟨rfl, rfl, rfl, rfl⟩, fun hne => absurd ((firstDraw_eq_iff ht hfd).2 hne) hft⟩
  · have ho : g.firstTurn.owner = !g.turn.owner := by rw [hft]; cases g.turn.owner <;> rfl
    refine ⟨hc, rfl, fun he => absurd he ((firstDraw_eq_iff ht hfd).1 hft), fun _ => ⟨?_, c, rest, hdeck, rfl, ?_⟩⟩
    · rw [ho]
    · rw [ho]; cases g.turn.owner <;> rfl

/-- a draw is followed by the drawer's discard -/
theorem draw_next_of_ok (hc : g.complete = false) {g' : GState} {d : Bool} (hp : g.drawCard d = .ok g') :
    g'.complete = false ∧ g'.turn = ownDiscards g.turn.owner := by
  cases d
  · obtain ⟨c, rest, -, -, -, -, rfl⟩ := drawCard_false_ok.1 hp; exact ⟨hc, rfl⟩
  · obtain ⟨c, rest, -, -, -, -, rfl⟩ := drawCard_true_ok.1 hp; exact ⟨hc, rfl⟩

/-- the turn after an accepted discard is `discardTurn` of the deadwood left -/
theorem discard_next_of_ok {shuffle : List Card → List Card} {g' : GState} {c : Card}
    (hp : g.discardCard shuffle c = .ok g') :
    ∃ dw, getDeadwood g.params.variant ((g.handOf g.turn.owner).filter (· != c)) none none = .ok dw ∧
      g'.turn = discardTurn g.params.variant g.turn dw := by
  obtain ⟨-, -, -, dw, hdw, ⟨-, rfl⟩ | ⟨-, oppDw, -, rfl⟩⟩ := discardCard_ok.1 hp
  · exact ⟨dw, hdw, by simp⟩
  · exact ⟨dw, hdw, by simp⟩

/-- a declined knock that leaves the game in progress hands the draw to the opponent -/
theorem decline_next_of_ok {shuffle : List Card → List Card} {g' : GState} {ms : Option (List (List Card))}
    (hp : g.decideKnock shuffle false ms = .ok g') (hc' : g'.complete = false) : g'.turn = oppDraws g.turn.owner := by
  obtain ⟨-, ⟨-, ⟨hw, rfl⟩ | ⟨-, -, rfl⟩⟩ | ⟨hk, -⟩⟩ := decideKnock_ok.1 hp
  · rw [checkWall_complete, hw, Bool.or_true] at hc'; cases hc'
  · rfl
  · cases hk
end

end CardVerif.Gin
