import CardModel.Spec.OmahaTables
/-! # C06 — suit-free Omaha table, module 10 of 15 (compiled evaluation, `native_decide`; 416 board multisets × 1,820 hand multisets)

`tabR_a_blo_bhi`: the table holds on the ascending boards whose lowest value is `a` and whose second value lies in `[blo, bhi]`. -/
namespace CardVerif.OmahaD

/-- 220 boards -/
theorem tabR_2_5_5 : tableRc 2 5 5 = true := by native_decide

/-- 70 boards -/
theorem tabR_10_10_14 : tableRc 10 10 14 = true := by native_decide

/-- 70 boards -/
theorem tabR_4_10_14 : tableRc 4 10 14 = true := by native_decide

/-- 56 boards -/
theorem tabR_5_9_9 : tableRc 5 9 9 = true := by native_decide

end CardVerif.OmahaD
