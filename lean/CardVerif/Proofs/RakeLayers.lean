import CardModel.Spec.RakeLayers
import CardVerif.Proofs.Rake
/-!
# Helper lemmas for C14b: `rakeLoop` against the layer-by-layer specification `RakeSpec`

* `rl_getI_rakeLoop`, `rl_sumI_rakeLoop`: the loop started from any rake vector adds, per seat, the
  charges of the layers that seat reaches, where the specification is started from the NUMBER `sumI rake`;
* `rl_layerCharges_id`: in exact arithmetic the rounding, `pyInt` and the `left = 0` test disappear.
-/
namespace CardVerif.Pot
open CardVerif CardVerif.RakeSpec

/-- the sum of the charges of the layers whose top is at most `b` -/
def rl_seatSum (b : Int) (cs : List (Int × Int)) : Int :=
  sumI ((cs.filter fun (L, _) => decide (L ≤ b)).map fun (_, r) => r)

/-- the total of `contributors * charge` -/
def rl_totalSum (bal : List Int) (cs : List (Int × Int)) : Int :=
  sumI (cs.map fun (L, r) => (contributors bal L : Int) * r)

@[simp] theorem rl_seatSum_nil (b : Int) : rl_seatSum b [] = 0 := rfl

theorem rl_seatSum_cons (b L r : Int) (cs : List (Int × Int)) :
    rl_seatSum b ((L, r) :: cs) = (if L ≤ b then r else 0) + rl_seatSum b cs := by
  unfold rl_seatSum
  by_cases h : L ≤ b <;> simp [h]

@[simp] theorem rl_totalSum_nil (bal : List Int) : rl_totalSum bal [] = 0 := rfl

theorem rl_totalSum_cons (bal : List Int) (L r : Int) (cs : List (Int × Int)) :
    rl_totalSum bal ((L, r) :: cs) = (contributors bal L : Int) * r + rl_totalSum bal cs := by
  simp [rl_totalSum]

theorem rl_heightsFrom : ∀ (lv : List Int) (prev : Int), heightsFrom prev lv = pairsFrom prev lv
  | [], _ => rfl
  | L :: Ls, prev => by simp [heightsFrom, pairsFrom, rl_heightsFrom Ls L]

theorem rl_contributors (bal : List Int) (L : Int) : contributors bal L = nAt bal L := by
  unfold contributors nAt
  induction bal with
  | nil => rfl
  | cons b bal ih =>
    by_cases h : L ≤ b <;> simp [h] at ih ⊢ <;> exact ih

theorem rl_layerCharge_of_ne (fl : Rat → Rat) (cfg : RakeCfg) (bal : List Int) (mtr : Rat)
    (L h : Int) (rake : List Int) (hne : fl (mtr - ((sumI rake : Int) : Rat)) ≠ 0) :
    layerCharge fl cfg mtr (nAt bal L) h (sumI rake) = charge fl cfg bal mtr L h rake := by
  unfold layerCharge charge
  simp only [if_neg hne]

theorem rl_layerCharge_of_eq (fl : Rat → Rat) (cfg : RakeCfg) (mtr : Rat) (k : Nat) (h c : Int)
    (h0 : fl (mtr - (c : Rat)) = 0) : layerCharge fl cfg mtr k h c = 0 := by
  unfold layerCharge
  simp only [if_pos h0]

/-- the early exit: once nothing is left under the cap every remaining layer charges `0` -/
theorem rl_stop (fl : Rat → Rat) (cfg : RakeCfg) (bal : List Int) (mtr : Rat) :
    ∀ (layers : List (Int × Int)) (c : Int), fl (mtr - (c : Rat)) = 0 →
      ∀ Lr ∈ layerCharges fl cfg bal mtr layers c, Lr.2 = 0
  | [], _, _, Lr, h => by simp [layerCharges] at h
  | (L, h) :: rest, c, h0, Lr, hm => by
    have hr := rl_layerCharge_of_eq fl cfg mtr (contributors bal L) h c h0
    simp only [layerCharges, hr, Int.mul_zero, Int.add_zero, List.mem_cons] at hm
    rcases hm with rfl | hm
    · rfl
    · exact rl_stop fl cfg bal mtr rest c h0 Lr hm

theorem rl_seatSum_zero (b : Int) : ∀ cs : List (Int × Int), (∀ Lr ∈ cs, Lr.2 = 0) → rl_seatSum b cs = 0
  | [], _ => rfl
  | (L, r) :: cs, h => by
    have hr : r = 0 := h (L, r) (by simp)
    have := rl_seatSum_zero b cs fun Lr hm => h Lr (by simp [hm])
    rw [rl_seatSum_cons, this, hr]; simp

theorem rl_totalSum_zero (bal : List Int) :
    ∀ cs : List (Int × Int), (∀ Lr ∈ cs, Lr.2 = 0) → rl_totalSum bal cs = 0
  | [], _ => rfl
  | (L, r) :: cs, h => by
    have hr : r = 0 := h (L, r) (by simp)
    have := rl_totalSum_zero bal cs fun Lr hm => h Lr (by simp [hm])
    rw [rl_totalSum_cons, this, hr]; simp

/-- per seat: the loop adds the charges of the layers the seat reaches -/
theorem rl_getI_rakeLoop (fl : Rat → Rat) (cfg : RakeCfg) (bal : List Int) (mtr : Rat) (p : Nat)
    (hp : p < bal.length) :
    ∀ (pairs : List (Int × Int)) (rake : List Int), rake.length = bal.length →
      getI (rakeLoop fl cfg bal mtr pairs rake) p =
        getI rake p + rl_seatSum (getI bal p) (layerCharges fl cfg bal mtr pairs (sumI rake))
  | [], rake, _ => by simp [rakeLoop, layerCharges]
  | (L, h) :: rest, rake, hl => by
    rw [rakeLoop_cons]
    split
    · rename_i h0
      rw [rl_seatSum_zero _ _ (rl_stop fl cfg bal mtr _ _ h0)]; simp
    · rename_i hne
      rw [rl_getI_rakeLoop fl cfg bal mtr p hp rest _ (length_stepRake _ _ rake bal hl),
        getI_stepRake _ _ rake bal p hl hp, sumI_stepRake _ _ rake bal hl]
      simp only [layerCharges, rl_seatSum_cons, rl_contributors,
        rl_layerCharge_of_ne fl cfg bal mtr L h rake hne]
      split <;> omega

/-- in total: the loop adds `contributors * charge` of every layer -/
theorem rl_sumI_rakeLoop (fl : Rat → Rat) (cfg : RakeCfg) (bal : List Int) (mtr : Rat) :
    ∀ (pairs : List (Int × Int)) (rake : List Int), rake.length = bal.length →
      sumI (rakeLoop fl cfg bal mtr pairs rake) =
        sumI rake + rl_totalSum bal (layerCharges fl cfg bal mtr pairs (sumI rake))
  | [], rake, _ => by simp [rakeLoop, layerCharges]
  | (L, h) :: rest, rake, hl => by
    rw [rakeLoop_cons]
    split
    · rename_i h0
      rw [rl_totalSum_zero _ _ (rl_stop fl cfg bal mtr _ _ h0)]; simp
    · rename_i hne
      rw [rl_sumI_rakeLoop fl cfg bal mtr rest _ (length_stepRake _ _ rake bal hl),
        sumI_stepRake _ _ rake bal hl]
      simp only [layerCharges, rl_totalSum_cons, rl_contributors,
        rl_layerCharge_of_ne fl cfg bal mtr L h rake hne]
      omega

theorem rl_rakePerPlayer (fl : Rat → Rat) (cfg : RakeCfg) (bal : List Int) :
    rakePerPlayer fl cfg bal true =
      rakeLoop fl cfg bal (maxTotalRake fl cfg bal) (layersOf bal) (bal.map fun _ => (0 : Int)) := by
  rw [rakePerPlayer_true, layersOf, rl_heightsFrom]

/-! ## exact arithmetic -/

theorem rl_exactCap (cfg : RakeCfg) (bal : List Int) : maxTotalRake id cfg bal = exactCap cfg bal := by
  unfold maxTotalRake exactCap
  simp only [id]
  split
  · rename_i h; exact (min_eq_right (le_of_lt h)).symm
  · rename_i h; exact (min_eq_left (not_lt.1 h)).symm

/-- layers of non-negative height -/
theorem rl_heights_nonneg : ∀ (lv : List Int) (prev : Int), (prev :: lv).Pairwise (· ≤ ·) →
    ∀ Lh ∈ heightsFrom prev lv, 0 ≤ Lh.2 ∧ Lh.2 ≤ Lh.1 - prev
  | [], _, _, Lh, hm => by simp [heightsFrom] at hm
  | L :: Ls, prev, hch, Lh, hm => by
    have hch' := List.pairwise_cons.1 hch
    have hpl : prev ≤ L := hch'.1 L (by simp)
    simp only [heightsFrom, List.mem_cons] at hm
    rcases hm with rfl | hm
    · simp only; omega
    · have := rl_heights_nonneg Ls L hch'.2 Lh hm
      omega

/-- one exact charge: the `left = 0` test, `fl = id` and `pyInt` disappear; the charge is non-negative
and affordable -/
theorem rl_layerCharge_id (cfg : RakeCfg) (hf0 : 0 ≤ cfg.f) (mtr : Rat) (k : Nat) (h c : Int)
    (hh : 0 ≤ h) (hleft : 0 ≤ mtr - (c : Rat)) :
    layerCharge id cfg mtr k h c = min ((mtr - (c : Rat)) / (k : Rat)).floor ((h : Rat) * cfg.f).floor ∧
      0 ≤ layerCharge id cfg mtr k h c ∧
      0 ≤ mtr - ((c + (k : Int) * layerCharge id cfg mtr k h c : Int) : Rat) := by
  have hhq : (0 : Rat) ≤ (h : Rat) := by exact_mod_cast hh
  have hk : (0 : Rat) ≤ (k : Rat) := by positivity
  have hq : (0 : Rat) ≤ (mtr - (c : Rat)) / (k : Rat) := div_nonneg hleft hk
  have hhf : (0 : Rat) ≤ (h : Rat) * cfg.f := mul_nonneg hhq hf0
  have ha : 0 ≤ ((mtr - (c : Rat)) / (k : Rat)).floor := by
    rw [Rat.le_floor_iff]; simpa using hq
  have hb : 0 ≤ ((h : Rat) * cfg.f).floor := by
    rw [Rat.le_floor_iff]; simpa using hhf
  have heq : layerCharge id cfg mtr k h c =
      min ((mtr - (c : Rat)) / (k : Rat)).floor ((h : Rat) * cfg.f).floor := by
    unfold layerCharge
    simp only [id]
    split
    · rename_i h0
      rw [h0, zero_div, show Rat.floor 0 = 0 from by decide]
      exact (Int.min_eq_left hb).symm
    · rw [pyInt_of_nonneg hq, pyInt_of_nonneg hhf]
  refine ⟨heq, ?_, ?_⟩
  · rw [heq]; exact le_min ha hb
  · rw [heq]
    have hmin : ((min ((mtr - (c : Rat)) / (k : Rat)).floor ((h : Rat) * cfg.f).floor : Int) : Rat)
        ≤ (mtr - (c : Rat)) / (k : Rat) :=
      le_trans (by exact_mod_cast Int.min_le_left _ _) (Rat.floor_le _)
    push_cast
    rcases Nat.eq_zero_or_pos k with h0 | hpos
    · subst h0; simpa using hleft
    · have hkpos : (0 : Rat) < (k : Rat) := by exact_mod_cast hpos
      rw [le_div_iff₀ hkpos] at hmin
      push_cast at hmin
      linarith

/-- the whole list of charges in exact arithmetic -/
theorem rl_layerCharges_id (cfg : RakeCfg) (hf0 : 0 ≤ cfg.f) (bal : List Int) (mtr : Rat) :
    ∀ (layers : List (Int × Int)) (c : Int), (∀ Lh ∈ layers, 0 ≤ Lh.2) → 0 ≤ mtr - (c : Rat) →
      layerCharges id cfg bal mtr layers c = exactLayerCharges cfg bal mtr layers c
  | [], _, _, _ => rfl
  | (L, h) :: rest, c, hh, hleft => by
    obtain ⟨heq, _, hnext⟩ := rl_layerCharge_id cfg hf0 mtr (contributors bal L) h c
      (hh (L, h) (by simp)) hleft
    have ih := rl_layerCharges_id cfg hf0 bal mtr rest _ (fun Lh hm => hh Lh (by simp [hm])) hnext
    simp only [layerCharges, exactLayerCharges]
    rw [ih, heq]

/-- every exact charge is non-negative and at most `⌊h · f⌋` for the height `h` of its layer -/
theorem rl_exact_bounds (cfg : RakeCfg) (hf0 : 0 ≤ cfg.f) (bal : List Int) (mtr : Rat) :
    ∀ (layers : List (Int × Int)) (c : Int), (∀ Lh ∈ layers, 0 ≤ Lh.2) → 0 ≤ mtr - (c : Rat) →
      ∀ Lr ∈ layerCharges id cfg bal mtr layers c,
        ∃ h, (Lr.1, h) ∈ layers ∧ 0 ≤ Lr.2 ∧ Lr.2 ≤ ((h : Rat) * cfg.f).floor
  | [], _, _, _, Lr, hm => by simp [layerCharges] at hm
  | (L, h) :: rest, c, hh, hleft, Lr, hm => by
    obtain ⟨heq, h0, hnext⟩ := rl_layerCharge_id cfg hf0 mtr (contributors bal L) h c
      (hh (L, h) (by simp)) hleft
    simp only [layerCharges, List.mem_cons] at hm
    rcases hm with rfl | hm
    · refine ⟨h, by simp, h0, ?_⟩
      simp only [heq]
      exact Int.min_le_right _ _
    · obtain ⟨h', hm', hb⟩ := rl_exact_bounds cfg hf0 bal mtr rest _
        (fun Lh hm => hh Lh (by simp [hm])) hnext Lr hm
      exact ⟨h', by simp [hm'], hb⟩

end CardVerif.Pot
