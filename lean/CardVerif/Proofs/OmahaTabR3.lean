import CardModel.Spec.OmahaTables
/-! # C06 — suit-free Omaha table, module 3 of 15 (compiled evaluation, `native_decide`; 420 board multisets × 1,820 hand multisets)

`tabR_a_blo_bhi`: the table holds on the ascending boards whose lowest value is `a` and whose second value lies in `[blo, bhi]`. -/
namespace CardVerif.OmahaD

/-- 364 boards -/
theorem tabR_2_3_3 : tableRc 2 3 3 = true := by native_decide

/-- 56 boards -/
theorem tabR_3_9_9 : tableRc 3 9 9 = true := by native_decide

end CardVerif.OmahaD
