import CardVerif.Proofs.GinInv
/-!
# Gin: how a game ends and scores (C11)

* §1 deadwood values and bonuses are non-negative; `normPoints`;
* §2 `endGame` points in closed form (`wall`, `gin`, `knock`);
* §3 the wall check and the turn limit of a discard: when they end the game and what they do to the points;
* §4 every completed reachable state shows `(x, y)` with `0 ≤ x`, `0 ≤ y`, `x = 0 ∨ y = 0`.
-/
namespace CardVerif.Gin
open CardVerif

/-! ## §1 deadwood, bonuses, `normPoints` -/

/-- the engine's deadwood values are natural numbers -/
theorem getDeadwood_nonneg {v : Variant} {h : List Card} {a b : Option (List (List Card))} {x : Int}
    (hx : getDeadwood v h a b = .ok x) : 0 ≤ x := by
  unfold getDeadwood at hx
  cases v with
  | ricky =>
    obtain ⟨p, -, hp⟩ := bind_ok.1 hx
    cases hp
    exact Int.natCast_nonneg _
  | rummy =>
    cases b with
    | some om =>
      obtain ⟨p, -, hp⟩ := bind_ok.1 hx
      cases hp
      exact Int.natCast_nonneg _
    | none =>
      cases a with
      | some ms =>
        cases hx
        exact Int.natCast_nonneg _
      | none =>
        obtain ⟨p, -, hp⟩ := bind_ok.1 hx
        cases hp
        exact Int.natCast_nonneg _

/-- the bonuses of the two shipped variants -/
theorem IsVariant.bonus {p : Params} (h : IsVariant p) :
    (p.variant = .rummy ∧ p.underknockBonus = 20 ∧ p.ginBonus = 20) ∨
    (p.variant = .ricky ∧ p.underknockBonus = 0 ∧ p.ginBonus = 0) := by
  rcases h with h | h <;> rw [h] <;> simp [Params.rummy, Params.ricky]

theorem IsVariant.ginBonus_nonneg {p : Params} (h : IsVariant p) : 0 ≤ p.ginBonus := by
  rcases h.bonus with ⟨-, -, h⟩ | ⟨-, -, h⟩ <;> omega

theorem IsVariant.underknockBonus_nonneg {p : Params} (h : IsVariant p) : 0 ≤ p.underknockBonus := by
  rcases h.bonus with ⟨-, h, -⟩ | ⟨-, h, -⟩ <;> omega

theorem IsVariant.underknockBonus_rummy {p : Params} (h : IsVariant p) (hv : p.variant = .rummy) :
    p.underknockBonus = 20 := by
  rcases h.bonus with ⟨-, h, -⟩ | ⟨h', -, -⟩
  · exact h
  · rw [hv] at h'; cases h'

theorem IsVariant.wallEnds_eq {g : GState} (h : IsVariant g.params) :
    g.wallEnds = decide (g.params.variant = .rummy) := by
  rcases h with h | h
  · rw [wallEnds_rummy h, h]; rfl
  · rw [wallEnds_ricky h, h]; rfl

theorem normPoints_zero_left {y : Int} (hy : 0 ≤ y) : normPoints 0 y = (0, y) := by
  unfold normPoints
  split
  · omega
  · split <;> simp

theorem normPoints_zero_right {x : Int} (hx : 0 ≤ x) : normPoints x 0 = (x, 0) := by
  unfold normPoints
  split
  · simp
  · split
    · omega
    · rfl

theorem normPoints_swap (a b : Int) : normPoints b a = ((normPoints a b).2, (normPoints a b).1) := by
  unfold normPoints
  by_cases h1 : a > b
  · have h2 : ¬ b > a := by omega
    simp [h1, h2]
  · by_cases h2 : b > a
    · simp [h1, h2]
    · simp [h1, h2]

/-- the normalised pair: nobody negative, and a zero unless the raw points tie -/
theorem normPoints_spec {a b : Int} (ha : 0 ≤ a) (hb : 0 ≤ b) (hne : a = b → a = 0) :
    0 ≤ (normPoints a b).1 ∧ 0 ≤ (normPoints a b).2 ∧ ((normPoints a b).1 = 0 ∨ (normPoints a b).2 = 0) := by
  unfold normPoints
  by_cases h1 : a > b
  · rw [if_pos h1]
    exact ⟨by show 0 ≤ a - b; omega, le_refl _, .inr rfl⟩
  · by_cases h2 : b > a
    · rw [if_neg h1, if_pos h2]
      exact ⟨le_refl _, by show 0 ≤ b - a; omega, .inl rfl⟩
    · rw [if_neg h1, if_neg h2]
      have : a = b := by omega
      exact ⟨ha, hb, .inl (hne this)⟩

/-! ## §2 `endGame` points -/

theorem endGame_wall_points (g : GState) :
    ((g.endGame .wall 0 0).p1Points, (g.endGame .wall 0 0).p2Points) = (some 0, some 0) := rfl

/-- gin: the opponent's deadwood plus the gin bonus against the opponent -/
theorem endGame_gin_points {g : GState} {od : Int} (hod : 0 ≤ od) (hb : 0 ≤ g.params.ginBonus)
    (hp1 : g.turn.p1 = g.turn.owner) :
    ((g.endGame .gin (if g.turn.owner then 0 else od) (if g.turn.owner then od else 0)).p1Points,
     (g.endGame .gin (if g.turn.owner then 0 else od) (if g.turn.owner then od else 0)).p2Points) =
      (if g.turn.owner then (some 0, some (od + g.params.ginBonus))
       else (some (od + g.params.ginBonus), some 0)) := by
  rw [endGame_p1Points, endGame_p2Points]
  have h0 : 0 ≤ od + g.params.ginBonus := by omega
  cases hO : g.turn.owner <;> simp [rawPoints, hp1, hO, normPoints_zero_left h0, normPoints_zero_right h0]

/-- knock: raw points `(k, od)` seen from the knocker, normalised -/
theorem endGame_knock_points {g : GState} (kd od : Int) (hp1 : g.turn.p1 = g.turn.owner) :
    ((g.endGame .knock (if g.turn.owner then kd else od) (if g.turn.owner then od else kd)).p1Points,
     (g.endGame .knock (if g.turn.owner then kd else od) (if g.turn.owner then od else kd)).p2Points) =
      (if g.turn.owner then
        (some (normPoints (if od ≤ kd then kd + g.params.underknockBonus else kd) od).1,
         some (normPoints (if od ≤ kd then kd + g.params.underknockBonus else kd) od).2)
       else
        (some (normPoints (if od ≤ kd then kd + g.params.underknockBonus else kd) od).2,
         some (normPoints (if od ≤ kd then kd + g.params.underknockBonus else kd) od).1)) := by
  rw [endGame_p1Points, endGame_p2Points]
  cases hO : g.turn.owner
  · by_cases h : od ≤ kd
    · simp [rawPoints, hp1, hO, h, normPoints_swap (kd + g.params.underknockBonus) od]
    · simp [rawPoints, hp1, hO, h, normPoints_swap kd od]
  · by_cases h : od ≤ kd <;> simp [rawPoints, hp1, hO, h]

theorem p1_eq_owner_of_isDiscard {t : Turn} (h : t.isDiscard = true) : t.p1 = t.owner := by
  cases t <;> first | rfl | exact Bool.noConfusion h

theorem p1_eq_owner_of_isKnock {t : Turn} (h : t.isKnock = true) : t.p1 = t.owner := by
  cases t <;> first | rfl | exact Bool.noConfusion h

/-! ## §3 wall check and turn limit -/

section
variable (shuffle : List Card → List Card) (g : GState)

/-- the wall check touches the points only when it ends the game, and then they are 0–0 -/
theorem checkWall_points :
    ((g.checkWall shuffle).1 = false ∧ (g.checkWall shuffle).2.p1Points = g.p1Points ∧
      (g.checkWall shuffle).2.p2Points = g.p2Points) ∨
    ((g.checkWall shuffle).1 = true ∧ (g.checkWall shuffle).2.p1Points = some 0 ∧
      (g.checkWall shuffle).2.p2Points = some 0) := by
  rcases checkWall_cases shuffle g with ⟨_, h⟩ | ⟨_, _, h⟩ | ⟨_, _, h⟩ <;> rw [h]
  · exact .inl ⟨rfl, rfl, rfl⟩
  · exact .inr ⟨rfl, rfl, rfl⟩
  · exact .inl ⟨rfl, rfl, rfl⟩

theorem hitMaxTurns_iff : g.hitMaxTurns = true ↔ ∃ m, g.params.maxTurns = some m ∧ m ≤ g.turns := by
  unfold GState.hitMaxTurns
  cases g.params.maxTurns <;> simp

theorem wallEnds_iff : g.wallEnds = true ↔ ∃ m, g.params.maxShuffles = some m ∧ m ≤ g.shuffles + 1 := by
  unfold GState.wallEnds
  cases g.params.maxShuffles <;> simp

theorem discardPre_hitMaxTurns :
    (discardPre shuffle g).hitMaxTurns = true ↔ ∃ m, g.params.maxTurns = some m ∧ m ≤ g.turns + 1 := by
  rw [hitMaxTurns_iff, discardPre_params, discardPre_turns]

/-- the points after the wall check of a discard -/
theorem discardPre_points :
    ((discardPre shuffle g).complete = g.complete ∧ (discardPre shuffle g).p1Points = g.p1Points ∧
      (discardPre shuffle g).p2Points = g.p2Points) ∨
    (g.turn.isKnock = false ∧ (g.checkWall shuffle).1 = true ∧ (discardPre shuffle g).complete = true ∧
      (discardPre shuffle g).p1Points = some 0 ∧ (discardPre shuffle g).p2Points = some 0) := by
  rw [discardPre_eq]
  cases hk : g.turn.isKnock
  · rcases checkWall_points shuffle g with ⟨h1, h2, h3⟩ | ⟨h1, h2, h3⟩
    · refine .inl ⟨?_, by simpa using h2, by simpa using h3⟩
      simp [checkWall_complete, h1]
    · refine .inr ⟨rfl, h1, ?_, by simpa using h2, by simpa using h3⟩
      simp [checkWall_complete, h1]
  · exact .inl ⟨rfl, rfl, rfl⟩

/-- a state that is already complete keeps its points through the turn-limit check -/
theorem discardFinish_of_complete (h : (discardPre shuffle g).complete = true) :
    discardFinish shuffle g = discardPre shuffle g := by
  unfold discardFinish
  rw [h]
  simp
end

/-- after gin the rest of the discard does not touch the result -/
theorem discardFinish_gin (shuffle : List Card → List Card) {g : GState} (hv : IsVariant g.params)
    (hc : g.complete = true) (hk : g.turn.isKnock = false → g.params.variant = .ricky) :
    (discardFinish shuffle g).complete = true ∧ (discardFinish shuffle g).p1Points = g.p1Points ∧
    (discardFinish shuffle g).p2Points = g.p2Points := by
  have hpc : (discardPre shuffle g).complete = true := by rw [discardPre_complete, hc]; rfl
  rw [discardFinish_of_complete shuffle g hpc]
  refine ⟨hpc, ?_⟩
  rcases discardPre_points shuffle g with ⟨-, h2, h3⟩ | ⟨h1, h2, -⟩
  · exact ⟨h2, h3⟩
  · have hr := hk h1
    rw [checkWall_fst, hv.wallEnds_eq, hr] at h2
    simp at h2

/-- a discard without gin: the game ends exactly at the wall or at the turn limit, 0–0 -/
theorem discardFinish_plain (shuffle : List Card → List Card) {g : GState} (hc : g.complete = false) :
    ((discardFinish shuffle g).complete = true ↔
      (g.turn.isKnock = false ∧ (g.checkWall shuffle).1 = true) ∨
      ∃ m, g.params.maxTurns = some m ∧ m ≤ g.turns + 1) ∧
    ((discardFinish shuffle g).complete = true →
      ((discardFinish shuffle g).p1Points, (discardFinish shuffle g).p2Points) = (some 0, some 0)) := by
  constructor
  · rw [discardFinish_complete, Bool.or_eq_true, discardPre_hitMaxTurns, discardPre_complete, hc]
    simp
  · intro hfc
    rcases discardFinish_eq shuffle g with h | ⟨-, -, h⟩
    · rw [h] at hfc ⊢
      rcases discardPre_points shuffle g with ⟨h1, -, -⟩ | ⟨-, -, -, h2, h3⟩
      · rw [h1, hc] at hfc; cases hfc
      · rw [h2, h3]
    · rw [h]; rfl

/-! ## §4 the result of a completed game -/

/-- what a final score looks like -/
def GoodScore (g : GState) : Prop :=
  ∃ x y : Int, g.p1Points = some x ∧ g.p2Points = some y ∧ 0 ≤ x ∧ 0 ≤ y ∧ (x = 0 ∨ y = 0)

theorem goodScore_of_pair {g : GState} {x y : Int} (h : (g.p1Points, g.p2Points) = (some x, some y))
    (hx : 0 ≤ x) (hy : 0 ≤ y) (hz : x = 0 ∨ y = 0) : GoodScore g := by
  rw [Prod.mk.injEq] at h
  exact ⟨x, y, h.1, h.2, hx, hy, hz⟩

theorem discardTurn_isKnock (v : Variant) (t : Turn) (dw : Int) :
    (discardTurn v t dw).isKnock = decide (v = .rummy ∧ dw ≤ 10) := by
  unfold discardTurn
  split <;> cases t.owner <;> simp [*, ownMayKnock, oppDraws, Turn.isKnock]

/-! ## §5 the moves -/

/-- passing and drawing do not touch `complete` -/
theorem pass_draw_complete {g g' : GState} (h : g.firstTurnPass = .ok g' ∨ ∃ d, g.drawCard d = .ok g') :
    g'.complete = g.complete := by
  rcases h with h | ⟨d, h⟩
  · obtain ⟨-, ⟨-, rfl⟩ | ⟨-, c, rest, -, rfl⟩⟩ := firstTurnPass_ok.1 h <;> rfl
  · cases d
    · obtain ⟨c, rest, -, -, -, -, rfl⟩ := drawCard_false_ok.1 h; rfl
    · obtain ⟨c, rest, -, -, -, -, rfl⟩ := drawCard_true_ok.1 h; rfl

/-- how a discard ends the game (any in-progress state of one of the two variants) -/
theorem discardCard_end {shuffle : List Card → List Card} {g g' : GState} (hv : IsVariant g.params)
    (hc : g.complete = false) {c : Card} (hp : g.discardCard shuffle c = .ok g') :
    ∃ dw : Int, getDeadwood g.params.variant ((g.handOf g.turn.owner).filter (· != c)) none none = .ok dw ∧
      (g'.complete = true ↔
        dw = 0 ∨ g.hitsTurnLimit ∨
        (g.params.variant = .rummy ∧ 10 < dw ∧ g.deck.length = g.params.endCardsInDeck)) ∧
      (g'.complete = true → dw = 0 →
        ∃ od : Int, getDeadwood g.params.variant (g.handOf (!g.turn.owner)) none none = .ok od ∧
          (g'.p1Points, g'.p2Points) =
            (if g.turn.owner then (some 0, some (od + g.params.ginBonus))
             else (some (od + g.params.ginBonus), some 0))) ∧
      (g'.complete = true → dw ≠ 0 → (g'.p1Points, g'.p2Points) = (some 0, some 0)) := by
  obtain ⟨hturn, -, -, dw, hdw, ⟨h0, rfl⟩ | ⟨h0, od, hod, rfl⟩⟩ := discardCard_ok.1 hp
  · obtain ⟨hiff, hpts⟩ := discardFinish_plain shuffle
      (g := discardCore g c (discardTurn g.params.variant g.turn dw)) hc
    refine ⟨dw, hdw, ?_, fun _ h => absurd h h0, fun h _ => hpts h⟩
    rw [hiff, checkWall_fst, IsVariant.wallEnds_eq (by simpa using hv)]
    simp only [discardCore_turn, discardTurn_isKnock, discardCore_deck, discardCore_params, discardCore_turns,
      GState.hitsTurnLimit, Bool.and_eq_true, decide_eq_false_iff_not, h0, false_or]
    constructor
    · rintro (⟨h1, h2, h3⟩ | h)
      · have h3' := of_decide_eq_true h3
        exact .inr ⟨h3', not_le.1 fun h => h1 ⟨h3', h⟩, of_decide_eq_true h2⟩
      · exact .inl h
    · rintro (h | ⟨h1, h2, h3⟩)
      · exact .inr h
      · exact .inl ⟨fun h => absurd h.2 (not_le.2 h2), decide_eq_true h3, decide_eq_true h1⟩
  · subst h0
    have hp1 := p1_eq_owner_of_isDiscard hturn
    obtain ⟨h1, h2, h3⟩ := discardFinish_gin shuffle
      (g := discardCore (g.endGame .gin (if g.turn.owner then 0 else od) (if g.turn.owner then od else 0)) c
        (discardTurn g.params.variant g.turn 0))
      (by simpa using hv) (by simp)
      (by
        simp only [discardCore_turn, discardTurn_isKnock, discardCore_params, endGame_params,
          decide_eq_false_iff_not]
        intro h
        cases hvar : g.params.variant
        · exact absurd ⟨hvar, by decide⟩ h
        · rfl)
    refine ⟨0, hdw, ?_, fun _ _ => ⟨od, hod, ?_⟩, fun _ h => absurd rfl h⟩
    · simp [h1]
    · rw [h2, h3, discardCore_p1Points, discardCore_p2Points]
      exact endGame_gin_points (getDeadwood_nonneg hod) hv.ginBonus_nonneg hp1

/-- how an accepted knock scores -/
theorem decideKnock_true_end {shuffle : List Card → List Card} {g g' : GState}
    {ms : Option (List (List Card))} (hp : g.decideKnock shuffle true ms = .ok g') :
    ∃ kd od : Int,
      getDeadwood g.params.variant (g.handOf g.turn.owner) ms none = .ok kd ∧
      getDeadwood g.params.variant (g.handOf (!g.turn.owner)) none ms = .ok od ∧
      g'.complete = true ∧
      (g'.p1Points, g'.p2Points) =
        (if g.turn.owner then
          (some (normPoints (if od ≤ kd then kd + g.params.underknockBonus else kd) od).1,
           some (normPoints (if od ≤ kd then kd + g.params.underknockBonus else kd) od).2)
         else
          (some (normPoints (if od ≤ kd then kd + g.params.underknockBonus else kd) od).2,
           some (normPoints (if od ≤ kd then kd + g.params.underknockBonus else kd) od).1)) := by
  obtain ⟨hturn, ⟨hk, -⟩ | ⟨-, a, b, ha, hb, rfl⟩⟩ := decideKnock_ok.1 hp
  · cases hk
  · exact ⟨a, b, ha, hb, rfl, endGame_knock_points a b (p1_eq_owner_of_isKnock hturn)⟩

/-- how a declined knock ends the game -/
theorem decideKnock_false_end {shuffle : List Card → List Card} {g g' : GState}
    {ms : Option (List (List Card))} (hp : g.decideKnock shuffle false ms = .ok g') (hc : g.complete = false) :
    (g'.complete = true ↔ g.deck.length = g.params.endCardsInDeck ∧
        ∃ m, g.params.maxShuffles = some m ∧ m ≤ g.shuffles + 1) ∧
    (g'.complete = true → (g'.p1Points, g'.p2Points) = (some 0, some 0)) := by
  have hfst : (g.checkWall shuffle).1 = true ↔ g.deck.length = g.params.endCardsInDeck ∧
      ∃ m, g.params.maxShuffles = some m ∧ m ≤ g.shuffles + 1 := by
    rw [checkWall_fst, Bool.and_eq_true, decide_eq_true_eq, wallEnds_iff]
  have hcomp : (g.checkWall shuffle).2.complete = (g.checkWall shuffle).1 := by
    rw [checkWall_complete, hc]; rfl
  obtain ⟨-, ⟨-, ⟨hw, rfl⟩ | ⟨hw, -, rfl⟩⟩ | ⟨hk, -⟩⟩ := decideKnock_ok.1 hp
  · refine ⟨by rw [hcomp, hfst], fun _ => ?_⟩
    rcases checkWall_points shuffle g with ⟨h1, -, -⟩ | ⟨-, h2, h3⟩
    · rw [hw] at h1; cases h1
    · rw [h2, h3]
  · have : (g.checkWall shuffle).2.complete = false := by rw [hcomp, hw]
    refine ⟨?_, fun h => ?_⟩
    · show (g.checkWall shuffle).2.complete = true ↔ _
      rw [hcomp, hfst]
    · have h' : (g.checkWall shuffle).2.complete = true := h
      rw [this] at h'; cases h'
  · cases hk

/-- **every completed reachable game shows a proper score** -/
theorem reach_goodScore {shuffle : List Card → List Card} (hs : ∀ l, (shuffle l).Perm l) {g0 g : GState}
    (hd : Deal g0) (h : Reach shuffle g0 g) (hc : g.complete = true) : GoodScore g := by
  cases h with
  | init =>
    obtain ⟨up, -, -, -, -, -, -, hc0, -⟩ := hd.init
    rw [hc0] at hc; cases hc
  | @step g1 _ m hr hc1 happ =>
    have hi := reach_inv hs hd hr
    have hv := hi.variant
    cases m with
    | pass =>
      have := pass_draw_complete (g := g1) (g' := g) (.inl happ)
      rw [hc, hc1] at this; cases this
    | draw d =>
      have := pass_draw_complete (g := g1) (g' := g) (.inr ⟨d, happ⟩)
      rw [hc, hc1] at this; cases this
    | discard c =>
      obtain ⟨dw, -, -, hgin, hplain⟩ := discardCard_end hv hc1 happ
      by_cases h0 : dw = 0
      · obtain ⟨od, hod, hpts⟩ := hgin hc h0
        have h1 : 0 ≤ od + g1.params.ginBonus := by
          have := getDeadwood_nonneg hod
          have := hv.ginBonus_nonneg
          omega
        cases hO : g1.turn.owner <;> simp only [hO, if_true, if_false, Bool.false_eq_true] at hpts
        · exact goodScore_of_pair hpts h1 (le_refl _) (.inr rfl)
        · exact goodScore_of_pair hpts (le_refl _) h1 (.inl rfl)
      · exact goodScore_of_pair (hplain hc h0) (le_refl _) (le_refl _) (.inl rfl)
    | knock k ms =>
      cases k
      · exact goodScore_of_pair ((decideKnock_false_end happ hc1).2 hc) (le_refl _) (le_refl _) (.inl rfl)
      · obtain ⟨kd, od, hkd, hod, -, hpts⟩ := decideKnock_true_end happ
        have hturn : g1.turn.isKnock = true := (decideKnock_ok.1 happ).1
        have hub := hv.underknockBonus_rummy ((hi.live hc1).knock_rummy hturn)
        have hk0 := getDeadwood_nonneg hkd
        have ho0 := getDeadwood_nonneg hod
        obtain ⟨s1, s2, s3⟩ := normPoints_spec
          (a := if od ≤ kd then kd + g1.params.underknockBonus else kd) (b := od)
          (by split <;> omega) ho0 (by split <;> omega)
        cases hO : g1.turn.owner <;> simp only [hO, if_true, if_false, Bool.false_eq_true] at hpts
        · exact goodScore_of_pair hpts s2 s1 s3.symm
        · exact goodScore_of_pair hpts s1 s2 s3

end CardVerif.Gin
