import CardVerif.Proofs.GinViewsH
import CardVerif.Proofs.GinProtocol
import CardVerif.Proofs.GinScoring
/-!
# Gin invariant, protocol and scoring for games started from an explicit public card map (C09, C10, C11; `DealH`)

`GinInv.lean`, `GinProtocol.lean` and `GinScoring.lean` prove their results over `GInv g0 g`, the invariant of the
states reachable from a fresh `Deal g0`.  Two of its fields are false for a restored game (`DealH`):

* `GInv.first_draw : g0.firstTurn.isFirstDraw` – a restored game may start at any observable turn, and the
  constructor records that turn as `firstTurn`;
* `Live.last_draw` (inside `GInv.live`) – a game restored on a discard turn starts with `lastDraw = none`.

Neither is what C09–C11 are about: `gih_Inv` replaces the first by "a first-draw turn is only ever seen if the game
started on one" (all `pass_next` needs), and the second by the weak form `gvh_LiveW` of `GinViewsH.lean`.  The step
lemmas (`apply_frame`, `apply_perm`, `gvh_Inv.step`) are reused; the three proofs that went through `GInv`
(`accept_iff_allowed`, `pass_next`, `reach_goodScore`) are redone over the weaker hypotheses – they are the proofs
of `GinProtocol.lean` / `GinScoring.lean`, which never looked at the two fields above.

* §1 `gih_Inv`, `gih_reach_inv`;
* §2 accepted iff allowed (`gih_accept_iff_allowed`), the pass (`gih_pass_next`);
* §3 the result of a completed game (`gih_reach_goodScore`).
-/
namespace CardVerif.Gin
open CardVerif

/-! ## §1 the invariant -/

theorem gih_ownDiscards_not_first (o : Bool) : (ownDiscards o).isFirstDraw = false := by cases o <;> rfl
theorem gih_oppDraws_not_first (o : Bool) : (oppDraws o).isFirstDraw = false := by cases o <;> rfl
theorem gih_ownMayKnock_not_first (o : Bool) : (ownMayKnock o).isFirstDraw = false := by cases o <;> rfl

/-- a first-draw turn is only ever reached from a first-draw turn (by a pass) -/
theorem gih_firstDraw_back {shuffle : List Card → List Card} {g g' : GState} {m : Move}
    (h : g.apply shuffle m = .ok g') (ht : g'.turn.isFirstDraw = true) : g.turn.isFirstDraw = true := by
  cases m with
  | pass => exact (firstTurnPass_ok.1 h).1
  | draw d =>
    have htn : g'.turn = ownDiscards g.turn.owner := by
      cases d
      · obtain ⟨c, rest, -, -, -, -, rfl⟩ := drawCard_false_ok.1 h; rfl
      · obtain ⟨c, rest, -, -, -, -, rfl⟩ := drawCard_true_ok.1 h; rfl
    rw [htn, gih_ownDiscards_not_first] at ht
    cases ht
  | discard c =>
    obtain ⟨dw, -, htn⟩ := discard_next_of_ok (g := g) h
    rw [htn] at ht
    unfold discardTurn at ht
    split at ht
    · rw [gih_ownMayKnock_not_first] at ht; cases ht
    · rw [gih_oppDraws_not_first] at ht; cases ht
  | knock k ms =>
    obtain ⟨hk, hrest⟩ := decideKnock_ok.1 h
    have hno : ∀ t : Turn, t.isKnock = true → t.isFirstDraw = true → False := by
      intro t h1 h2
      cases t <;> first | exact Bool.noConfusion h1 | exact Bool.noConfusion h2
    rcases hrest with ⟨-, ⟨-, rfl⟩ | ⟨-, -, rfl⟩⟩ | ⟨-, a, b, -, -, rfl⟩
    · rw [checkWall_turn] at ht
      exact (hno _ hk ht).elim
    · change (oppDraws g.turn.owner).isFirstDraw = true at ht
      rw [gih_oppDraws_not_first] at ht; cases ht
    · exact (hno _ hk ht).elim

/-- the invariant of the states reachable from the restored game `g0`: `GInv` with the two start-dependent fields
weakened (`first_draw`, and `last_draw` inside `gvh_Inv.live`) -/
structure gih_Inv (g0 g : GState) : Prop where
  params : g.params = g0.params
  firstTurn : g.firstTurn = g0.turn
  /-- a first-draw turn is seen only in a game that started on one -/
  first_draw : g.turn.isFirstDraw = true → g.firstTurn.isFirstDraw = true
  perm : g.allCards.Perm g0.allCards
  base : gvh_Inv g

theorem DealH.gih_inv {g0 : GState} (hd : DealH g0) : gih_Inv g0 g0 :=
  ⟨rfl, hd.gvh_init.1, fun h => by rw [hd.gvh_init.1]; exact h, List.Perm.refl _, hd.gvh_inv⟩

theorem gih_Inv.step {shuffle : List Card → List Card} (hs : ∀ l, (shuffle l).Perm l) {g0 g g' : GState} {m : Move}
    (hi : gih_Inv g0 g) (hc : g.complete = false) (h : g.apply shuffle m = .ok g') : gih_Inv g0 g' := by
  obtain ⟨hp, hf⟩ := apply_frame h
  exact ⟨hp.trans hi.params, hf.trans hi.firstTurn,
    fun ht => by rw [hf]; exact hi.first_draw (gih_firstDraw_back h ht),
    (apply_perm hs hi.base.nodup h).trans hi.perm, hi.base.step hs hc h⟩

/-- **the invariant holds in every state reachable from a game started with a map** -/
theorem gih_reach_inv {shuffle : List Card → List Card} (hs : ∀ l, (shuffle l).Perm l) {g0 g : GState}
    (hd : DealH g0) (h : Reach shuffle g0 g) : gih_Inv g0 g := by
  induction h with
  | init => exact hd.gih_inv
  | step m _ hc happ ih => exact ih.step hs hc happ

theorem gih_Inv.variant {g0 g : GState} (hi : gih_Inv g0 g) : IsVariant g.params := hi.base.variant
theorem gih_Inv.nodup {g0 g : GState} (hi : gih_Inv g0 g) : g.allCards.Nodup := hi.base.nodup
theorem gih_Inv.live {g0 g : GState} (hi : gih_Inv g0 g) (hc : g.complete = false) : gvh_LiveW g := hi.base.live hc

/-- a game that does not start on an opening turn never shows one -/
theorem gih_Inv.no_first_draw {g0 g : GState} (hi : gih_Inv g0 g) (h0 : g0.turn.isFirstDraw = false) :
    g.turn.isFirstDraw = false := by
  cases ht : g.turn.isFirstDraw
  · rfl
  · have := hi.first_draw ht
    rw [hi.firstTurn, h0] at this
    cases this

/-! ## §2 the protocol over the weak invariant -/

theorem gvh_LiveW.gih_lens {g : GState} (hl : gvh_LiveW g) (ht : g.turn.isDiscard = false) :
    g.p1.length = g.params.cardsDealt ∧ g.p2.length = g.params.cardsDealt :=
  (hl.toLive ht).lens ht

/-- the mover's hand at a discard turn has one card more than dealt, the other hand exactly the dealt number -/
theorem gvh_LiveW.gih_discard_lens {g : GState} (hl : gvh_LiveW g) (ht : g.turn.isDiscard = true) :
    (g.handOf g.turn.owner).length = g.params.cardsDealt + 1 ∧
    (g.handOf (!g.turn.owner)).length = g.params.cardsDealt := by
  have h1 := hl.p1_len
  have h2 := hl.p2_len
  cases hT : g.turn <;> simp_all [Turn.isDiscard, Turn.owner, GState.handOf]

theorem gih_handOf_nodup {g : GState} (hn : g.allCards.Nodup) (p : Bool) : (g.handOf p).Nodup := by
  unfold GState.allCards at hn
  cases p
  · exact (List.nodup_append.1 hn).2.1
  · exact (List.nodup_append.1 (List.nodup_append.1 hn).1).2.1

/-- the deadwood computations of a discard never fail (`GInv.discard_deadwood_total` over the weak invariant) -/
theorem gih_discard_deadwood_total {g : GState} (hv : IsVariant g.params) (hn : g.allCards.Nodup)
    (hl : gvh_LiveW g) (ht : g.turn.isDiscard = true) {c : Card} (hmem : c ∈ g.handOf g.turn.owner) :
    (∃ dw, getDeadwood g.params.variant ((g.handOf g.turn.owner).filter (· != c)) none none = .ok dw) ∧
    (∃ dw, getDeadwood g.params.variant (g.handOf (!g.turn.owner)) none none = .ok dw) := by
  obtain ⟨hlen, hopp⟩ := hl.gih_discard_lens ht
  have hf := length_filter_bne (gih_handOf_nodup hn g.turn.owner) hmem
  rcases hv.cases with ⟨hv, hcd, -, -⟩ | ⟨hv, hcd, -, -⟩
  · rw [hv]
    exact ⟨getDeadwood_rummy_own_total _ none, getDeadwood_rummy_own_total _ none⟩
  · rw [hv]
    exact ⟨getDeadwood_ricky_total (by omega) _ _, getDeadwood_ricky_total (by omega) _ _⟩

/-- **accepted iff allowed**, for every state of one of the two variants with distinct cards that is weakly live
(the proof of `GInv.accept_iff_allowed`; it uses neither `lastDraw` nor `firstTurn`) -/
theorem gih_accept_iff_allowed (shuffle : List Card → List Card) {g : GState} (hv : IsVariant g.params)
    (hn : g.allCards.Nodup) (hl : gvh_LiveW g) (m : Move) :
    (∃ g', g.apply shuffle m = .ok g') ↔ Allowed g m := by
  have hndd := hl.no_draw_from_deck
  cases m with
  | pass =>
    show (∃ g', g.firstTurnPass = .ok g') ↔ g.turn.isFirstDraw = true
    constructor
    · rintro ⟨g', h⟩; exact (firstTurnPass_ok.1 h).1
    · intro ht
      by_cases hft : g.firstTurn = oppDrawsFirst g.turn.owner
      · have hnd : g.turn.isDiscard = false ∧ g.turn.isKnock = false := by
          cases hT : g.turn <;> simp_all [Turn.isFirstDraw, Turn.isDiscard, Turn.isKnock]
        have hst := hl.stock hnd.1 hnd.2
        obtain ⟨c, rest, hd⟩ := List.exists_cons_of_length_pos (Nat.lt_of_le_of_lt (Nat.zero_le _) hst)
        exact ⟨_, firstTurnPass_ok.2 ⟨ht, .inr ⟨hft, c, rest, hd, rfl⟩⟩⟩
      · exact ⟨_, firstTurnPass_ok.2 ⟨ht, .inl ⟨hft, rfl⟩⟩⟩
  | draw d =>
    cases d with
    | true =>
      show (∃ g', g.drawCard true = .ok g') ↔ (g.turn.isFirstDraw = true ∨ g.turn.isDraw = true) ∧ g.discard ≠ []
      constructor
      · rintro ⟨g', h⟩
        obtain ⟨c, rest, ht, -, -, hdisc, -⟩ := drawCard_true_ok.1 h
        refine ⟨?_, by rw [hdisc]; simp⟩
        cases hT : g.turn <;> simp_all [Turn.isDraw, Turn.isFirstDraw, Turn.isDrawFromDeck]
      · rintro ⟨ht, hne⟩
        obtain ⟨rest, c, hdisc⟩ := (List.eq_nil_or_concat g.discard).resolve_left hne
        rw [List.concat_eq_append] at hdisc
        have hnd : g.turn.isDiscard = false := by
          cases hT : g.turn <;> simp_all [Turn.isDraw, Turn.isFirstDraw, Turn.isDiscard]
        have hlens := hl.gih_lens hnd
        refine ⟨_, drawCard_true_ok.2 ⟨c, rest, ?_, fun _ => hlens.1, fun _ => hlens.2, hdisc, rfl⟩⟩
        cases hT : g.turn <;> simp_all [Turn.isDraw, Turn.isFirstDraw, Turn.isDrawFromDeck]
    | false =>
      show (∃ g', g.drawCard false = .ok g') ↔ g.turn.isDraw = true ∧ g.deck ≠ []
      constructor
      · rintro ⟨g', h⟩
        obtain ⟨c, rest, ht, -, -, hdeck, -⟩ := drawCard_false_ok.1 h
        refine ⟨?_, by rw [hdeck]; simp⟩
        cases hT : g.turn <;> simp_all [Turn.isDraw, Turn.isDrawFromDeck]
      · rintro ⟨ht, hne⟩
        obtain ⟨c, rest, hdeck⟩ := List.exists_cons_of_ne_nil hne
        have hnd : g.turn.isDiscard = false := by
          cases hT : g.turn <;> simp_all [Turn.isDraw, Turn.isDiscard]
        have hlens := hl.gih_lens hnd
        exact ⟨_, drawCard_false_ok.2 ⟨c, rest, by simp [ht], fun _ => hlens.1, fun _ => hlens.2, hdeck, rfl⟩⟩
  | discard c =>
    show (∃ g', g.discardCard shuffle c = .ok g') ↔ g.turn.isDiscard = true ∧ c ∈ g.handOf g.turn.owner
    constructor
    · rintro ⟨g', h⟩
      obtain ⟨h1, -, h3, -⟩ := discardCard_ok.1 h
      exact ⟨h1, h3⟩
    · rintro ⟨ht, hmem⟩
      obtain ⟨hlen, -⟩ := hl.gih_discard_lens ht
      obtain ⟨⟨dw, hdw⟩, ⟨odw, hodw⟩⟩ := gih_discard_deadwood_total hv hn hl ht hmem
      by_cases h0 : dw = 0
      · exact ⟨_, discardCard_ok.2 ⟨ht, hlen, hmem, dw, hdw, .inr ⟨h0, odw, hodw, rfl⟩⟩⟩
      · exact ⟨_, discardCard_ok.2 ⟨ht, hlen, hmem, dw, hdw, .inl ⟨h0, rfl⟩⟩⟩
  | knock k ms =>
    show (∃ g', g.decideKnock shuffle k ms = .ok g') ↔ g.turn.isKnock = true ∧
      (k = true → ∀ l, ms = some l → ∀ m ∈ l, (suitPartition m).length = 1 ∨ (rankPartition m).length = 1)
    constructor
    · rintro ⟨g', h⟩
      obtain ⟨ht, hrest⟩ := decideKnock_ok.1 h
      refine ⟨ht, ?_⟩
      have hv := hl.knock_rummy ht
      rintro rfl
      rcases hrest with ⟨hk, -⟩ | ⟨-, a, b, -, hb, -⟩
      · cases hk
      · rw [hv] at hb
        exact (getDeadwood_rummy_opp_ok_iff _ _).1 ⟨b, hb⟩
    · rintro ⟨ht, hk⟩
      have hv := hl.knock_rummy ht
      cases k with
      | false =>
        cases hw : (g.checkWall shuffle).1
        · exact ⟨_, decideKnock_ok.2 ⟨ht, .inl ⟨rfl, .inr ⟨hw, hv, rfl⟩⟩⟩⟩
        · exact ⟨_, decideKnock_ok.2 ⟨ht, .inl ⟨rfl, .inl ⟨hw, rfl⟩⟩⟩⟩
      | true =>
        obtain ⟨a, ha⟩ := getDeadwood_rummy_own_total (g.handOf g.turn.owner) ms
        obtain ⟨b, hb⟩ := (getDeadwood_rummy_opp_ok_iff (g.handOf (!g.turn.owner)) ms).2 (hk rfl)
        exact ⟨_, decideKnock_ok.2 ⟨ht, .inr ⟨rfl, a, b, by rw [hv]; exact ha, by rw [hv]; exact hb, rfl⟩⟩⟩

/-- a pass, read off `firstTurnPass_ok` (`GInv.pass_next`; of the start it needs only that the recorded first turn is
an opening turn whenever the current turn is one) -/
theorem gih_pass_next {g g' : GState} (hfd : g.turn.isFirstDraw = true → g.firstTurn.isFirstDraw = true)
    (hc : g.complete = false) (hp : g.firstTurnPass = .ok g') :
    g'.complete = false ∧ g'.turns = g.turns + 1 ∧
    (g.turn = g.firstTurn → g'.turn = oppDrawsFirst g.turn.owner ∧ g'.deck = g.deck ∧ g'.p1 = g.p1 ∧ g'.p2 = g.p2) ∧
    (g.turn ≠ g.firstTurn → g'.turn = ownDiscards g.firstTurn.owner ∧
        ∃ c rest, g.deck = c :: rest ∧ g'.deck = rest ∧
          g'.handOf g.firstTurn.owner = g.handOf g.firstTurn.owner ++ [c]) := by
  obtain ⟨ht, ⟨hft, rfl⟩ | ⟨hft, c, rest, hdeck, rfl⟩⟩ := firstTurnPass_ok.1 hp
  · have hfd := hfd ht
    exact ⟨hc, rfl, fun _ => ⟨rfl, rfl, rfl, rfl⟩, fun hne => absurd ((firstDraw_eq_iff ht hfd).2 hne) hft⟩
  · have hfd := hfd ht
    have ho : g.firstTurn.owner = !g.turn.owner := by rw [hft]; cases g.turn.owner <;> rfl
    refine ⟨hc, rfl, fun he => absurd he ((firstDraw_eq_iff ht hfd).1 hft), fun _ => ⟨?_, c, rest, hdeck, rfl, ?_⟩⟩
    · rw [ho]
    · rw [ho]; cases g.turn.owner <;> rfl

/-! ## §3 the result of a completed game -/

/-- **every completed game reachable from a restored game shows a proper score** (the proof of `reach_goodScore`;
of the invariant it uses the variant and "a knock turn is a gin rummy turn") -/
theorem gih_reach_goodScore {shuffle : List Card → List Card} (hs : ∀ l, (shuffle l).Perm l) {g0 g : GState}
    (hd : DealH g0) (h : Reach shuffle g0 g) (hc : g.complete = true) : GoodScore g := by
  cases h with
  | init =>
    rw [hd.gvh_init.2.2.2.1] at hc; cases hc
  | @step g1 _ m hr hc1 happ =>
    have hi := gvh_reach_inv hs hd hr
    have hv := hi.variant
    cases m with
    | pass =>
      have := pass_draw_complete (g := g1) (g' := g) (.inl happ)
      rw [hc, hc1] at this; cases this
    | draw d =>
      have := pass_draw_complete (g := g1) (g' := g) (.inr ⟨d, happ⟩)
      rw [hc, hc1] at this; cases this
    | discard c =>
      obtain ⟨dw, -, -, hgin, hplain⟩ := discardCard_end hv hc1 happ
      by_cases h0 : dw = 0
      · obtain ⟨od, hod, hpts⟩ := hgin hc h0
        have h1 : 0 ≤ od + g1.params.ginBonus := by
          have := getDeadwood_nonneg hod
          have := hv.ginBonus_nonneg
          omega
        cases hO : g1.turn.owner <;> simp only [hO, if_true, if_false, Bool.false_eq_true] at hpts
        · exact goodScore_of_pair hpts h1 (le_refl _) (.inr rfl)
        · exact goodScore_of_pair hpts (le_refl _) h1 (.inl rfl)
      · exact goodScore_of_pair (hplain hc h0) (le_refl _) (le_refl _) (.inl rfl)
    | knock k ms =>
      cases k
      · exact goodScore_of_pair ((decideKnock_false_end happ hc1).2 hc) (le_refl _) (le_refl _) (.inl rfl)
      · obtain ⟨kd, od, hkd, hod, -, hpts⟩ := decideKnock_true_end happ
        have hturn : g1.turn.isKnock = true := (decideKnock_ok.1 happ).1
        have hub := hv.underknockBonus_rummy ((hi.live hc1).knock_rummy hturn)
        have hk0 := getDeadwood_nonneg hkd
        have ho0 := getDeadwood_nonneg hod
        obtain ⟨s1, s2, s3⟩ := normPoints_spec
          (a := if od ≤ kd then kd + g1.params.underknockBonus else kd) (b := od)
          (by split <;> omega) ho0 (by split <;> omega)
        cases hO : g1.turn.owner <;> simp only [hO, if_true, if_false, Bool.false_eq_true] at hpts
        · exact goodScore_of_pair hpts s2 s1 s3.symm
        · exact goodScore_of_pair hpts s1 s2 s3

end CardVerif.Gin
