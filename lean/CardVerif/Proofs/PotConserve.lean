import CardVerif.Proofs.ListLemmas
import CardModel.Model.Pot
/-!
# Conservation and non-negativity for `Pot.settle` (C02, used by C01)

The loops of `settle` preserve `sumQ pay + sumI bal`, the lengths, and non-negativity of both
lists; `settle` only returns `.ok` through the `sumI bal = 0` exit.
-/
namespace CardVerif.Pot

/-- loop invariant of `settle` for `n` seats and `S` chips in total -/
structure Inv (n : Nat) (S : Rat) (st : St) : Prop where
  lenB : st.bal.length = n
  lenP : st.pay.length = n
  balNN : ∀ b ∈ st.bal, 0 ≤ b
  payNN : ∀ x ∈ st.pay, 0 ≤ x
  total : sumQ st.pay + ((sumI st.bal : Int) : Rat) = S

theorem sumI_min_nonneg (l : List Int) (inc : Int) (hl : ∀ b ∈ l, 0 ≤ b) (hi : 0 ≤ inc) :
    0 ≤ sumI (l.map fun b => min b inc) := by
  apply sumI_nonneg
  intro b hb
  obtain ⟨a, ha, rfl⟩ := List.mem_map.1 hb
  have := hl a ha
  omega

theorem stepInc_inv {n : Nat} {S : Rat} (tier : List Nat) (htier : ∀ w ∈ tier, w < n)
    (st st' : St) (inc : Int) (hinc : 0 ≤ inc) (hinv : Inv n S st)
    (h : stepInc tier st inc = .ok st') : Inv n S st' := by
  unfold stepInc at h
  simp only at h
  split at h
  · cases h; exact hinv
  · split at h
    · cases h
    · rename_i hk
      cases h
      have hk' : ((tier.filter fun w => decide (inc ≤ getI st.bal w)).length : Rat) ≠ 0 := by
        exact_mod_cast hk
      have hmpw := sumQ_div st.bal inc ((tier.filter fun w => decide (inc ≤ getI st.bal w)).length : Nat)
      have hS := sumI_min_nonneg st.bal inc hinv.balNN hinc
      refine ⟨by simpa using hinv.lenB, ?_, ?_, ?_, ?_⟩
      · simp only [length_foldl_modify]; exact hinv.lenP
      · intro b hb
        obtain ⟨a, _, rfl⟩ := List.mem_map.1 hb
        omega
      · apply nonneg_foldl_modify _ _ _ _ hinv.payNN
        rw [hmpw]
        apply div_nonneg
        · exact_mod_cast hS
        · exact Nat.cast_nonneg _
      · simp only
        rw [sumQ_foldl_modify, hmpw]
        · have hsp := sum_split st.bal inc hinv.balNN
          have ht := hinv.total
          rw [← hsp] at ht
          push_cast at ht
          rw [← ht]
          field_simp
          ring
        · intro w hw
          rw [hinv.lenP]
          exact htier w (List.mem_filter.1 hw).1

theorem stepIncs_inv {n : Nat} {S : Rat} (tier : List Nat) (htier : ∀ w ∈ tier, w < n)
    (incs : List Int) (hincs : ∀ i ∈ incs, 0 ≤ i) (st st' : St) (hinv : Inv n S st)
    (h : stepIncs tier st incs = .ok st') : Inv n S st' := by
  induction incs generalizing st with
  | nil => simp only [stepIncs] at h; cases h; exact hinv
  | cons inc incs ih =>
    simp only [stepIncs] at h
    cases hs : stepInc tier st inc with
    | error e => rw [hs] at h; cases h
    | ok st1 =>
      rw [hs] at h
      exact ih (fun i hi => hincs i (by simp [hi])) st1
        (stepInc_inv tier htier st st1 inc (hincs inc (by simp)) hinv hs) h

theorem settleTiers_inv {n : Nat} {S : Rat} (tiers : List (List Nat))
    (htiers : ∀ t ∈ tiers, ∀ w ∈ t, w < n) (st st' : St) (hinv : Inv n S st)
    (h : settleTiers st tiers = .ok st') : Inv n S st' ∧ sumI st'.bal = 0 := by
  induction tiers generalizing st with
  | nil => simp [settleTiers] at h
  | cons tier tiers ih =>
    simp only [settleTiers] at h
    cases hs : stepIncs tier st (invCumsum (sortI (tier.map (getI st.bal)))) with
    | error e => rw [hs] at h; cases h
    | ok st1 =>
      rw [hs] at h
      have hinc : ∀ i ∈ invCumsum (sortI (tier.map (getI st.bal))), 0 ≤ i := by
        apply invCumsum_sortI_nonneg
        intro b hb
        obtain ⟨w, _, rfl⟩ := List.mem_map.1 hb
        exact getI_nonneg _ hinv.balNN w
      have hinv1 := stepIncs_inv tier (htiers tier (by simp)) _ hinc st st1 hinv hs
      simp only [bind, Except.bind] at h
      split at h
      · rename_i hz; cases h; exact ⟨hinv1, hz⟩
      · exact ih (fun t ht => htiers t (by simp [ht])) st1 hinv1 h

theorem settle_inv (c : List Int) (tiers : List (List Nat)) (pay : List Rat)
    (hc : ∀ b ∈ c, 0 ≤ b) (h : settle c tiers = .ok pay) :
    sumQ pay = ((sumI c : Int) : Rat) ∧ pay.length = c.length ∧ ∀ x ∈ pay, 0 ≤ x := by
  unfold settle at h
  simp only [bind, Except.bind] at h
  split at h
  · cases h
  · rename_i hr
    have hr' : ∀ t ∈ tiers, ∀ w ∈ t, w < c.length := by
      simpa [List.all_eq_true] using hr
    cases hs : settleTiers { bal := c, pay := c.map fun _ => 0 } tiers with
    | error e => rw [hs] at h; cases h
    | ok st1 =>
      rw [hs] at h
      cases h
      have hinv0 : Inv c.length ((sumI c : Int) : Rat) { bal := c, pay := c.map fun _ => 0 } := by
        refine ⟨rfl, by simp, hc, ?_, ?_⟩
        · intro x hx; obtain ⟨_, _, rfl⟩ := List.mem_map.1 hx; exact le_refl _
        · simp only; rw [sumQ_map_zero c _ (fun _ _ => rfl)]; simp
      obtain ⟨hinv, hz⟩ := settleTiers_inv tiers hr' _ st1 hinv0 hs
      refine ⟨?_, ?_, hinv.payNN⟩
      · have := hinv.total; rw [hz] at this; simpa using this
      · exact hinv.lenP

end CardVerif.Pot
