import CardVerif.Proofs.Rank5Table2
import CardVerif.Proofs.Rank5Table3
import CardVerif.Proofs.Rank5Table4
import CardVerif.Proofs.Rank5Table5
import CardVerif.Proofs.Rank5Table6
/-!
# C05 — the finite table assembled: every sorted valid value tuple, both flush flags
-/
namespace CardVerif.C05
open CardVerif CardVerif.Rank5 CardVerif.Poker5

theorem checkFrom_all (a : Nat) (h2 : 2 ≤ a) (h14 : a ≤ 14) : checkFrom a = true := by
  have : a = 2 ∨ a = 3 ∨ a = 4 ∨ a = 5 ∨ a = 6 ∨ a = 7 ∨ a = 8 ∨ a = 9 ∨ a = 10 ∨ a = 11 ∨
      a = 12 ∨ a = 13 ∨ a = 14 := by omega
  rcases this with rfl | rfl | rfl | rfl | rfl | rfl | rfl | rfl | rfl | rfl | rfl | rfl | rfl
  · exact table_2
  · exact table_3
  · exact table_4
  · exact table_5
  · exact table_6
  · exact table_7
  · exact table_8
  · exact table_9
  · exact table_10
  · exact table_11
  · exact table_12
  · exact table_13
  · exact table_14

/-- one entry of the table -/
theorem table_entry (a b c d e : Nat) (fl : Bool) (h2 : 2 ≤ a) (hab : a ≤ b) (hbc : b ≤ c)
    (hcd : c ≤ d) (hde : d ≤ e) (he : e ≤ 14) (hval : validV [a, b, c, d, e] fl = true) :
    rank5v [a, b, c, d, e] fl = .ok (specKeyV [a, b, c, d, e] fl) := by
  have h := checkFrom_all a h2 (by omega)
  unfold checkFrom at h
  rw [List.all_eq_true] at h
  have h := h b (List.mem_range'_1.2 ⟨hab, by omega⟩)
  rw [List.all_eq_true] at h
  have h := h c (List.mem_range'_1.2 ⟨hbc, by omega⟩)
  rw [List.all_eq_true] at h
  have h := h d (List.mem_range'_1.2 ⟨hcd, by omega⟩)
  rw [List.all_eq_true] at h
  have h := h e (List.mem_range'_1.2 ⟨hde, by omega⟩)
  rw [List.all_eq_true] at h
  have h := h fl (by cases fl <;> simp)
  rw [hval] at h
  exact of_decide_eq_true (by simpa using h)

end CardVerif.C05
