import CardVerif.Proofs.Rank5TableDefs
import Mathlib.Data.List.Dedup
import Mathlib.Data.List.Nodup
import Mathlib.Data.List.Perm.Basic
/-!
# Helper lemmas for C05 (five-card rank)

* `sortBy` is a permutation, is sorted, and therefore is constant on permutation classes;
* `CardVerif.dedup` is Mathlib's `List.dedup`;
* `rank5v`, `specKeyV`, `isFlush`, `allSameSuit`, `validV` are invariant under permutation;
* `isFlush = allSameSuit`;
* the value list of five distinct valid cards satisfies `validV`.
-/
namespace CardVerif
open List

/-! ## `sortBy` -/

section SortSec
variable {α : Type} (le : α → α → Bool)

theorem perm_insertBy (x : α) : ∀ l : List α, (insertBy le x l).Perm (x :: l)
  | [] => Perm.refl _
  | y :: ys => by
    unfold insertBy
    split
    · exact Perm.refl _
    · exact ((perm_insertBy x ys).cons y).trans (Perm.swap _ _ _)

theorem perm_sortBy : ∀ l : List α, (sortBy le l).Perm l
  | [] => Perm.refl _
  | x :: xs => (perm_insertBy le x (sortBy le xs)).trans ((perm_sortBy xs).cons x)

variable (tot : ∀ a b, le a b = true ∨ le b a = true)
  (tr : ∀ a b c, le a b = true → le b c = true → le a c = true)
include tot tr

theorem pairwise_insertBy (x : α) :
    ∀ l : List α, l.Pairwise (fun a b => le a b = true) →
      (insertBy le x l).Pairwise (fun a b => le a b = true)
  | [], _ => by simp [insertBy]
  | y :: ys, h => by
    have hy := (pairwise_cons.1 h)
    unfold insertBy
    split
    · rename_i hxy
      refine pairwise_cons.2 ⟨?_, h⟩
      intro z hz
      rcases mem_cons.1 hz with rfl | hz
      · exact hxy
      · exact tr _ _ _ hxy (hy.1 z hz)
    · rename_i hxy
      refine pairwise_cons.2 ⟨?_, pairwise_insertBy x ys hy.2⟩
      intro z hz
      rcases mem_cons.1 ((perm_insertBy le x ys).subset hz) with rfl | hz
      · exact (tot z y).resolve_left hxy
      · exact hy.1 z hz

theorem pairwise_sortBy : ∀ l : List α, (sortBy le l).Pairwise (fun a b => le a b = true)
  | [] => Pairwise.nil
  | x :: xs => pairwise_insertBy le tot tr x _ (pairwise_sortBy xs)

theorem sortBy_congr_perm (anti : ∀ a b, le a b = true → le b a = true → a = b)
    {l₁ l₂ : List α} (hp : l₁.Perm l₂) : sortBy le l₁ = sortBy le l₂ :=
  Perm.eq_of_pairwise (fun a b _ _ => anti a b) (pairwise_sortBy le tot tr l₁)
    (pairwise_sortBy le tot tr l₂) (((perm_sortBy le l₁).trans hp).trans (perm_sortBy le l₂).symm)

end SortSec

theorem perm_sortN (l : List Nat) : (sortN l).Perm l := perm_sortBy _ l
theorem perm_sortNDesc (l : List Nat) : (sortNDesc l).Perm l := perm_sortBy _ l

theorem pairwise_sortN (l : List Nat) : (sortN l).Pairwise (· ≤ ·) := by
  have := pairwise_sortBy (fun a b : Nat => decide (a ≤ b)) (by intro a b; simp; omega)
    (by intro a b c; simp; omega) l
  simpa [sortN] using this

theorem sortN_congr {l₁ l₂ : List Nat} (hp : l₁.Perm l₂) : sortN l₁ = sortN l₂ :=
  sortBy_congr_perm _ (by intro a b; simp; omega) (by intro a b c; simp; omega)
    (by intro a b; simp; omega) hp

theorem sortNDesc_congr {l₁ l₂ : List Nat} (hp : l₁.Perm l₂) : sortNDesc l₁ = sortNDesc l₂ :=
  sortBy_congr_perm _ (by intro a b; simp; omega) (by intro a b c; simp; omega)
    (by intro a b; simp; omega) hp

/-! ## `dedup` -/

theorem dedup_eq {α : Type} [DecidableEq α] : ∀ l : List α, CardVerif.dedup l = l.dedup
  | [] => rfl
  | x :: xs => by
    unfold CardVerif.dedup
    split
    · rename_i h; rw [List.dedup_cons_of_mem h, dedup_eq xs]
    · rename_i h; rw [List.dedup_cons_of_notMem h, dedup_eq xs]

theorem dedup_perm {α : Type} [DecidableEq α] {l₁ l₂ : List α} (hp : l₁.Perm l₂) :
    (CardVerif.dedup l₁).Perm (CardVerif.dedup l₂) := by
  rw [dedup_eq, dedup_eq]; exact hp.dedup

/-- the distinct elements number one iff the list is non-empty and constant -/
theorem dedup_cons_length_eq_one {α : Type} [DecidableEq α] (a : α) (l : List α) :
    (CardVerif.dedup (a :: l)).length = 1 ↔ ∀ x ∈ l, x = a := by
  rw [dedup_eq]
  constructor
  · intro h x hx
    obtain ⟨b, hb⟩ := List.length_eq_one_iff.1 h
    have ha : a ∈ (a :: l).dedup := List.mem_dedup.2 mem_cons_self
    have hx' : x ∈ (a :: l).dedup := List.mem_dedup.2 (mem_cons_of_mem _ hx)
    rw [hb] at ha hx'
    rw [mem_singleton] at ha hx'
    rw [ha, hx']
  · intro h
    have hle : (a :: l).dedup.length ≤ [a].length :=
      (List.nodup_dedup _).length_le_of_subset (by
        intro x hx
        rcases mem_cons.1 (List.mem_dedup.1 hx) with rfl | hx
        · exact mem_singleton.2 rfl
        · exact mem_singleton.2 (h x hx))
    have hpos : 0 < (a :: l).dedup.length :=
      List.length_pos_of_mem (List.mem_dedup.2 (mem_cons_self (a := a) (l := l)))
    simp at hle
    omega

end CardVerif

namespace CardVerif.C05
open List hiding count
open CardVerif CardVerif.Rank5 CardVerif.Poker5

/-! ## permutation invariance on values -/

theorem count_congr {l₁ l₂ : List Nat} (hp : l₁.Perm l₂) (v : Nat) : count v l₁ = count v l₂ :=
  (hp.filter _).length_eq

theorem count_fun_congr {l₁ l₂ : List Nat} (hp : l₁.Perm l₂) :
    (fun v => count v l₁) = fun v => count v l₂ := funext (count_congr hp)

theorem withAceLow_perm {l₁ l₂ : List Nat} (hp : l₁.Perm l₂) :
    (withAceLow l₁).Perm (withAceLow l₂) := hp.flatMap_right _

theorem withCount_congr {l₁ l₂ : List Nat} (hp : l₁.Perm l₂) (c : Nat) :
    withCount l₁ c = withCount l₂ c := by
  unfold withCount
  apply sortNDesc_congr
  apply dedup_perm
  have : (fun v => count v l₁ == c) = fun v => count v l₂ == c := by
    funext v; rw [count_congr hp]
  rw [this]
  exact hp.filter _

theorem rank5v_congr {l₁ l₂ : List Nat} (hp : l₁.Perm l₂) (fl : Bool) :
    rank5v l₁ fl = rank5v l₂ fl := by
  unfold rank5v
  rw [sortN_congr (withAceLow_perm hp), withCount_congr hp 4, withCount_congr hp 3,
    withCount_congr hp 2, withCount_congr hp 1]

theorem distinctDesc_congr {l₁ l₂ : List Nat} (hp : l₁.Perm l₂) :
    distinctDesc l₁ = distinctDesc l₂ := sortNDesc_congr (dedup_perm hp)

theorem specKeyV_congr {l₁ l₂ : List Nat} (hp : l₁.Perm l₂) (fl : Bool) :
    specKeyV l₁ fl = specKeyV l₂ fl := by
  unfold specKeyV
  simp only [distinctDesc_congr hp, count_congr hp]

/-! ## suits -/

theorem isFlush_congr {h₁ h₂ : List Card} (hp : h₁.Perm h₂) : isFlush h₁ = isFlush h₂ := by
  unfold isFlush
  rw [(dedup_perm (hp.map (·.suit))).length_eq]

theorem allSameSuit_eq_isFlush : ∀ hand : List Card, allSameSuit hand = isFlush hand
  | [] => by simp [allSameSuit, isFlush, CardVerif.dedup]
  | c :: cs => by
    unfold allSameSuit isFlush
    rw [Bool.eq_iff_iff, List.all_eq_true, map_cons, beq_iff_eq, dedup_cons_length_eq_one]
    simp

theorem specKey_eq (hand : List Card) :
    specKey hand = specKeyV (hand.map (·.rank)) (isFlush hand) := by
  unfold specKey; rw [allSameSuit_eq_isFlush]

/-! ## the value list of five distinct valid cards is `validV` -/

theorem count_map_rank (hand : List Card) (v : Nat) :
    count v (hand.map (·.rank)) = (hand.filter fun c => c.rank == v).length := by
  unfold count
  rw [List.filter_map, length_map]
  rfl

theorem count_le_four (hand : List Card) (hnd : hand.Nodup) (hv : ∀ c ∈ hand, c.Valid) (v : Nat) :
    count v (hand.map (·.rank)) ≤ 4 := by
  rw [count_map_rank]
  have hnd' : ((hand.filter fun c => c.rank == v).map (·.suit)).Nodup := by
    apply Nodup.map_on _ (hnd.filter _)
    intro x hx y hy hs
    have hx' := (mem_filter.1 hx).2
    have hy' := (mem_filter.1 hy).2
    simp only [beq_iff_eq] at hx' hy'
    cases x; cases y; simp_all
  have hsub : (hand.filter fun c => c.rank == v).map (·.suit) ⊆ List.range 4 := by
    intro s hs
    obtain ⟨c, hc, rfl⟩ := mem_map.1 hs
    exact mem_range.2 (hv c (mem_filter.1 hc).1).2.2
  have := hnd'.length_le_of_subset hsub
  simpa using this

theorem flush_nodup_ranks (hand : List Card) (hnd : hand.Nodup) (hne : hand ≠ [])
    (hf : isFlush hand = true) : (hand.map (·.rank)).Nodup := by
  cases hand with
  | nil => exact absurd rfl hne
  | cons c cs =>
    rw [← allSameSuit_eq_isFlush] at hf
    unfold allSameSuit at hf
    rw [List.all_eq_true] at hf
    have hs : ∀ x ∈ c :: cs, x.suit = c.suit := by
      intro x hx
      rcases mem_cons.1 hx with rfl | hx
      · rfl
      · simpa using hf x hx
    apply Nodup.map_on _ hnd
    intro x hx y hy hr
    have h1 := hs x hx
    have h2 := hs y hy
    cases x; cases y; simp_all

theorem validV_congr {l₁ l₂ : List Nat} (hp : l₁.Perm l₂) (fl : Bool) :
    validV l₁ fl = validV l₂ fl := by
  unfold validV
  simp only [count_congr hp, (dedup_perm hp).length_eq]
  congr 1
  rw [Bool.eq_iff_iff, List.all_eq_true, List.all_eq_true]
  exact ⟨fun h x hx => h x (hp.symm.subset hx), fun h x hx => h x (hp.subset hx)⟩

theorem validV_hand (hand : List Card) (hlen : hand.length = 5) (hnd : hand.Nodup)
    (hv : ∀ c ∈ hand, c.Valid) : validV (hand.map (·.rank)) (isFlush hand) = true := by
  unfold validV
  rw [Bool.and_eq_true, List.all_eq_true]
  refine ⟨fun v _ => decide_eq_true (count_le_four hand hnd hv v), ?_⟩
  cases hf : isFlush hand with
  | false => rfl
  | true =>
    have hne : hand ≠ [] := by intro h; rw [h] at hlen; simp at hlen
    have := flush_nodup_ranks hand hnd hne hf
    rw [dedup_eq, this.dedup]
    simp [hlen]

end CardVerif.C05
