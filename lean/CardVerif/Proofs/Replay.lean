import CardVerif.Proofs.BettingInv
import CardVerif.Proofs.Accept
/-!
# Replay and snapshot (C15)

* §1 structure eta for `State`;
* §2 an accepted action, its log entry, and replaying the entry with the amount filled in;
* §3 `resetFromActionDicts` on a freshly constructed state re-creates that state; a reachable state is the fold of
  its own log from the constructed state;
* §4 the constructor applied to a snapshot of a hand in progress.
-/
namespace CardVerif.Betting
open CardVerif

/-! ## §1 structure eta -/

/-- two states with the same fields are equal -/
theorem State.ext' {s t : State} (h1 : s.game = t.game) (h2 : s.n = t.n) (h3 : s.hands = t.hands)
    (h4 : s.startingStacks = t.startingStacks) (h5 : s.ante = t.ante) (h6 : s.blinds = t.blinds)
    (h7 : s.runouts = t.runouts) (h8 : s.rake = t.rake) (h9 : s.sampler = t.sampler) (h10 : s.deck = t.deck)
    (h11 : s.board = t.board) (h12 : s.stacks = t.stacks) (h13 : s.pot = t.pot)
    (h14 : s.lastActions = t.lastActions) (h15 : s.street = t.street) (h16 : s.action = t.action)
    (h17 : s.log = t.log) (h18 : s.payouts = t.payouts) (h19 : s.rakePaid = t.rakePaid)
    (h20 : s.complete = t.complete) : s = t := by
  cases s; cases t
  simp only at h1 h2 h3 h4 h5 h6 h7 h8 h9 h10 h11 h12 h13 h14 h15 h16 h17 h18 h19 h20
  subst h1 h2 h3 h4 h5 h6 h7 h8 h9 h10 h11 h12 h13 h14 h15 h16 h17 h18 h19 h20
  rfl

/-! ## §2 one accepted action and its log entry -/

/-- the entry an accepted action writes: the seat, the action type, the amount filled in -/
theorem act_log {env : Env} (hw : env.w = World.std) {s s' : State} (hwf : s.WF) {p : Int} {ty : Option ActType}
    {amt : Option Int} (h : s.act env p ty amt = .ok s') :
    ∃ a t, s.action = some a ∧ p = (a : Int) ∧ ty = some t ∧ BuildOK s a t amt ∧
      ValidOK s a t (builtAmount s a t amt) ∧ s.complete = false ∧
      s'.log = s.log ++ [⟨p, t, builtAmount s a t amt⟩] ∧
      (afterAction s a p t (builtAmount s a t amt)).advanceAction env = .ok s' := by
  obtain ⟨s1, h1, h2⟩ := act_ok.1 h
  rw [hw] at h1
  obtain ⟨hc, a, t, hact, hp, hty, hB, hV, rfl⟩ := (appendAction_ok_iff hwf p ty amt s1).1 h1
  refine ⟨a, t, hact, hp, hty, hB, hV, hc, ?_, h2⟩
  rw [(advanceAction_frame h2).2.1.log]
  rfl

/-- filling in the amount that `build_action` computed is accepted by `build_action` and gives the same amount -/
theorem buildOK_filled {s : State} {a : Nat} {t : ActType} {amt : Option Int} (hB : BuildOK s a t amt)
    (hV : ValidOK s a t (builtAmount s a t amt)) :
    BuildOK s a t (some (builtAmount s a t amt)) ∧
    builtAmount s a t (some (builtAmount s a t amt)) = builtAmount s a t amt := by
  refine ⟨?_, rfl⟩
  cases t <;> cases amt <;> simp_all [BuildOK, builtAmount, ValidOK]

/-- **replaying an accepted action with its amount filled in** -/
theorem act_filled_amount {env : Env} (hw : env.w = World.std) {s s' : State} (hwf : s.WF) {p : Int}
    {ty : Option ActType} {amt : Option Int} (h : s.act env p ty amt = .ok s') :
    ∃ t x, ty = some t ∧ s'.log = s.log ++ [⟨p, t, x⟩] ∧ (∀ y, amt = some y → x = y) ∧
      s.act env p (some t) (some x) = .ok s' := by
  obtain ⟨a, t, hact, hp, hty, hB, hV, hc, hlog, hadv⟩ := act_log hw hwf h
  obtain ⟨hB', hx⟩ := buildOK_filled hB hV
  refine ⟨t, builtAmount s a t amt, hty, hlog, ?_, ?_⟩
  · rintro y rfl; rfl
  · refine act_ok.2 ⟨_, ?_, hadv⟩
    rw [hw]
    refine (appendAction_ok_iff hwf p (some t) _ _).2 ⟨hc, a, t, hact, hp, rfl, hB', ?_, ?_⟩
    · rw [hx]; exact hV
    · rw [hx]

/-! ## §3 `reset_state_from_action_dicts` on a constructed state; the log replays -/

/-- overwrite the seat to act -/
def State.setAction (x : Option Nat) (s : State) : State := { s with action := x }

theorem putMoneyInPot_setAction (x : Option Nat) (s : State) (p : Nat) (m : Int) :
    (s.setAction x).putMoneyInPot p m = (s.putMoneyInPot p m).map (State.setAction x) := by
  unfold State.putMoneyInPot
  show (if p ≥ s.n then _ else if m > getI s.stacks p then _ else _) = _
  by_cases h1 : p ≥ s.n
  · rw [if_pos h1, if_pos h1]; rfl
  · rw [if_neg h1, if_neg h1]
    by_cases h2 : m > getI s.stacks p
    · rw [if_pos h2, if_pos h2]; rfl
    · rw [if_neg h2, if_neg h2]; rfl

/-- a fold whose step commutes with `g` commutes with `g` -/
theorem foldlM_map_comm {α : Type} (g : State → State) (f : State → α → Except Err State)
    (hf : ∀ s a, f (g s) a = (f s a).map g) (l : List α) :
    ∀ s, l.foldlM f (g s) = (l.foldlM f s).map g := by
  induction l with
  | nil => intro s; rfl
  | cons a l ih =>
    intro s
    rw [List.foldlM_cons, List.foldlM_cons, hf]
    cases f s a with
    | error e => rfl
    | ok b => exact ih b

theorem extractAntes_setAction (x : Option Nat) (s : State) :
    (s.setAction x).extractAntes = s.extractAntes.map (State.setAction x) :=
  foldlM_map_comm (State.setAction x) (fun s p => s.putMoneyInPot p (min (getI s.stacks p) s.ante))
    (fun s p => putMoneyInPot_setAction x s p _) (List.range s.n) s

theorem extractBlinds_setAction (x : Option Nat) (s : State) :
    (s.setAction x).extractBlinds = s.extractBlinds.map (State.setAction x) :=
  foldlM_map_comm (State.setAction x) (fun s p => s.putMoneyInPot p (min (getI s.stacks p) (getI s.blinds p)))
    (fun s p => putMoneyInPot_setAction x s p _) (List.range s.blinds.length) s

/-- **resetting a freshly constructed state re-creates it**: `reset_state_from_action_dicts` is then just the fold of
`act` over the operations -/
theorem reset_construct (env : Env) {cfg : Cfg} {s0 : State} (h : construct cfg = .ok s0) (ops : List Op) :
    s0.resetFromActionDicts env ops = ops.foldlM (fun s o => s.act env o.player o.ty o.amount) s0 := by
  obtain ⟨_, _, _, _, blinds, s1, s2, a, hb, _, e1, e2, e3, rfl⟩ := construct_ok_iff.1 h
  have f := (extractAntes_frame e1).trans (extractBlinds_frame e2)
  have hR : ({ ({ s2 with action := some a } : State) with
        «stacks» := s2.startingStacks, pot := s2.startingStacks.map fun _ => 0,
        lastActions := s2.startingStacks.map fun _ => none, payouts := none, rakePaid := none,
        log := [], complete := false, street := 0 } : State) = (baseState cfg blinds).setAction (some a) :=
    State.ext' f.cfg.game f.cfg.n f.cfg.hands f.cfg.startingStacks f.cfg.ante f.cfg.blinds f.cfg.runouts f.cfg.rake
      f.cfg.sampler f.table.deck f.table.board f.cfg.startingStacks
      (congrArg (List.map fun _ => (0 : Int)) f.cfg.startingStacks)
      (congrArg (List.map fun _ => (none : Option ActType)) f.cfg.startingStacks) rfl rfl rfl rfl rfl rfl
  show (State.extractAntes _ >>= fun t1 => t1.extractBlinds >>= fun t2 => t2.getStartingAction >>= fun b =>
    ops.foldlM (fun s o => s.act env o.player o.ty o.amount) { t2 with action := some b }) = _
  rw [hR, extractAntes_setAction, e1]
  show ((s1.setAction (some a)).extractBlinds >>= _) = _
  rw [extractBlinds_setAction, e2]
  show ((s2.getStartingAction) >>= _) = _
  rw [e3]
  rfl

/-- the log is empty after construction and grows by exactly the replayable entry: a reachable state is the fold of
its own log, from the constructed state -/
theorem reachable_fold_log {env : Env} (hw : env.w = World.std) {cfg : Cfg} (hv : cfg.Valid) {s : State}
    (h : Reachable env cfg s) :
    ∃ s0, construct cfg = .ok s0 ∧
      (s.log.map fun e => (⟨e.player, some e.act, some e.amount⟩ : Op)).foldlM
        (fun st o => st.act env o.player o.ty o.amount) s0 = .ok s := by
  induction h with
  | @init s h0 =>
    refine ⟨s, h0, ?_⟩
    obtain ⟨_, _, _, _, _, _, _, _, _, _, _, _, hlog, _⟩ := construct_frame h0
    rw [hlog]; rfl
  | @step s s' p ty amt hr hact ih =>
    obtain ⟨s0, h0, hfold⟩ := ih
    have hwf := (reachable_inv hw hv hr).wf hv
    obtain ⟨t, x, _, hlog, _, hre⟩ := act_filled_amount hw hwf hact
    refine ⟨s0, h0, ?_⟩
    rw [hlog, List.map_append, List.foldlM_append, hfold]
    show List.foldlM (fun st o => st.act env o.player o.ty o.amount) s [(⟨p, some t, some x⟩ : Op)] = _
    rw [List.foldlM_cons, hre]
    rfl

/-- **`from_action_dicts` on a reachable state's own log rebuilds the state** -/
theorem fromActionDicts_log {env : Env} (hw : env.w = World.std) {cfg : Cfg} (hv : cfg.Valid) {s : State}
    (h : Reachable env cfg s) :
    fromActionDicts env cfg (s.log.map fun e => (⟨e.player, some e.act, some e.amount⟩ : Op)) = .ok s := by
  obtain ⟨s0, h0, hfold⟩ := reachable_fold_log hw hv h
  unfold fromActionDicts
  rw [h0]
  show s0.resetFromActionDicts env _ = _
  rw [reset_construct env h0, hfold]

/-! ## §4 the constructor applied to a snapshot -/

/-- the constructor with a snapshot, without the `do` sugar -/
theorem construct_resume_eq (cfg : Cfg) (r : Resume) :
    construct cfg (some r) =
      if cfg.hands.any (fun h => h.length != cfg.game.holeCards) then .error .badLength else
      cfgBlinds cfg >>= fun blinds =>
      if cfg.n < 2 then .error .badConfig else
      if cfg.hands.length != cfg.n then .error .badConfig else
      if cfg.startingStacks.length != cfg.n then .error .badConfig else
      if cfg.ante == 0 && !(blinds.any (· != 0)) then .error .badConfig else
      .ok { baseState cfg blinds with
              «stacks» := r.stacks, pot := r.pot, street := r.street,
              action := some r.action, lastActions := r.lastActions, log := r.log } := by
  unfold construct cfgBlinds
  by_cases h1 : (cfg.hands.any fun h => h.length != cfg.game.holeCards) = true
  · rw [if_pos h1, if_pos h1]
  · rw [if_neg h1, if_neg h1]
    by_cases h2 : (cfg.n == 2) = true
    · simp only [h2, if_true]
      cases cfg.blinds with
      | none => rfl
      | some l => rcases l with _ | ⟨a, _ | ⟨b, l⟩⟩ <;> rfl
    · simp only [h2]
      rfl

/-- the stored blinds are a fixed point of the heads-up flip: handing them back to the constructor keeps them -/
theorem cfgBlinds_idem {cfg cfg' : Cfg} {bl : List Int} (h : cfgBlinds cfg = .ok bl) (hn : cfg'.n = cfg.n)
    (hb : cfg'.blinds = some bl) : cfgBlinds cfg' = .ok bl := by
  unfold cfgBlinds at h ⊢
  rw [hn, hb]
  by_cases h2 : (cfg.n == 2) = true
  · simp only [h2, if_true] at h ⊢
    split at h
    · rename_i b0 b1 rest _
      simp only [pure, Except.pure, Except.ok.injEq] at h
      by_cases hlt : b0 < b1
      · rw [if_pos hlt] at h
        subst h
        have : ¬ b1 < b0 := by omega
        simp [this, pure, Except.pure]
      · rw [if_neg hlt] at h
        subst h
        simp [hlt, pure, Except.pure]
    · cases h
  · simp only [h2] at h ⊢
    simp only [Bool.false_eq_true, if_false, pure, Except.pure, Except.ok.injEq] at h ⊢

/-- **snapshot**: for a hand in progress, the constructor applied to the configuration (with the state's deck, board
and stored blinds) and the serialisable fields gives back the state -/
theorem construct_snapshot {env : Env} {cfg : Cfg} (hv : cfg.Valid) {s : State} (h : Reachable env cfg s)
    (hc : s.complete = false) {a : Nat} (ha : s.action = some a) :
    construct { cfg with deck := s.deck, board := s.board, blinds := some s.blinds }
      (some ⟨s.stacks, s.pot, s.street, a, s.lastActions, s.log⟩) = .ok s := by
  have hcf := reachable_cfgOf h
  obtain ⟨hpay, hrake⟩ := reachable_no_payouts h hc
  obtain ⟨bl, hbl, _, _, hnz⟩ := cfgBlinds_valid hv
  have hbl' : bl = s.blinds := by
    have := hcf.blinds; rw [hbl] at this; exact Except.ok.inj this
  subst hbl'
  rw [construct_resume_eq,
    cfgBlinds_idem (cfg' := { cfg with deck := s.deck, board := s.board, blinds := some s.blinds }) hbl rfl rfl]
  have g0 : ¬ ((cfg.hands.any fun h => h.length != cfg.game.holeCards) = true) := by
    intro h1
    simp only [List.any_eq_true, bne_iff_ne, ne_eq] at h1
    obtain ⟨x, hx, hne⟩ := h1
    exact hne (hv.hole x hx)
  have g1 : ¬ cfg.n < 2 := by have := hv.n_ge; omega
  have g2 : ¬ ((cfg.hands.length != cfg.n) = true) := by simp [hv.hands_len]
  have g3 : ¬ ((cfg.startingStacks.length != cfg.n) = true) := by simp [hv.stacks_len]
  have g4 : ¬ ((cfg.ante == 0 && !(s.blinds.any (· != 0))) = true) := by
    rcases hnz with h | h
    · simp [h]
    · simp [h]
  show (if (cfg.hands.any fun h => h.length != cfg.game.holeCards) = true then _ else
    (Except.ok s.blinds >>= fun blinds => if cfg.n < 2 then _ else if (cfg.hands.length != cfg.n) = true then _ else
      if (cfg.startingStacks.length != cfg.n) = true then _ else
      if (cfg.ante == 0 && !(blinds.any (· != 0))) = true then _ else _)) = _
  rw [if_neg g0]
  show (if cfg.n < 2 then _ else if (cfg.hands.length != cfg.n) = true then _ else
      if (cfg.startingStacks.length != cfg.n) = true then _ else
      if (cfg.ante == 0 && !(s.blinds.any (· != 0))) = true then _ else _) = _
  rw [if_neg g1, if_neg g2, if_neg g3, if_neg g4]
  exact congrArg Except.ok (State.ext' hcf.game.symm hcf.n.symm hcf.hands.symm hcf.startingStacks.symm hcf.ante.symm
    rfl hcf.runouts.symm hcf.rake.symm hcf.sampler.symm rfl rfl rfl rfl rfl rfl ha.symm rfl hpay.symm hrake.symm
    hc.symm)

end CardVerif.Betting
