import CardVerif.Proofs.BettingInv
import CardVerif.Proofs.Closure
import CardVerif.Proofs.Accept
import CardVerif.Proofs.Protocol
import CardModel.Spec.RankTotalOn
import Mathlib.Data.List.Nodup
import Mathlib.Data.List.Perm.Basic
/-!
# Progress of the betting engine (C13)

* §1 generic: `mapM` on `Except`, `sortBy` is a permutation, `dedupFirst`, the tiers of `bestHandsGeneric`;
* §2 settlement never fails on a usable ranking (`settleShowdown_total`), lengths without any sign hypothesis;
* §3 the invariant `Mid` of the states `advance_action` goes through, and totality of each of its steps;
* §4 the strengthened invariant `Inv2` of reachable states.

The evaluator is only required to succeed on distinct valid cards (`RankTotalOn`): a game whose cards are dealt from
one deck (`Cfg.Dealt`) keeps `board ++ deck` equal to the configured cards (`CardsOf`), and a run-out takes distinct
cards of the deck, so the evaluator only ever sees such cards.  The statements with `RankTotal` are corollaries.
-/
namespace CardVerif.Betting
open CardVerif

/-! ## §1 generic lemmas -/

theorem mapM_ok_map {ε α β : Type} (f : α → Except ε β) (g : α → β) (l : List α)
    (h : ∀ x ∈ l, f x = .ok (g x)) : l.mapM f = .ok (l.map g) := by
  induction l with
  | nil => rfl
  | cons x l ih =>
    rw [List.mapM_cons, h x (by simp), ih (fun y hy => h y (by simp [hy]))]
    rfl

theorem mapM_total {ε α β : Type} (f : α → Except ε β) (l : List α) (h : ∀ x ∈ l, ∃ y, f x = .ok y) :
    ∃ ys, l.mapM f = .ok ys ∧ ys.length = l.length := by
  induction l with
  | nil => exact ⟨[], rfl, rfl⟩
  | cons x l ih =>
    obtain ⟨y, hy⟩ := h x (by simp)
    obtain ⟨ys, hys, hl⟩ := ih (fun z hz => h z (by simp [hz]))
    refine ⟨y :: ys, ?_, by simp [hl]⟩
    rw [List.mapM_cons, hy, hys]
    rfl

theorem foldlM_ok {ε α β : Type} (f : β → α → Except ε β) (l : List α) (b : β)
    (h : ∀ b a, a ∈ l → ∃ b1, f b a = .ok b1) : ∃ b', l.foldlM f b = .ok b' := by
  obtain ⟨b', hb', _⟩ := foldlM_total (fun _ => True) f l b (fun b a ha _ => by
    obtain ⟨b1, h1⟩ := h b a ha
    exact ⟨b1, h1, trivial⟩) trivial
  exact ⟨b', hb'⟩

theorem insertBy_perm {α : Type} (le : α → α → Bool) (x : α) (l : List α) : (insertBy le x l).Perm (x :: l) := by
  induction l with
  | nil => exact List.Perm.refl _
  | cons y ys ih =>
    unfold insertBy
    split
    · exact List.Perm.refl _
    · exact (List.Perm.cons y ih).trans (List.Perm.swap x y ys)

theorem sortBy_perm {α : Type} (le : α → α → Bool) (l : List α) : (sortBy le l).Perm l := by
  induction l with
  | nil => exact List.Perm.refl _
  | cons y ys ih =>
    have : sortBy le (y :: ys) = insertBy le y (sortBy le ys) := rfl
    rw [this]
    exact (insertBy_perm le y _).trans (List.Perm.cons y ih)

theorem dedupFirst_aux {α : Type} [DecidableEq α] (l acc : List α) (hacc : acc.Nodup) :
    (l.foldl (fun acc x => if x ∈ acc then acc else acc ++ [x]) acc).Nodup ∧
    ∀ x, x ∈ l.foldl (fun acc x => if x ∈ acc then acc else acc ++ [x]) acc ↔ x ∈ acc ∨ x ∈ l := by
  induction l generalizing acc with
  | nil => simp [hacc]
  | cons y ys ih =>
    simp only [List.foldl_cons]
    by_cases hy : y ∈ acc
    · rw [if_pos hy]
      obtain ⟨h1, h2⟩ := ih acc hacc
      refine ⟨h1, fun x => ?_⟩
      rw [h2, List.mem_cons]
      constructor
      · rintro (h | h)
        · exact Or.inl h
        · exact Or.inr (Or.inr h)
      · rintro (h | rfl | h)
        · exact Or.inl h
        · exact Or.inl hy
        · exact Or.inr h
    · rw [if_neg hy]
      have hn : (acc ++ [y]).Nodup := by
        rw [List.nodup_append]
        refine ⟨hacc, List.nodup_singleton y, ?_⟩
        intro a ha b hb
        rw [List.mem_singleton] at hb
        subst hb
        intro h; subst h; exact hy ha
      obtain ⟨h1, h2⟩ := ih (acc ++ [y]) hn
      refine ⟨h1, fun x => ?_⟩
      rw [h2, List.mem_append, List.mem_singleton, List.mem_cons]
      tauto

theorem nodup_dedupFirst {α : Type} [DecidableEq α] (l : List α) : (dedupFirst l).Nodup :=
  (dedupFirst_aux l [] List.nodup_nil).1

theorem mem_dedupFirst {α : Type} [DecidableEq α] (l : List α) (x : α) : x ∈ dedupFirst l ↔ x ∈ l := by
  have := (dedupFirst_aux l [] List.nodup_nil).2 x
  unfold dedupFirst
  simpa using this

/-- the tiers of `get_best_hands_generic`: every index below the number of hands occurs exactly once -/
theorem tiers_flatten (le : List Nat → List Nat → Bool) (strengths : List (List Nat)) :
    (((sortBy le (dedupFirst strengths)).map fun k =>
        (List.range strengths.length).filter fun i => strengths[i]? == some k).flatten).Nodup ∧
    ∀ i, i ∈ ((sortBy le (dedupFirst strengths)).map fun k =>
        (List.range strengths.length).filter fun i => strengths[i]? == some k).flatten ↔ i < strengths.length := by
  have hnd : (sortBy le (dedupFirst strengths)).Nodup :=
    (sortBy_perm le _).nodup_iff.2 (nodup_dedupFirst strengths)
  have hmem : ∀ k, k ∈ sortBy le (dedupFirst strengths) ↔ k ∈ strengths := fun k =>
    ((sortBy_perm le _).mem_iff).trans (mem_dedupFirst strengths k)
  constructor
  · rw [List.nodup_flatten]
    constructor
    · intro t ht
      rw [List.mem_map] at ht
      obtain ⟨k, _, rfl⟩ := ht
      exact List.Nodup.filter _ List.nodup_range
    · rw [List.pairwise_map]
      refine List.Pairwise.imp ?_ hnd
      intro a b hab
      rw [List.disjoint_left]
      intro i hi hj
      rw [List.mem_filter, beq_iff_eq] at hi hj
      rw [hi.2] at hj
      exact hab (Option.some.inj hj.2)
  · intro i
    simp only [List.mem_flatten, List.mem_map]
    constructor
    · rintro ⟨t, ⟨k, _, rfl⟩, hi⟩
      exact List.mem_range.1 (List.mem_filter.1 hi).1
    · intro hi
      refine ⟨_, ⟨strengths[i], (hmem _).2 (List.getElem_mem hi), rfl⟩, ?_⟩
      rw [List.mem_filter, beq_iff_eq]
      exact ⟨List.mem_range.2 hi, List.getElem?_eq_getElem hi⟩

/-! ## §2 settlement -/

section Settle
open CardVerif.Pot

theorem stepInc_len {tier : List Nat} {st st' : St} {inc : Int} (h : stepInc tier st inc = .ok st') :
    st'.pay.length = st.pay.length := by
  unfold stepInc at h
  simp only at h
  split at h
  · cases h; rfl
  · split at h
    · cases h
    · cases h
      simp only [length_foldl_modify]

theorem stepIncs_len {tier : List Nat} (incs : List Int) {st st' : St} (h : stepIncs tier st incs = .ok st') :
    st'.pay.length = st.pay.length := by
  induction incs generalizing st with
  | nil => simp only [stepIncs] at h; cases h; rfl
  | cons inc incs ih =>
    simp only [stepIncs] at h
    rw [bind_ok] at h
    obtain ⟨st1, h1, h2⟩ := h
    rw [ih h2, stepInc_len h1]

theorem settleTiers_len (tiers : List (List Nat)) {st st' : St} (h : settleTiers st tiers = .ok st') :
    st'.pay.length = st.pay.length := by
  induction tiers generalizing st with
  | nil => simp [settleTiers] at h
  | cons tier tiers ih =>
    simp only [settleTiers] at h
    rw [bind_ok] at h
    obtain ⟨st1, h1, h2⟩ := h
    split at h2
    · cases h2; exact stepIncs_len _ h1
    · rw [ih h2, stepIncs_len _ h1]

/-- one payout per seat, whatever the contributions -/
theorem settle_len {c : List Int} {tiers : List (List Nat)} {pay : List Rat} (h : settle c tiers = .ok pay) :
    pay.length = c.length := by
  unfold settle at h
  split at h
  · cases h
  · rw [bind_ok] at h
    obtain ⟨st, h1, h2⟩ := h
    cases h2
    rw [settleTiers_len _ h1]; simp

theorem settleShowdown_len {fl : Rat → Rat} {rc : RakeCfg} {bal : List Int} {tiers : List (List Nat)} {rp : Bool}
    {pay : List Rat} {rake : List Int} (h : settleShowdown fl rc bal tiers rp = .ok (pay, rake)) :
    pay.length = bal.length ∧ rake.length = bal.length := by
  unfold settleShowdown at h
  rw [bind_ok] at h
  obtain ⟨pay', hs, h⟩ := h
  simp only [Except.ok.injEq, Prod.mk.injEq] at h
  obtain ⟨rfl, rfl⟩ := h
  have hlen := C14.rake_length fl rc bal rp
  exact ⟨by rw [settle_len hs]; simp [hlen], hlen⟩

/-- **raked settlement succeeds** when the ranking lists seats in range, none twice, among them a holder of the largest
contribution (rounding exact up to `B`, contributions at most `B`) -/
theorem settleShowdown_total_B {fl : Rat → Rat} {B : Int} (hfl : C14.FlSpecB B fl) (rc : RakeCfg) (hf0 : 0 ≤ rc.f)
    (hf1 : rc.f ≤ 1) (bal : List Int) (hbal : ∀ b ∈ bal, 0 ≤ b) (hB : ∀ b ∈ bal, b ≤ B) (tiers : List (List Nat))
    (rp : Bool) (h1 : ∀ t ∈ tiers, ∀ p ∈ t, p < bal.length) (h2 : tiers.flatten.Nodup)
    (h3 : ∃ p ∈ tiers.flatten, ∀ q, q < bal.length → getI bal q ≤ getI bal p) :
    ∃ x, settleShowdown fl rc bal tiers rp = .ok x := by
  have hlen := C14.rake_length fl rc bal rp
  have hle := C14.rake_le_contribution_B hfl rc bal rp hf0 hf1 hbal hB
  have hl' : ((bal.zip (rakePerPlayer fl rc bal rp)).map fun (b, r) => b - r).length = bal.length := by
    simp [hlen]
  have hnn : ∀ b ∈ (bal.zip (rakePerPlayer fl rc bal rp)).map (fun (b, r) => b - r), 0 ≤ b := by
    intro b hb
    obtain ⟨j, hj, rfl⟩ := List.getElem_of_mem hb
    have hj' : j < bal.length := by simpa [hlen] using hj
    rw [← getI_of_lt _ _ hj, getI_zip_sub _ _ hlen.symm]
    have := hle j hj'
    omega
  have hr : SidePot.RankingOK ((bal.zip (rakePerPlayer fl rc bal rp)).map fun (b, r) => b - r) tiers := by
    refine ⟨by rw [hl']; exact h1, h2, ?_⟩
    obtain ⟨p, hp, hmax⟩ := h3
    refine ⟨p, hp, ?_⟩
    have hp' : p < bal.length := by
      obtain ⟨t, ht, hpt⟩ := List.mem_flatten.1 hp
      exact h1 t ht p hpt
    intro q hq
    rw [hl'] at hq
    rw [getI_zip_sub _ _ hlen.symm, getI_zip_sub _ _ hlen.symm]
    exact C14.order_preserved_B hfl rc bal rp hf0 hf1 hbal hB q p hq hp' (hmax q hq)
  have := C02.settle_eq_spec _ tiers hnn hr
  unfold settleShowdown
  exact ⟨_, by rw [bind_ok]; exact ⟨_, this, rfl⟩⟩

/-- **raked settlement succeeds** when the ranking lists seats in range, none twice, among them a holder of the largest
contribution -/
theorem settleShowdown_total {fl : Rat → Rat} (hfl : C14.FlSpec fl) (rc : RakeCfg) (hf0 : 0 ≤ rc.f) (hf1 : rc.f ≤ 1)
    (bal : List Int) (hbal : ∀ b ∈ bal, 0 ≤ b) (tiers : List (List Nat)) (rp : Bool)
    (h1 : ∀ t ∈ tiers, ∀ p ∈ t, p < bal.length) (h2 : tiers.flatten.Nodup)
    (h3 : ∃ p ∈ tiers.flatten, ∀ q, q < bal.length → getI bal q ≤ getI bal p) :
    ∃ x, settleShowdown fl rc bal tiers rp = .ok x :=
  settleShowdown_total_B (hfl.toB (sumI bal)) rc hf0 hf1 bal hbal (Pot.mem_le_sumI hbal) tiers rp h1 h2 h3

end Settle

/-! ## §3 the states `advance_action` goes through -/

/-- what `advance_action` needs of the state it starts from, kept by every state it goes through:
**I1** a seat that has not folded holds the largest contribution; the board never exceeds five cards and the deck can
always complete it -/
structure Mid (cfg : Cfg) (s : State) : Prop where
  cfgOf : CfgOf cfg s
  chips : Chips cfg.n (sumI cfg.startingStacks) s
  la_len : s.lastActions.length = cfg.n
  i1 : ∃ p, p < cfg.n ∧ folded s.lastActions p = false ∧ ∀ q, q < cfg.n → getI s.pot q ≤ getI s.pot p
  board_le : s.board.length ≤ 5
  cards : 5 ≤ s.deck.length + s.board.length

theorem Mid.congr {cfg : Cfg} {s s' : State} (h : Mid cfg s) (hc : SameCfg s s') (hst : s'.stacks = s.stacks)
    (hp : s'.pot = s.pot) (hla : s'.lastActions = s.lastActions) (hb : s'.board.length ≤ 5)
    (hcards : 5 ≤ s'.deck.length + s'.board.length) : Mid cfg s' where
  cfgOf := h.cfgOf.of_sameCfg hc
  chips := ⟨by rw [hst]; exact h.chips.stacks_len, by rw [hp]; exact h.chips.pot_len,
    by rw [hst]; exact h.chips.stacks_nonneg, by rw [hp]; exact h.chips.pot_nonneg,
    by rw [hst, hp]; exact h.chips.total⟩
  la_len := by rw [hla]; exact h.la_len
  i1 := by rw [hla, hp]; exact h.i1
  board_le := hb
  cards := hcards

/-- `is_action_closed` does not fail and computes the closure rule -/
theorem Mid.closed {cfg : Cfg} {s : State} (h : Mid cfg s) : s.isActionClosed = .ok s.closedSpec := by
  unfold State.isActionClosed State.closedSpec
  rw [h.cfgOf.n]
  exact closed_iff_fn cfg.n _ _ _ h.cfgOf.n_ge h.la_len h.chips.pot_len h.chips.stacks_len h.i1

/-- an open round has a seat that can still bet -/
theorem exists_live_of_not_closed {n : Nat} {la : List (Option ActType)} {pot stk : List Int}
    (h : closedSpec n la pot stk = false) : ∃ p, p < n ∧ liveSeat la stk p = true := by
  by_contra hne
  have hl : (List.range n).filter (fun p => liveSeat la stk p) = [] := by
    rw [List.filter_eq_nil_iff]
    intro p hp hlive
    exact hne ⟨p, List.mem_range.1 hp, hlive⟩
  unfold closedSpec at h
  simp [hl] at h

theorem cannotAct_eq (s : State) (p : Nat) : s.cannotAct p = !liveSeat s.lastActions s.stacks p := by
  unfold State.cannotAct State.isAllIn liveSeat folded
  simp only [bne]
  cases (getI s.stacks p == 0) <;> cases ((s.lastActions[p]?).join == some ActType.fold) <;> rfl

theorem exists_canAct {s : State} (hc : s.closedSpec = false) :
    ∃ p, p < s.n ∧ s.cannotAct p = false := by
  obtain ⟨p, hp, hl⟩ := exists_live_of_not_closed hc
  exact ⟨p, hp, by rw [cannotAct_eq, hl]; rfl⟩

theorem moveAction_go_total (s : State) (fuel : Nat) : ∀ (q k : Nat), k < fuel →
    s.cannotAct ((q + k) % s.n) = false → q < s.n → ∃ p, State.moveAction.go s fuel q = .ok p := by
  induction fuel with
  | zero => intro q k hk; omega
  | succ fuel ih =>
    intro q k hk hc hq
    unfold State.moveAction.go
    by_cases hcq : s.cannotAct q = true
    · rw [if_pos hcq]
      have hk0 : k ≠ 0 := by
        intro h0
        subst h0
        rw [Nat.add_zero, Nat.mod_eq_of_lt hq, hcq] at hc
        cases hc
      refine ih ((q + 1) % s.n) (k - 1) (by omega) ?_ (Nat.mod_lt _ (by omega))
      rw [Nat.mod_add_mod]
      have : q + 1 + (k - 1) = q + k := by omega
      rw [this]; exact hc
    · rw [if_neg hcq]; exact ⟨q, rfl⟩

/-- on an open round `move_action` finds the next seat -/
theorem moveAction_total {s : State} (hc : s.closedSpec = false) (ha : s.action.isSome) :
    ∃ s', s.moveAction = .ok s' := by
  obtain ⟨p, hp, hcan⟩ := exists_canAct hc
  have hn : 0 < s.n := by omega
  unfold State.moveAction
  cases hact : s.action with
  | none => rw [hact] at ha; cases ha
  | some a =>
    simp only
    have hq : (a + 1) % s.n < s.n := Nat.mod_lt _ hn
    obtain ⟨r, hr⟩ := moveAction_go_total s (s.n + 1) ((a + 1) % s.n)
      (if (a + 1) % s.n ≤ p then p - (a + 1) % s.n else p + s.n - (a + 1) % s.n) (by split <;> omega)
      (by
        split
        · rename_i hle
          rw [Nat.add_sub_cancel' hle, Nat.mod_eq_of_lt hp]; exact hcan
        · have : (a + 1) % s.n + (p + s.n - (a + 1) % s.n) = p + s.n := by omega
          rw [this, Nat.add_mod_right, Nat.mod_eq_of_lt hp]; exact hcan) hq
    exact ⟨_, by rw [hr]; rfl⟩

/-! ### `move_street` -/

theorem folded_map_reset (la : List (Option ActType)) (p : Nat) :
    folded (la.map fun a => if a == some ActType.fold then a else none) p = folded la p := by
  unfold folded
  rw [List.getElem?_map]
  rcases la[p]? with _ | _ | t
  · rfl
  · rfl
  · cases t <;> rfl

theorem Mid.nextStreet {cfg : Cfg} {s : State} (h : Mid cfg s) : Mid cfg s.nextStreet where
  cfgOf := h.cfgOf.of_sameCfg ⟨rfl, rfl, rfl, rfl, rfl, rfl, rfl, rfl, rfl⟩
  chips := ⟨h.chips.stacks_len, h.chips.pot_len, h.chips.stacks_nonneg, h.chips.pot_nonneg, h.chips.total⟩
  la_len := by simp only [State.nextStreet, List.length_map]; exact h.la_len
  i1 := by
    obtain ⟨p, hp, hf, hmax⟩ := h.i1
    exact ⟨p, hp, by simp only [State.nextStreet]; rw [folded_map_reset]; exact hf, hmax⟩
  board_le := h.board_le
  cards := h.cards

/-- the cards `move_street` deals once the seat to act is known -/
def State.dealFor (s : State) : State :=
  if s.street == 1 && (s.board.take 3).isEmpty then s.dealCardsToBoard 3
  else if s.street == 2 && ((s.board.drop 3).take 1).isEmpty then s.dealCardsToBoard 1
  else if s.street == 3 && ((s.board.drop 4).take 1).isEmpty then s.dealCardsToBoard 1
  else s

/-- the body of `move_street` after the street counter and the last actions are reset -/
def State.openStreet (s : State) : Except Err State := do
  if ← s.isActionClosed then
    .ok { s with action := none }
  else
    let a ← match s.getStartingAction with
      | .ok a => pure a
      | .error _ => .error .internal
    let s := { s with action := some a }
    if s.street == 1 && (s.board.take 3).isEmpty then .ok (s.dealCardsToBoard 3)
    else if s.street == 2 && ((s.board.drop 3).take 1).isEmpty then .ok (s.dealCardsToBoard 1)
    else if s.street == 3 && ((s.board.drop 4).take 1).isEmpty then .ok (s.dealCardsToBoard 1)
    else .ok s

theorem moveStreet_eq (s : State) : s.moveStreet = s.nextStreet.openStreet := rfl

theorem openStreet_eq (s : State) : s.openStreet =
    s.isActionClosed >>= fun c =>
      if c then .ok { s with action := none } else
        match s.getStartingAction with
        | .ok a => .ok (State.dealFor { s with action := some a })
        | .error _ => .error .internal := by
  unfold State.openStreet
  cases s.isActionClosed with
  | error e => rfl
  | ok c =>
    cases c with
    | true => rfl
    | false =>
      simp only [bind, Except.bind, Bool.false_eq_true, if_false]
      cases s.getStartingAction with
      | error e => rfl
      | ok a =>
        simp only [pure, Except.pure, State.dealFor]
        split <;> [rfl; (split <;> [rfl; (split <;> rfl)])]

theorem dealCardsToBoard_lens (s : State) (k : Nat) :
    (s.dealCardsToBoard k).board.length = s.board.length + min k s.deck.length ∧
    (s.dealCardsToBoard k).deck.length = s.deck.length - k := by
  simp [State.dealCardsToBoard]

theorem dealFor_frame (s : State) :
    SameCfg s s.dealFor ∧ s.dealFor.stacks = s.stacks ∧ s.dealFor.pot = s.pot ∧
    s.dealFor.lastActions = s.lastActions ∧ s.dealFor.street = s.street ∧ s.dealFor.action = s.action := by
  unfold State.dealFor
  split_ifs <;> exact ⟨⟨rfl, rfl, rfl, rfl, rfl, rfl, rfl, rfl, rfl⟩, rfl, rfl, rfl, rfl, rfl⟩

theorem dealFor_cards (s : State) (hb : s.board.length ≤ 5) (hc : 5 ≤ s.deck.length + s.board.length) :
    s.dealFor.board.length ≤ 5 ∧ 5 ≤ s.dealFor.deck.length + s.dealFor.board.length := by
  unfold State.dealFor
  split_ifs with h1 h2 h3
  · obtain ⟨e1, e2⟩ := dealCardsToBoard_lens s 3
    simp only [Bool.and_eq_true, List.isEmpty_iff, List.take_eq_nil_iff] at h1
    have : s.board.length = 0 := by
      rcases h1.2 with h | h
      · omega
      · rw [h]; rfl
    rw [e1, e2]; omega
  · obtain ⟨e1, e2⟩ := dealCardsToBoard_lens s 1
    simp only [Bool.and_eq_true, List.isEmpty_iff, List.take_eq_nil_iff, List.drop_eq_nil_iff] at h2
    rw [e1, e2]; omega
  · obtain ⟨e1, e2⟩ := dealCardsToBoard_lens s 1
    simp only [Bool.and_eq_true, List.isEmpty_iff, List.take_eq_nil_iff, List.drop_eq_nil_iff] at h3
    rw [e1, e2]; omega
  · exact ⟨hb, hc⟩

/-- on a street after the first, the new round either is closed at once or has a first seat to act -/
theorem Mid.openStreet_total {cfg : Cfg} {s : State} (h : Mid cfg s) (hs : s.street ≠ 0) :
    ∃ s', s.openStreet = .ok s' ∧ Mid cfg s' ∧ s'.street = s.street := by
  rw [openStreet_eq, h.closed]
  cases hc : s.closedSpec with
  | true =>
    exact ⟨_, rfl, h.congr ⟨rfl, rfl, rfl, rfl, rfl, rfl, rfl, rfl, rfl⟩ rfl rfl rfl h.board_le h.cards, rfl⟩
  | false =>
    obtain ⟨p, hp, hcan⟩ := exists_canAct hc
    have hfind : ∃ a, (List.range s.n).find? (fun p => !s.cannotAct p) = some a := by
      cases hf : (List.range s.n).find? (fun p => !s.cannotAct p) with
      | some a => exact ⟨a, rfl⟩
      | none =>
        rw [List.find?_eq_none] at hf
        have := hf p (List.mem_range.2 hp)
        rw [hcan] at this
        exact absurd rfl this
    obtain ⟨a, ha⟩ := hfind
    have hstart : s.getStartingAction = .ok a := by
      unfold State.getStartingAction
      have : (s.street == 0) = false := by simpa using hs
      rw [this, ha]; rfl
    simp only [bind, Except.bind, Bool.false_eq_true, if_false, hstart]
    obtain ⟨f1, f2, f3, f4, f5, _⟩ := dealFor_frame { s with action := some a }
    obtain ⟨c1, c2⟩ := dealFor_cards { s with action := some a } h.board_le h.cards
    have m0 : Mid cfg { s with action := some a } :=
      h.congr ⟨rfl, rfl, rfl, rfl, rfl, rfl, rfl, rfl, rfl⟩ rfl rfl rfl h.board_le h.cards
    exact ⟨_, rfl, m0.congr f1 f2 f3 f4 c1 c2, f5⟩

theorem Mid.moveStreet_total {cfg : Cfg} {s : State} (h : Mid cfg s) :
    ∃ s', s.moveStreet = .ok s' ∧ Mid cfg s' ∧ s'.street = s.street + 1 := by
  rw [moveStreet_eq]
  exact h.nextStreet.openStreet_total (by simp [State.nextStreet])

/-- the street loop stops within its bound -/
theorem Mid.streets_total {cfg : Cfg} (fuel : Nat) : ∀ {s : State}, Mid cfg s → s.street ≤ 4 → 5 ≤ fuel + s.street →
    ∃ s', State.advanceAction.streets fuel s = .ok s' ∧ Mid cfg s' ∧ s'.street ≤ 4 := by
  induction fuel with
  | zero => intro s _ h1 h2; omega
  | succ fuel ih =>
    intro s h h1 h2
    unfold State.advanceAction.streets
    by_cases hlt : s.street < showdownStreet
    · rw [if_pos hlt]
      obtain ⟨s1, e1, m1, st1⟩ := h.moveStreet_total
      have hlt' : s.street < 4 := hlt
      simp only [e1, m1.closed, bind, Except.bind]
      cases hc : s1.closedSpec with
      | true => exact ih m1 (by omega) (by omega)
      | false => exact ⟨s1, rfl, m1, by omega⟩
    · rw [if_neg hlt]
      exact ⟨s, rfl, h, h1⟩

/-! ### the showdown -/

/-- a run-out that fits the deck can be sampled -/
theorem sample_total (sm : Sampler) (deck : List Card) (k i : Nat) (hk : k ≤ deck.length) :
    ∃ r, sm.sample deck k i = .ok r ∧ r.length = k := by
  unfold Sampler.sample
  rw [if_neg (by omega)]
  obtain ⟨r, hr, hl⟩ := mapM_total (ε := Err)
    (fun j => match deck[(sm.off + i * sm.step + j) % deck.length]? with
      | some c => Except.ok c
      | none => .error .indexError) (List.range k) (by
    intro j hj
    have hj' : j < k := List.mem_range.1 hj
    have hpos : 0 < deck.length := by omega
    rw [List.getElem?_eq_getElem (Nat.mod_lt _ hpos)]
    exact ⟨_, rfl⟩)
  exact ⟨r, hr, by rw [hl, List.length_range]⟩

theorem add_mod_inj (c n j j' : Nat) (hj : j < n) (hj' : j' < n) (h : (c + j) % n = (c + j') % n) : j = j' := by
  have h1 := Nat.sub_mod_eq_zero_of_mod_eq h
  have h2 := Nat.sub_mod_eq_zero_of_mod_eq h.symm
  have e1 : c + j - (c + j') = j - j' := by omega
  have e2 : c + j' - (c + j) = j' - j := by omega
  rw [e1, Nat.mod_eq_of_lt (by omega)] at h1
  rw [e2, Nat.mod_eq_of_lt (by omega)] at h2
  omega

/-- a run-out that fits a duplicate-free deck: `k` distinct cards of the deck -/
theorem sample_total_nodup (sm : Sampler) (deck : List Card) (k i : Nat) (hk : k ≤ deck.length) (hnd : deck.Nodup) :
    ∃ r, sm.sample deck k i = .ok r ∧ r.length = k ∧ r.Nodup ∧ ∀ c ∈ r, c ∈ deck := by
  have hidx : ∀ j, j < k → (sm.off + i * sm.step + j) % deck.length < deck.length :=
    fun j hj => Nat.mod_lt _ (by omega)
  refine ⟨(List.range k).map fun j => (deck[(sm.off + i * sm.step + j) % deck.length]?).getD ⟨0, 0⟩, ?_, ?_, ?_, ?_⟩
  · unfold Sampler.sample
    rw [if_neg (by omega)]
    apply mapM_ok_map
    intro j hj
    rw [List.getElem?_eq_getElem (hidx j (List.mem_range.1 hj))]
    rfl
  · rw [List.length_map, List.length_range]
  · apply List.Nodup.map_on _ List.nodup_range
    intro j hj j' hj' hjj
    rw [List.mem_range] at hj hj'
    rw [List.getElem?_eq_getElem (hidx j hj), List.getElem?_eq_getElem (hidx j' hj'), Option.getD_some,
      Option.getD_some, hnd.getElem_inj_iff] at hjj
    exact add_mod_inj _ _ j j' (by omega) (by omega) hjj
  · intro c hc
    rw [List.mem_map] at hc
    obtain ⟨j, hj, rfl⟩ := hc
    rw [List.mem_range] at hj
    rw [List.getElem?_eq_getElem (hidx j hj), Option.getD_some]
    exact List.getElem_mem _

/-- a board completed with distinct cards of the deck is still disjoint from the hand -/
theorem nodup_board_runout {board deck runout h : List Card} (hnd : (board ++ deck ++ h).Nodup)
    (hr : runout.Nodup) (hsub : ∀ c ∈ runout, c ∈ deck) :
    ((board ++ runout) ++ h).Nodup ∧ ∀ c ∈ (board ++ runout) ++ h, c ∈ board ++ deck ++ h := by
  rw [List.nodup_append] at hnd
  obtain ⟨hbd, hh, hdisj⟩ := hnd
  rw [List.nodup_append] at hbd
  obtain ⟨hb, _, hbd⟩ := hbd
  have hmem : ∀ c ∈ board ++ runout, c ∈ board ++ deck := by
    intro c hc
    rw [List.mem_append] at hc ⊢
    exact hc.imp_right (hsub c)
  refine ⟨?_, ?_⟩
  · rw [List.nodup_append]
    refine ⟨?_, hh, fun a ha b hb' => hdisj a (hmem a ha) b hb'⟩
    rw [List.nodup_append]
    exact ⟨hb, hr, fun a ha b hb' => hbd a ha b (hsub b hb')⟩
  · intro c hc
    rw [List.mem_append] at hc ⊢
    exact hc.imp_left (hmem c)

/-- `order_hands` on a five-card board on which the evaluator succeeds for every hand of the table:
the ranking lists exactly the showdown seats, each once -/
theorem orderHands_total_on {rankFn : RankFn} {s : State} {players : List Nat} (hb : s.board.length = 5)
    (hh : ∀ p ∈ players, p < s.hands.length) (hole : ∀ h ∈ s.hands, h.length = s.game.holeCards)
    (hrank : ∀ h ∈ s.hands, ∃ k, rankFn s.board h = .ok k) (hnd : players.Nodup) :
    ∃ w, s.orderHands rankFn players = .ok w ∧ w.flatten.Nodup ∧ ∀ p, p ∈ w.flatten ↔ p ∈ players := by
  unfold State.orderHands
  have e1 : players.mapM (fun p => match s.hands[p]? with | some h => Except.ok h | none => .error Err.indexError)
      = .ok (players.map fun p => (s.hands[p]?).getD []) := by
    apply mapM_ok_map
    intro p hp
    rw [List.getElem?_eq_getElem (hh p hp)]
    rfl
  have hstr : ∀ h ∈ players.map (fun p => (s.hands[p]?).getD []),
      ∃ k, handStrength s.game rankFn s.board h = .ok k := by
    intro h hmem
    rw [List.mem_map] at hmem
    obtain ⟨p, hp, rfl⟩ := hmem
    have hlen : ((s.hands[p]?).getD []).length = s.game.holeCards := by
      rw [List.getElem?_eq_getElem (hh p hp)]
      exact hole _ (List.getElem_mem _)
    unfold handStrength
    simp only [hb, hlen, bne_self_eq_false, Bool.false_eq_true, if_false]
    rw [List.getElem?_eq_getElem (hh p hp)]
    exact hrank _ (List.getElem_mem _)
  obtain ⟨strengths, e2, hl2⟩ := mapM_total _ _ hstr
  rw [List.length_map] at hl2
  obtain ⟨tiers, htiers⟩ : ∃ tiers, tiers = ((sortBy (fun a b => lexLe b a) (dedupFirst strengths)).map fun k =>
      (List.range strengths.length).filter fun i => strengths[i]? == some k) := ⟨_, rfl⟩
  obtain ⟨t1, t2⟩ := tiers_flatten (fun a b => lexLe b a) strengths
  rw [← htiers] at t1 t2
  have hidx : ∀ t ∈ tiers, ∀ i ∈ t, i < players.length := by
    intro t ht i hi
    rw [← hl2, ← t2 i]
    exact List.mem_flatten.2 ⟨t, ht, hi⟩
  have e3 : (tiers.mapM fun t =>
        t.mapM fun i => match players[i]? with | some p => Except.ok p | none => .error Err.indexError)
      = .ok (tiers.map fun t => t.map fun i => (players[i]?).getD 0) := by
    apply mapM_ok_map
    intro t ht
    apply mapM_ok_map
    intro i hi
    rw [List.getElem?_eq_getElem (hidx t ht i hi)]
    rfl
  refine ⟨tiers.map fun t => t.map fun i => (players[i]?).getD 0, ?_, ?_, ?_⟩
  · rw [bind_ok]
    refine ⟨_, e1, ?_⟩
    rw [bind_ok]
    refine ⟨tiers, ?_, e3⟩
    unfold Eval.bestHandsGeneric
    rw [bind_ok]
    exact ⟨strengths, e2, by rw [htiers]⟩
  · rw [← List.map_flatten]
    apply List.Nodup.map_on _ t1
    intro i hi j hj hij
    have hi' : i < players.length := by rw [← hl2]; exact (t2 i).1 hi
    have hj' : j < players.length := by rw [← hl2]; exact (t2 j).1 hj
    rw [List.getElem?_eq_getElem hi', List.getElem?_eq_getElem hj'] at hij
    exact (hnd.getElem_inj_iff).1 hij
  · intro p
    rw [← List.map_flatten, List.mem_map]
    constructor
    · rintro ⟨i, hi, rfl⟩
      have hi' : i < players.length := by rw [← hl2]; exact (t2 i).1 hi
      rw [List.getElem?_eq_getElem hi']
      exact List.getElem_mem _
    · intro hp
      obtain ⟨i, hi, rfl⟩ := List.getElem_of_mem hp
      exact ⟨i, (t2 i).2 (by rw [hl2]; exact hi), by rw [List.getElem?_eq_getElem hi]; rfl⟩

/-- `order_hands` on a five-card board: the ranking lists exactly the showdown seats, each once -/
theorem orderHands_total {rankFn : RankFn} {s : State} {players : List Nat} (hb : s.board.length = 5)
    (hh : ∀ p ∈ players, p < s.hands.length) (hole : ∀ h ∈ s.hands, h.length = s.game.holeCards)
    (hrank : RankTotal s.game rankFn) (hnd : players.Nodup) :
    ∃ w, s.orderHands rankFn players = .ok w ∧ w.flatten.Nodup ∧ ∀ p, p ∈ w.flatten ↔ p ∈ players :=
  orderHands_total_on hb hh hole (fun h hm => hrank _ _ hb (hole h hm)) hnd

/-- board and deck of the state hold the configured cards, in the configured order (dealing moves the top of the
deck to the end of the board) -/
def CardsOf (cfg : Cfg) (s : State) : Prop := s.board ++ s.deck = cfg.board ++ cfg.deck

/-- the evaluator succeeds on every board `get_payouts_and_rake` can build at `s` (the state's board completed by a
run-out sampled from its deck) and every hand of the table -/
def RankOkAt (rankFn : RankFn) (cfg : Cfg) (s : State) : Prop :=
  ∀ i runout, s.sampler.sample s.deck (5 - s.board.length) i = .ok runout →
    ∀ h ∈ cfg.hands, ∃ k, rankFn (s.board ++ runout) h = .ok k

/-- an evaluator that is total on all inputs is fine at every state `advance_action` goes through -/
theorem RankOkAt.of_total {env : Env} {cfg : Cfg} {s : State} (h : Mid cfg s) (hv : cfg.Valid)
    (hrank : RankTotal cfg.game env.rankFn) : RankOkAt env.rankFn cfg s := by
  intro i runout e1 hd hh
  obtain ⟨r, e1', hl⟩ := sample_total s.sampler s.deck (5 - s.board.length) i (by have := h.cards; omega)
  rw [e1] at e1'
  cases e1'
  exact hrank _ _ (by rw [List.length_append, hl]; have := h.board_le; omega) (hv.hole hd hh)

/-- **an evaluator that is total on distinct valid cards is fine at every state `advance_action` goes through**, when
the cards were dealt from one deck: the run-out takes distinct cards of the deck -/
theorem RankOkAt.of_on {env : Env} {cfg : Cfg} {s : State} (h : Mid cfg s) (hv : cfg.Valid) (hd : cfg.Dealt)
    (hco : CardsOf cfg s) (hrank : RankTotalOn cfg.game env.rankFn) : RankOkAt env.rankFn cfg s := by
  intro i runout e1 hand hh
  have hnd := hd.nodup hand hh
  rw [← hco] at hnd
  have hdeck : s.deck.Nodup := ((List.nodup_append.1 (List.nodup_append.1 hnd).1).2).1
  obtain ⟨r, e1', hl, hr, hsub⟩ := sample_total_nodup s.sampler s.deck (5 - s.board.length) i
    (by have := h.cards; omega) hdeck
  rw [e1] at e1'
  cases e1'
  obtain ⟨n1, n2⟩ := nodup_board_runout hnd hr hsub
  refine hrank _ _ (by rw [List.length_append, hl]; have := h.board_le; omega) (hv.hole hand hh) n1 ?_
  intro c hc
  have := n2 c hc
  rw [hco] at this
  exact hd.valid hand hh c this

/-- **`get_payouts_and_rake` never fails** on a state `advance_action` can reach where the evaluator succeeds on the
boards it is given (rounding exact up to `B`, at most `B` chips on the table) -/
theorem Mid.getPayoutsAndRake_total_B_at {env : Env} {cfg : Cfg} {s : State} (h : Mid cfg s) (hv : cfg.Valid)
    {B : Int} (hfl : C14.FlSpecB B env.fl) (hB : sumI cfg.startingStacks ≤ B)
    (hrank : RankOkAt env.rankFn cfg s) :
    ∃ x, s.getPayoutsAndRake env = .ok x := by
  have hn : s.n = cfg.n := h.cfgOf.n
  have hpB : ∀ b ∈ s.pot, b ≤ B := fun b hb => Int.le_trans (h.chips.pot_le b hb) hB
  have hf0 : 0 ≤ s.rake.f := by rw [h.cfgOf.rake]; exact hv.f_nonneg
  have hf1 : s.rake.f ≤ 1 := by rw [h.cfgOf.rake]; exact hv.f_le_one
  have hplen : s.pot.length = cfg.n := h.chips.pot_len
  have hnd : ((List.range s.n).filter fun p => (s.lastActions[p]?).join != some ActType.fold).Nodup :=
    List.Nodup.filter _ List.nodup_range
  have hlt : ∀ p ∈ (List.range s.n).filter fun p => (s.lastActions[p]?).join != some ActType.fold,
      p < s.pot.length := by
    intro p hp
    have := List.mem_range.1 (List.mem_filter.1 hp).1
    omega
  have hmax : ∃ p ∈ (List.range s.n).filter fun p => (s.lastActions[p]?).join != some ActType.fold,
      ∀ q, q < s.pot.length → getI s.pot q ≤ getI s.pot p := by
    obtain ⟨p, hp, hf, hm⟩ := h.i1
    refine ⟨p, List.mem_filter.2 ⟨List.mem_range.2 (by omega), ?_⟩, fun q hq => hm q (by omega)⟩
    unfold folded at hf
    simp only [bne, hf, Bool.not_false]
  unfold State.getPayoutsAndRake
  simp only
  split
  · obtain ⟨⟨pay, rake⟩, e⟩ := settleShowdown_total_B hfl s.rake hf0 hf1 s.pot h.chips.pot_nonneg hpB
      [(List.range s.n).filter fun p => (s.lastActions[p]?).join != some ActType.fold] s.shouldRakePot
      (by intro t ht; rw [List.mem_singleton] at ht; subst ht; exact hlt)
      (by simpa using hnd) (by simpa using hmax)
    exact ⟨_, by rw [bind_ok]; exact ⟨(pay, rake), e, rfl⟩⟩
  · apply foldlM_ok
    · intro acc i _
      obtain ⟨runout, e1, hl1⟩ := sample_total s.sampler s.deck (5 - s.board.length) i
        (by have := h.cards; omega)
      obtain ⟨w, e2, w1, w2⟩ := orderHands_total_on (rankFn := env.rankFn)
        (s := { s with board := s.board ++ runout })
        (players := (List.range s.n).filter fun p => (s.lastActions[p]?).join != some ActType.fold)
        (by simp only [List.length_append, hl1]; have := h.board_le; omega)
        (by
          intro p hp
          have := List.mem_range.1 (List.mem_filter.1 hp).1
          show p < s.hands.length
          rw [h.cfgOf.hands, hv.hands_len]; omega)
        (by
          show ∀ h ∈ s.hands, h.length = s.game.holeCards
          rw [h.cfgOf.hands, h.cfgOf.game]; exact hv.hole)
        (by
          show ∀ h ∈ s.hands, ∃ k, env.rankFn (s.board ++ runout) h = .ok k
          rw [h.cfgOf.hands]; exact hrank i runout e1) hnd
      obtain ⟨⟨pay, rake⟩, e3⟩ := settleShowdown_total_B hfl s.rake hf0 hf1 s.pot h.chips.pot_nonneg hpB w
        (State.shouldRakePot { s with board := s.board ++ runout })
        (by
          intro t ht p hp
          exact hlt p ((w2 p).1 (List.mem_flatten.2 ⟨t, ht, hp⟩)))
        w1 (by
          obtain ⟨p, hp, hm⟩ := hmax
          exact ⟨p, (w2 p).2 hp, hm⟩)
      exact ⟨_, by
        rw [bind_ok]
        refine ⟨runout, e1, ?_⟩
        rw [bind_ok]
        refine ⟨w, e2, ?_⟩
        rw [bind_ok]
        exact ⟨(pay, rake), e3, rfl⟩⟩

/-- **`get_payouts_and_rake` never fails** on a state `advance_action` can reach
(rounding exact up to `B`, at most `B` chips on the table) -/
theorem Mid.getPayoutsAndRake_total_B {env : Env} {cfg : Cfg} {s : State} (h : Mid cfg s) (hv : cfg.Valid)
    {B : Int} (hfl : C14.FlSpecB B env.fl) (hB : sumI cfg.startingStacks ≤ B)
    (hrank : RankTotal cfg.game env.rankFn) :
    ∃ x, s.getPayoutsAndRake env = .ok x :=
  h.getPayoutsAndRake_total_B_at hv hfl hB (RankOkAt.of_total h hv hrank)

/-- `getPayoutsAndRake_total_B` for an evaluator that is total on distinct valid cards, cards dealt from one deck -/
theorem Mid.getPayoutsAndRake_total_B_on {env : Env} {cfg : Cfg} {s : State} (h : Mid cfg s) (hv : cfg.Valid)
    {B : Int} (hfl : C14.FlSpecB B env.fl) (hB : sumI cfg.startingStacks ≤ B) (hd : cfg.Dealt)
    (hco : CardsOf cfg s) (hrank : RankTotalOn cfg.game env.rankFn) :
    ∃ x, s.getPayoutsAndRake env = .ok x :=
  h.getPayoutsAndRake_total_B_at hv hfl hB (RankOkAt.of_on h hv hd hco hrank)

/-- **`get_payouts_and_rake` never fails** on a state `advance_action` can reach -/
theorem Mid.getPayoutsAndRake_total {env : Env} {cfg : Cfg} {s : State} (h : Mid cfg s) (hv : cfg.Valid)
    (hfl : C14.FlSpec env.fl) (hrank : RankTotal cfg.game env.rankFn) :
    ∃ x, s.getPayoutsAndRake env = .ok x :=
  h.getPayoutsAndRake_total_B hv (hfl.toB (sumI cfg.startingStacks)) (Int.le_refl _) hrank

/-- moving to the next street keeps the cards: dealt cards go from the top of the deck to the end of the board -/
theorem moveStreet_cardsOf {cfg : Cfg} {s s' : State} (h : s.moveStreet = .ok s') (hco : CardsOf cfg s) :
    CardsOf cfg s' := by
  rcases moveStreet_ok h with ⟨_, rfl⟩ | ⟨_, a, k, _, rfl⟩
  · exact hco
  · show (s.board ++ s.deck.take k) ++ s.deck.drop k = _
    rw [List.append_assoc, List.take_append_drop]
    exact hco

/-- the street loop keeps the cards -/
theorem streets_cardsOf {cfg : Cfg} (fuel : Nat) : ∀ {s s' : State}, State.advanceAction.streets fuel s = .ok s' →
    CardsOf cfg s → CardsOf cfg s' := by
  induction fuel with
  | zero => intro s s' h; simp [State.advanceAction.streets] at h
  | succ fuel ih =>
    intro s s' h hco
    unfold State.advanceAction.streets at h
    split at h
    · rw [bind_ok] at h
      obtain ⟨s1, h1, h⟩ := h
      rw [bind_ok] at h
      obtain ⟨c, _, h⟩ := h
      have hco1 := moveStreet_cardsOf h1 hco
      cases c with
      | true =>
        simp only [if_true] at h
        exact ih h hco1
      | false =>
        simp only [Bool.false_eq_true, if_false, Except.ok.injEq] at h
        subst h
        exact hco1
    · cases h
      exact hco

/-- **`advance_action` never fails** on a hand in progress whose state satisfies `Mid`, when the evaluator succeeds on
the boards of the state the street loop stops at (rounding exact up to `B`, at most `B` chips on the table) -/
theorem Mid.advanceAction_total_B_at {env : Env} {cfg : Cfg} {s : State} (h : Mid cfg s) (hv : cfg.Valid)
    {B : Int} (hfl : C14.FlSpecB B env.fl) (hB : sumI cfg.startingStacks ≤ B)
    (hrank : ∀ s2, State.advanceAction.streets 6 s = .ok s2 → Mid cfg s2 → RankOkAt env.rankFn cfg s2)
    (ha : s.action.isSome)
    (hst : s.street < 4) : ∃ s', s.advanceAction env = .ok s' := by
  rw [advanceAction_eq, h.closed]
  cases hc : s.closedSpec with
  | false =>
    obtain ⟨s2, e2⟩ := moveAction_total hc ha
    obtain ⟨_, _, _, _, f5, _⟩ := moveAction_frame e2
    refine ⟨s2, ?_⟩
    simp only [bind, Except.bind, Bool.not_false, if_true, e2]
    unfold State.settleIfShowdown
    rw [if_neg (by rw [f5]; show ¬ 4 ≤ s.street; omega)]
  | true =>
    obtain ⟨s2, e2, m2, _⟩ := Mid.streets_total 6 h (by omega) (by omega)
    simp only [bind, Except.bind, Bool.not_true, Bool.false_eq_true, if_false, e2]
    unfold State.settleIfShowdown
    split
    · obtain ⟨x, hx⟩ := m2.getPayoutsAndRake_total_B_at hv hfl hB (hrank s2 e2 m2)
      rw [hx]
      exact ⟨_, rfl⟩
    · exact ⟨_, rfl⟩

/-- **`advance_action` never fails** on a hand in progress whose state satisfies `Mid`
(rounding exact up to `B`, at most `B` chips on the table) -/
theorem Mid.advanceAction_total_B {env : Env} {cfg : Cfg} {s : State} (h : Mid cfg s) (hv : cfg.Valid)
    {B : Int} (hfl : C14.FlSpecB B env.fl) (hB : sumI cfg.startingStacks ≤ B)
    (hrank : RankTotal cfg.game env.rankFn) (ha : s.action.isSome)
    (hst : s.street < 4) : ∃ s', s.advanceAction env = .ok s' :=
  h.advanceAction_total_B_at hv hfl hB (fun _ _ m2 => RankOkAt.of_total m2 hv hrank) ha hst

/-- `advanceAction_total_B` for an evaluator that is total on distinct valid cards, cards dealt from one deck -/
theorem Mid.advanceAction_total_B_on {env : Env} {cfg : Cfg} {s : State} (h : Mid cfg s) (hv : cfg.Valid)
    {B : Int} (hfl : C14.FlSpecB B env.fl) (hB : sumI cfg.startingStacks ≤ B) (hd : cfg.Dealt)
    (hco : CardsOf cfg s) (hrank : RankTotalOn cfg.game env.rankFn) (ha : s.action.isSome)
    (hst : s.street < 4) : ∃ s', s.advanceAction env = .ok s' :=
  h.advanceAction_total_B_at hv hfl hB
    (fun _ e2 m2 => RankOkAt.of_on m2 hv hd (streets_cardsOf 6 e2 hco) hrank) ha hst

/-- **`advance_action` never fails** on a hand in progress whose state satisfies `Mid` -/
theorem Mid.advanceAction_total {env : Env} {cfg : Cfg} {s : State} (h : Mid cfg s) (hv : cfg.Valid)
    (hfl : C14.FlSpec env.fl) (hrank : RankTotal cfg.game env.rankFn) (ha : s.action.isSome)
    (hst : s.street < 4) : ∃ s', s.advanceAction env = .ok s' :=
  h.advanceAction_total_B hv (hfl.toB (sumI cfg.startingStacks)) (Int.le_refl _) hrank ha hst

/-! ## §4 the strengthened invariant of reachable states -/

/-- one payout per seat (no hypothesis on the rounding) -/
theorem getPayoutsAndRake_len {env : Env} {s : State} (hlen : s.pot.length = s.n) {pay rake : List Rat}
    (h : s.getPayoutsAndRake env = .ok (pay, rake)) : pay.length = s.n := by
  unfold State.getPayoutsAndRake at h
  simp only at h
  split at h
  · rw [bind_ok] at h
    obtain ⟨⟨pay', rake'⟩, hs, h⟩ := h
    simp only [Except.ok.injEq, Prod.mk.injEq] at h
    obtain ⟨rfl, rfl⟩ := h
    rw [(settleShowdown_len hs).1, hlen]
  · refine foldlM_preserves (fun acc : List Rat × List Rat => acc.1.length = s.n) _ _ _ _ ?_ (by simp) h
    intro acc i acc' _ hacc hstep
    rw [bind_ok] at hstep
    obtain ⟨runout, _, hstep⟩ := hstep
    rw [bind_ok] at hstep
    obtain ⟨winners, _, hstep⟩ := hstep
    rw [bind_ok] at hstep
    obtain ⟨⟨pay', rake'⟩, hs, hstep⟩ := hstep
    simp only [pure, Except.pure, Except.ok.injEq] at hstep
    subst hstep
    simp only
    rw [length_addQ _ _ (by rw [List.length_map, (settleShowdown_len hs).1, hlen, hacc]), hacc]

theorem exists_max_holder (pot : List Int) (n : Nat) (hp : pot.length = n) (hn : 0 < n) :
    ∃ p, p < n ∧ ∀ q, q < n → getI pot q ≤ getI pot p := by
  obtain ⟨m, _, hmem, hmax⟩ := maxI?_eq_some pot (by intro h; rw [h] at hp; simp at hp; omega)
  obtain ⟨p, hp', hpm⟩ := mem_exists_getI pot m hmem
  exact ⟨p, by omega, fun q hq => by rw [hpm]; exact hmax _ (getI_mem' pot q (by omega))⟩

theorem folded_set_ne (la : List (Option ActType)) (a p : Nat) (v : Option ActType) (h : a ≠ p) :
    folded (la.set a v) p = folded la p := by
  unfold folded
  rw [List.getElem?_set_ne h]

theorem folded_set_self (la : List (Option ActType)) (a : Nat) (t : ActType) (h : a < la.length) (ht : t ≠ .fold) :
    folded (la.set a (some t)) a = false := by
  unfold folded
  rw [List.getElem?_set_self h]
  cases t <;> first | rfl | exact absurd rfl ht

/-- **I1 is kept by an accepted action**: a fold comes from a seat that owes chips, a wager makes the actor a holder
of the largest contribution or leaves the old one -/
theorem i1_after_action {n : Nat} {la : List (Option ActType)} {pot : List Int} (hla : la.length = n)
    (hpl : pot.length = n) {a : Nat} (ha : a < n) (t : ActType) (x : Int) (hx : 0 ≤ x)
    (hfold : t = .fold → x = 0 ∧ ∃ q, q < n ∧ getI pot a < getI pot q)
    (h : ∃ p, p < n ∧ folded la p = false ∧ ∀ q, q < n → getI pot q ≤ getI pot p) :
    ∃ p, p < n ∧ folded (la.set a (some t)) p = false ∧
      ∀ q, q < n → getI (pot.modify a (· + x)) q ≤ getI (pot.modify a (· + x)) p := by
  obtain ⟨p, hp, hf, hm⟩ := h
  have key : ∀ q, q < n → getI (pot.modify a (· + x)) q = if a = q then getI pot q + x else getI pot q := by
    intro q hq
    rw [getI_modify]
    by_cases e : a = q
    · rw [if_pos ⟨e, by omega⟩, if_pos e]
    · rw [if_neg (fun h => e h.1), if_neg e]
  by_cases ht : t = .fold
  · obtain ⟨hx0, q0, hq0, hlt⟩ := hfold ht
    have hq0' := hm q0 hq0
    have hpa : a ≠ p := by intro e; subst e; omega
    refine ⟨p, hp, by rw [folded_set_ne _ _ _ _ hpa]; exact hf, fun q hq => ?_⟩
    have := hm q hq
    rw [key q hq, key p hp]
    split_ifs <;> omega
  · by_cases hcmp : getI pot p ≤ getI pot a + x
    · refine ⟨a, ha, folded_set_self _ _ _ (by omega) ht, fun q hq => ?_⟩
      have := hm q hq
      rw [key q hq, key a ha, if_pos rfl]
      split_ifs with e
      · subst e; omega
      · omega
    · have hpa : a ≠ p := by intro e; subst e; omega
      refine ⟨p, hp, by rw [folded_set_ne _ _ _ _ hpa]; exact hf, fun q hq => ?_⟩
      have := hm q hq
      rw [key q hq, key p hp, if_neg hpa]
      split_ifs with e
      · subst e; omega
      · omega

/-- a seat that owes chips is below the largest contribution -/
theorem owed_pos_lt {s : State} (hwf : s.WF) {a : Nat} (h : 0 < s.owed a) :
    ∃ q, q < s.n ∧ getI s.pot a < getI s.pot q := by
  have hpl := hwf.pot_len
  have hn := hwf.n_ge
  obtain ⟨m, hm, hmem, _⟩ := maxI?_eq_some s.pot (by intro h; rw [h] at hpl; simp at hpl; omega)
  obtain ⟨q, hq, hqm⟩ := mem_exists_getI s.pot m hmem
  refine ⟨q, by omega, ?_⟩
  unfold State.owed State.maxPot at h
  rw [hm] at h
  simp only at h
  omega

/-- **an accepted action keeps `Mid`** -/
theorem appendAction_mid {cfg : Cfg} (hv : cfg.Valid) {s s1 : State} {player : Int} {ty : Option ActType}
    {amount : Option Int} (hi : Inv cfg s) (hm : Mid cfg s)
    (h : s.appendAction World.std player ty amount = .ok s1) : Mid cfg s1 := by
  have hwf := hi.wf hv
  obtain ⟨f1, _, _⟩ := appendAction_frame h
  obtain ⟨a, t, hact, hty, _, hpot, hla, _, _, _, hboard, hdeck, _, hx0, _⟩ :=
    accept_effect_thm s s1 hwf player ty amount h
  have hleg := (accept_iff_thm s hwf player ty amount).1 ⟨s1, h⟩
  have ha : a < cfg.n := hi.action_lt a hact
  refine ⟨hm.cfgOf.of_sameCfg f1, appendAction_chips hm.chips h, ?_, ?_, by rw [hboard]; exact hm.board_le,
    by rw [hboard, hdeck]; exact hm.cards⟩
  · rw [hla, List.length_set]; exact hm.la_len
  · rw [hla, hpot]
    refine i1_after_action hm.la_len hm.chips.pot_len ha t _ hx0 ?_ hm.i1
    intro htf
    subst htf
    refine ⟨rfl, ?_⟩
    obtain ⟨_, a', hact', _, hcase⟩ := hleg
    rw [hact] at hact'
    cases hact'
    subst hty
    have := owed_pos_lt hwf hcase.1
    rwa [hi.cfgOf.n] at this

/-- **the invariant of reachable states used by C13**: `Inv`, `Mid`, a hand in progress is before the showdown
street, a complete hand is on it and has one payout per seat -/
structure Inv2 (cfg : Cfg) (s : State) : Prop where
  inv : Inv cfg s
  mid : Mid cfg s
  street_lt : s.complete = false → s.street < 4
  done : s.complete = true → s.street = 4 ∧ ∃ pay, s.payouts = some pay ∧ pay.length = cfg.n

theorem construct_inv2 {cfg : Cfg} (hv : cfg.Valid) {s : State} (h : construct cfg = .ok s) : Inv2 cfg s := by
  have hi := construct_inv hv h
  obtain ⟨_, _, _, _, _, _, _, _, _, hdeck, hboard, hstreet, _, hla, _, _, hcomp, _, _, _⟩ := construct_frame h
  refine ⟨hi, ⟨hi.cfgOf, hi.chips, hi.la_len, ?_, ?_, ?_⟩, fun _ => by rw [hstreet]; omega,
    fun hc => by rw [hcomp] at hc; cases hc⟩
  · obtain ⟨p, hp, hmax⟩ := exists_max_holder s.pot cfg.n hi.chips.pot_len (by have := hv.n_ge; omega)
    refine ⟨p, hp, ?_, hmax⟩
    rw [hla]
    unfold folded
    rw [List.getElem?_map]
    cases cfg.startingStacks[p]? <;> rfl
  · rw [hboard]
    have := hv.board_len
    omega
  · rw [hboard, hdeck]; exact hv.cards

theorem act_inv2 {env : Env} (hw : env.w = World.std) {cfg : Cfg} (hv : cfg.Valid) {s s' : State} {player : Int}
    {ty : Option ActType} {amount : Option Int} (hi : Inv2 cfg s) (h : s.act env player ty amount = .ok s') :
    Inv2 cfg s' := by
  have hinv' := act_inv hw hi.inv h
  obtain ⟨s1, h1, h2⟩ := act_ok.1 h
  rw [hw] at h1
  have hc := (appendAction_ok.1 h1).1
  obtain ⟨_, t1, r1⟩ := appendAction_frame h1
  have m1 := appendAction_mid hv hi.inv hi.mid h1
  have hst1 : s1.street < 4 := by rw [t1.street]; exact hi.street_lt hc
  have hc1 : s1.complete = false := by rw [r1.complete]; exact hc
  rw [advanceAction_eq, m1.closed] at h2
  cases hcl : s1.closedSpec with
  | false =>
    simp only [hcl, bind, Except.bind, Bool.not_false, if_true] at h2
    cases h3 : s1.moveAction with
    | error e => rw [h3] at h2; cases h2
    | ok s2 =>
      rw [h3] at h2
      obtain ⟨a, p, _, rfl, _⟩ := moveAction_ok h3
      rcases settleIfShowdown_ok h2 with ⟨_, rfl⟩ | ⟨hge, _⟩
      · refine ⟨hinv', m1.congr ⟨rfl, rfl, rfl, rfl, rfl, rfl, rfl, rfl, rfl⟩ rfl rfl rfl m1.board_le m1.cards,
          fun _ => hst1, fun hd => ?_⟩
        rw [show ({ s1 with action := some p } : State).complete = s1.complete from rfl, hc1] at hd
        cases hd
      · have : 4 ≤ s1.street := hge
        omega
  | true =>
    simp only [hcl, bind, Except.bind, Bool.not_true, Bool.false_eq_true, if_false] at h2
    obtain ⟨s2, e2, m2, st2⟩ := Mid.streets_total 6 m1 (by omega) (by omega)
    rw [e2] at h2
    have hres := (streets_post 6 e2).result
    have hc2 : s2.complete = false := by rw [hres.complete]; exact hc1
    rcases settleIfShowdown_ok h2 with ⟨hlt, rfl⟩ | ⟨hge, pay, rake, hp, rfl⟩
    · exact ⟨hinv', m2, fun _ => hlt, fun hd => by rw [hc2] at hd; cases hd⟩
    · have hge' : 4 ≤ s2.street := hge
      refine ⟨hinv', m2.congr ⟨rfl, rfl, rfl, rfl, rfl, rfl, rfl, rfl, rfl⟩ rfl rfl rfl m2.board_le m2.cards,
        (fun hd => by cases hd), fun _ => ⟨?_, pay, rfl, ?_⟩⟩
      · show s2.street = 4
        omega
      · rw [getPayoutsAndRake_len (by rw [m2.cfgOf.n]; exact m2.chips.pot_len) hp, m2.cfgOf.n]

theorem reachable_inv2 {env : Env} (hw : env.w = World.std) {cfg : Cfg} (hv : cfg.Valid) {s : State}
    (h : Reachable env cfg s) : Inv2 cfg s := by
  induction h with
  | init h => exact construct_inv2 hv h
  | step p ty amt _ hact ih => exact act_inv2 hw hv ih hact

/-- **an accepted action is carried through `advance_action` without any error**
(rounding exact up to `B`, at most `B` chips on the table) -/
theorem advanceAction_total_of_reachable_B {env : Env} (hw : env.w = World.std) {B : Int}
    (hfl : C14.FlSpecB B env.fl) {cfg : Cfg} (hv : cfg.Valid) (hB : sumI cfg.startingStacks ≤ B)
    (hrank : RankTotal cfg.game env.rankFn) {s s1 : State} (h : Reachable env cfg s)
    {p : Int} {ty : Option ActType} {amt : Option Int} (h1 : s.appendAction env.w p ty amt = .ok s1) :
    ∃ s', s1.advanceAction env = .ok s' := by
  have hi := reachable_inv2 hw hv h
  rw [hw] at h1
  have hc := (appendAction_ok.1 h1).1
  obtain ⟨_, t1, _⟩ := appendAction_frame h1
  have m1 := appendAction_mid hv hi.inv hi.mid h1
  exact m1.advanceAction_total_B hv hfl hB hrank (by rw [t1.action]; exact hi.inv.action_some hc)
    (by rw [t1.street]; exact hi.street_lt hc)

/-- the card invariant of reachable states gives `CardsOf` -/
theorem Cards.cardsOf {cfg : Cfg} {s : State} (h : Cards cfg s) : CardsOf cfg s := by
  obtain ⟨j, h1, h2⟩ := h.split
  unfold CardsOf
  rw [h1, h2, List.append_assoc, List.take_append_drop]

/-- **an accepted action is carried through `advance_action` without any error**, for an evaluator that is total on
distinct valid cards when the cards were dealt from one deck
(rounding exact up to `B`, at most `B` chips on the table) -/
theorem advanceAction_total_of_reachable_B_on {env : Env} (hw : env.w = World.std) {B : Int}
    (hfl : C14.FlSpecB B env.fl) {cfg : Cfg} (hv : cfg.Valid) (hB : sumI cfg.startingStacks ≤ B) (hd : cfg.Dealt)
    (hrank : RankTotalOn cfg.game env.rankFn) {s s1 : State} (h : Reachable env cfg s)
    {p : Int} {ty : Option ActType} {amt : Option Int} (h1 : s.appendAction env.w p ty amt = .ok s1) :
    ∃ s', s1.advanceAction env = .ok s' := by
  have hi := reachable_inv2 hw hv h
  have hco : CardsOf cfg s := (reachable_cards hw hv h).cardsOf
  rw [hw] at h1
  have hc := (appendAction_ok.1 h1).1
  obtain ⟨_, t1, _⟩ := appendAction_frame h1
  have m1 := appendAction_mid hv hi.inv hi.mid h1
  have hco1 : CardsOf cfg s1 := by unfold CardsOf; rw [t1.board, t1.deck]; exact hco
  exact m1.advanceAction_total_B_on hv hfl hB hd hco1 hrank (by rw [t1.action]; exact hi.inv.action_some hc)
    (by rw [t1.street]; exact hi.street_lt hc)

/-- **an accepted action is carried through `advance_action` without any error**, for an evaluator that is total on
distinct valid cards when the cards were dealt from one deck -/
theorem advanceAction_total_of_reachable_on {env : Env} (hw : env.w = World.std) (hfl : C14.FlSpec env.fl) {cfg : Cfg}
    (hv : cfg.Valid) (hd : cfg.Dealt) (hrank : RankTotalOn cfg.game env.rankFn) {s s1 : State}
    (h : Reachable env cfg s)
    {p : Int} {ty : Option ActType} {amt : Option Int} (h1 : s.appendAction env.w p ty amt = .ok s1) :
    ∃ s', s1.advanceAction env = .ok s' :=
  advanceAction_total_of_reachable_B_on hw (hfl.toB (sumI cfg.startingStacks)) hv (Int.le_refl _) hd hrank h h1

/-- **an accepted action is carried through `advance_action` without any error** -/
theorem advanceAction_total_of_reachable {env : Env} (hw : env.w = World.std) (hfl : C14.FlSpec env.fl) {cfg : Cfg}
    (hv : cfg.Valid) (hrank : RankTotal cfg.game env.rankFn) {s s1 : State} (h : Reachable env cfg s)
    {p : Int} {ty : Option ActType} {amt : Option Int} (h1 : s.appendAction env.w p ty amt = .ok s1) :
    ∃ s', s1.advanceAction env = .ok s' :=
  advanceAction_total_of_reachable_B hw (hfl.toB (sumI cfg.startingStacks)) hv (Int.le_refl _) hrank h h1

end CardVerif.Betting
