import CardModel.Spec.Symmetry
import CardModel.Spec.Strength
import CardModel.Model.Misc
import CardVerif.Props.C06
import CardVerif.Proofs.ListLemmas
import Mathlib.Data.List.Perm.Basic
import Mathlib.Data.List.Perm.Subperm
import Mathlib.Data.List.Sublists
import Mathlib.Data.List.Nodup
import Mathlib.Data.List.Dedup
import Mathlib.Tactic.Positivity
/-!
# Helper lemmas for C18 — invariance under card order and suit relabelling, equity shares

* `Image` calculus: lengths, append, sublists of an image are images of sublists (both directions);
* `rank5` / `specKey` of an image; `bestKey` depends only on the set of keys; `omahaSpec`, `holdemSpec`;
* `DealOK` is preserved by images;
* `mapM` congruence by index;
* Hutchinson: `dedupFirst` under permutation / injective maps, the three contributions;
* equity: the `foldlM` invariant.
-/
namespace CardVerif.Sym
open CardVerif CardVerif.Rank5 CardVerif.Poker5 CardVerif.Strength CardVerif.Misc

/-! ## `relabel`, `Image` -/

@[simp] theorem relabel_rank (σ : Nat → Nat) (c : Card) : (relabel σ c).rank = c.rank := rfl
@[simp] theorem relabel_suit (σ : Nat → Nat) (c : Card) : (relabel σ c).suit = σ c.suit := rfl

theorem map_rank_relabel (σ : Nat → Nat) (h : List Card) :
    (h.map (relabel σ)).map (·.rank) = h.map (·.rank) := by
  rw [List.map_map]; rfl

theorem map_suit_relabel (σ : Nat → Nat) (h : List Card) :
    (h.map (relabel σ)).map (·.suit) = (h.map (·.suit)).map σ := by
  rw [List.map_map, List.map_map]; rfl

/-- `relabel σ` is injective on cards with a suit below 4 -/
theorem relabel_inj {σ : Nat → Nat} (hσ : SuitPerm σ) {c d : Card} (hc : c.suit < 4) (hd : d.suit < 4)
    (h : relabel σ c = relabel σ d) : c = d := by
  cases c with | mk cr cs => cases d with | mk dr ds =>
  simp only [relabel, Card.mk.injEq] at h
  obtain ⟨h1, h2⟩ := h
  have := hσ.inj cs ds hc hd h2
  subst h1; subst this; rfl

theorem Image.length_eq {σ : Nat → Nat} {l l' : List Card} (h : Image σ l l') : l'.length = l.length := by
  have := List.Perm.length_eq h
  simpa using this

theorem Image.append {σ : Nat → Nat} {a a' b b' : List Card} (ha : Image σ a a') (hb : Image σ b b') :
    Image σ (a ++ b) (a' ++ b') := by
  unfold Image at *
  rw [List.map_append]
  exact List.Perm.append ha hb

theorem Image.mem {σ : Nat → Nat} {l l' : List Card} (h : Image σ l l') {c : Card} (hc : c ∈ l') :
    ∃ c0 ∈ l, c = relabel σ c0 := by
  obtain ⟨c0, h0, rfl⟩ := List.mem_map.1 ((List.Perm.subset h) hc)
  exact ⟨c0, h0, rfl⟩

/-- a sublist of an image is the image of a sublist -/
theorem Image.of_sublist_right {σ : Nat → Nat} {l l' s' : List Card} (h : Image σ l l') (hs : s'.Sublist l') :
    ∃ s, s.Sublist l ∧ Image σ s s' := by
  have h1 : s'.Subperm (l.map (relabel σ)) := hs.subperm.trans (List.Perm.subperm h)
  obtain ⟨t, ht, hsub⟩ := h1
  obtain ⟨s, hs0, rfl⟩ := List.sublist_map_iff.1 hsub
  exact ⟨s, hs0, ht.symm⟩

/-- every sublist has an image that is a sublist of the image -/
theorem Image.of_sublist_left {σ : Nat → Nat} {l l' s : List Card} (h : Image σ l l') (hs : s.Sublist l) :
    ∃ s', s'.Sublist l' ∧ Image σ s s' := by
  have h1 : (s.map (relabel σ)).Subperm l' :=
    (hs.map (relabel σ)).subperm.trans (List.Perm.subperm (List.Perm.symm h))
  obtain ⟨t, ht, hsub⟩ := h1
  exact ⟨t, hsub, ht⟩

/-! ## five cards -/

theorem allSameSuit_relabel {σ : Nat → Nat} (hσ : SuitPerm σ) :
    ∀ h : List Card, (∀ c ∈ h, c.suit < 4) → allSameSuit (h.map (relabel σ)) = allSameSuit h
  | [], _ => rfl
  | c :: cs, hv => by
    simp only [List.map_cons, allSameSuit]
    rw [Bool.eq_iff_iff, List.all_eq_true, List.all_eq_true]
    have hc : c.suit < 4 := hv c List.mem_cons_self
    constructor
    · intro h d hd
      have := h (relabel σ d) (List.mem_map_of_mem hd)
      simp only [relabel_suit, beq_iff_eq] at this ⊢
      exact hσ.inj _ _ (hv d (List.mem_cons_of_mem _ hd)) hc this
    · intro h d hd
      obtain ⟨d0, hd0, rfl⟩ := List.mem_map.1 hd
      have := h d0 hd0
      simp only [relabel_suit, beq_iff_eq] at this ⊢
      rw [this]

theorem isFlush_relabel {σ : Nat → Nat} (hσ : SuitPerm σ) (h : List Card) (hv : ∀ c ∈ h, c.suit < 4) :
    isFlush (h.map (relabel σ)) = isFlush h := by
  rw [← C05.allSameSuit_eq_isFlush, ← C05.allSameSuit_eq_isFlush, allSameSuit_relabel hσ h hv]

theorem rank5_image {σ : Nat → Nat} (hσ : SuitPerm σ) {h h' : List Card} (hv : ∀ c ∈ h, c.suit < 4)
    (hi : Image σ h h') : rank5 h' = rank5 h := by
  rw [C05.rank5_perm h' _ hi]
  exact C05.rank5_suit_blind _ _ (map_rank_relabel σ h) (isFlush_relabel hσ h hv)

theorem specKey_image {σ : Nat → Nat} (hσ : SuitPerm σ) {h h' : List Card} (hv : ∀ c ∈ h, c.suit < 4)
    (hi : Image σ h h') : specKey h' = specKey h := by
  rw [C05.specKey_perm h' _ hi]
  unfold specKey
  rw [map_rank_relabel, allSameSuit_relabel hσ h hv]

/-! ## `bestKey` depends only on the set of keys -/

theorem bestKey_congr (hs hs' : List (List Card))
    (h1 : ∀ x ∈ hs, ∃ y ∈ hs', specKey y = specKey x)
    (h2 : ∀ y ∈ hs', ∃ x ∈ hs, specKey x = specKey y) : bestKey hs' = bestKey hs := by
  by_cases he : hs = []
  · subst he
    have : hs' = [] := by
      cases hs' with
      | nil => rfl
      | cons y ys =>
        obtain ⟨x, hx, _⟩ := h2 y List.mem_cons_self
        cases hx
    rw [this]
  · have he' : hs' ≠ [] := by
      intro h0
      subst h0
      cases hs with
      | nil => exact he rfl
      | cons x xs =>
        obtain ⟨y, hy, _⟩ := h1 x List.mem_cons_self
        cases hy
    obtain ⟨x, hx, ex⟩ := bestKey_mem hs he
    obtain ⟨y, hy, ey⟩ := bestKey_mem hs' he'
    apply lexLt_trichotomy
    · obtain ⟨y0, hy0, e0⟩ := h1 x hx
      rw [← ex, ← e0]
      exact bestKey_ge hs' y0 hy0
    · obtain ⟨x0, hx0, e0⟩ := h2 y hy
      rw [← ey, ← e0]
      exact bestKey_ge hs x0 hx0

theorem omahaSpec_image {σ : Nat → Nat} (hσ : SuitPerm σ) {b b' h h' : List Card}
    (hv : ∀ c ∈ b ++ h, c.suit < 4) (hb : Image σ b b') (hh : Image σ h h') :
    omahaSpec b' h' = omahaSpec b h := by
  unfold omahaSpec
  apply bestKey_congr
  · intro x hx
    obtain ⟨x1, x2, s1, l1, s2, l2, rfl⟩ := (C06.omahaHands_spec b h x).1 hx
    obtain ⟨y1, t1, i1⟩ := hb.of_sublist_left s1
    obtain ⟨y2, t2, i2⟩ := hh.of_sublist_left s2
    refine ⟨y1 ++ y2, (C06.omahaHands_spec b' h' _).2
      ⟨y1, y2, t1, by rw [i1.length_eq, l1], t2, by rw [i2.length_eq, l2], rfl⟩, ?_⟩
    exact specKey_image hσ (fun c hc => hv c ((s1.append s2).subset hc)) (i1.append i2)
  · intro y hy
    obtain ⟨y1, y2, t1, l1, t2, l2, rfl⟩ := (C06.omahaHands_spec b' h' y).1 hy
    obtain ⟨x1, s1, i1⟩ := hb.of_sublist_right t1
    obtain ⟨x2, s2, i2⟩ := hh.of_sublist_right t2
    refine ⟨x1 ++ x2, (C06.omahaHands_spec b h _).2
      ⟨x1, x2, s1, by rw [← i1.length_eq, l1], s2, by rw [← i2.length_eq, l2], rfl⟩, ?_⟩
    exact (specKey_image hσ (fun c hc => hv c ((s1.append s2).subset hc)) (i1.append i2)).symm

theorem holdemSpec_image {σ : Nat → Nat} (hσ : SuitPerm σ) {b b' h h' : List Card}
    (hv : ∀ c ∈ b ++ h, c.suit < 4) (hb : Image σ b b') (hh : Image σ h h') :
    holdemSpec b' h' = holdemSpec b h := by
  unfold holdemSpec
  have hi : Image σ (b ++ h) (b' ++ h') := hb.append hh
  apply bestKey_congr
  · intro x hx
    obtain ⟨s, l⟩ := (C06.holdemHands_spec b h x).1 hx
    obtain ⟨y, t, i⟩ := hi.of_sublist_left s
    exact ⟨y, (C06.holdemHands_spec b' h' y).2 ⟨t, by rw [i.length_eq, l]⟩,
      specKey_image hσ (fun c hc => hv c (s.subset hc)) i⟩
  · intro y hy
    obtain ⟨t, l⟩ := (C06.holdemHands_spec b' h' y).1 hy
    obtain ⟨x, s, i⟩ := hi.of_sublist_right t
    exact ⟨x, (C06.holdemHands_spec b h x).2 ⟨s, by rw [← i.length_eq, l]⟩,
      (specKey_image hσ (fun c hc => hv c (s.subset hc)) i).symm⟩

/-! ## legal deals -/

theorem dealOK_image {σ : Nat → Nat} (hσ : SuitPerm σ) {b b' h h' : List Card} {k : Nat}
    (hd : C06.DealOK b h k) (hb : Image σ b b') (hh : Image σ h h') : C06.DealOK b' h' k := by
  have hi : Image σ (b ++ h) (b' ++ h') := hb.append hh
  refine ⟨by rw [hb.length_eq, hd.board_len], by rw [hh.length_eq, hd.hand_len], ?_, ?_⟩
  · refine (List.Perm.nodup_iff hi).2 (List.Nodup.map_on ?_ hd.nodup)
    intro x hx y hy hxy
    exact relabel_inj hσ (hd.valid x hx).2.2 (hd.valid y hy).2.2 hxy
  · intro c hc
    obtain ⟨c0, h0, rfl⟩ := hi.mem hc
    obtain ⟨v1, v2, v3⟩ := hd.valid c0 h0
    exact ⟨v1, v2, hσ.range _ v3⟩

theorem dealOK_suits {b h : List Card} {k : Nat} (hd : C06.DealOK b h k) : ∀ c ∈ b ++ h, c.suit < 4 :=
  fun c hc => (hd.valid c hc).2.2

/-! ## `mapM` congruence by index -/

theorem mapM_congr_index {ε α β γ : Type} (f : α → Except ε γ) (g : β → Except ε γ) :
    ∀ (l : List α) (l' : List β), l.length = l'.length →
      (∀ i, i < l.length → ∀ x y, l[i]? = some x → l'[i]? = some y → g y = f x) →
      l'.mapM g = l.mapM f
  | [], [], _, _ => rfl
  | [], _ :: _, hl, _ => by simp at hl
  | _ :: _, [], hl, _ => by simp at hl
  | x :: xs, y :: ys, hl, h => by
    rw [List.mapM_cons, List.mapM_cons, h 0 (by simp) x y rfl rfl,
      mapM_congr_index f g xs ys (by simpa using hl) (fun i hi a b ha hb =>
        h (i + 1) (by simpa using hi) a b (by simpa using ha) (by simpa using hb))]

/-! ## `sumN`, `dedupFirst` -/

theorem sumN_perm {l₁ l₂ : List Nat} (hp : l₁.Perm l₂) : sumN l₁ = sumN l₂ := by
  induction hp with
  | nil => rfl
  | cons x _ ih => simp only [sumN_cons, ih]
  | swap x y l => simp only [sumN_cons]; omega
  | trans _ _ ih1 ih2 => exact ih1.trans ih2

theorem dedupFirst_aux {α : Type} [DecidableEq α] (l acc : List α) (hacc : acc.Nodup) :
    (l.foldl (fun acc x => if x ∈ acc then acc else acc ++ [x]) acc).Nodup ∧
    ∀ x, x ∈ l.foldl (fun acc x => if x ∈ acc then acc else acc ++ [x]) acc ↔ x ∈ acc ∨ x ∈ l := by
  induction l generalizing acc with
  | nil => simp [hacc]
  | cons y ys ih =>
    simp only [List.foldl_cons]
    by_cases hy : y ∈ acc
    · rw [if_pos hy]
      obtain ⟨h1, h2⟩ := ih acc hacc
      refine ⟨h1, fun x => ?_⟩
      rw [h2, List.mem_cons]
      constructor
      · rintro (h | h)
        · exact Or.inl h
        · exact Or.inr (Or.inr h)
      · rintro (h | rfl | h)
        · exact Or.inl h
        · exact Or.inl hy
        · exact Or.inr h
    · rw [if_neg hy]
      have hn : (acc ++ [y]).Nodup := by
        rw [List.nodup_append]
        refine ⟨hacc, List.nodup_singleton y, ?_⟩
        intro a ha b hb
        rw [List.mem_singleton] at hb
        subst hb
        intro h; subst h; exact hy ha
      obtain ⟨h1, h2⟩ := ih (acc ++ [y]) hn
      refine ⟨h1, fun x => ?_⟩
      rw [h2, List.mem_append, List.mem_singleton, List.mem_cons]
      tauto

theorem nodup_dedupFirst {α : Type} [DecidableEq α] (l : List α) : (dedupFirst l).Nodup :=
  (dedupFirst_aux l [] List.nodup_nil).1

theorem mem_dedupFirst {α : Type} [DecidableEq α] (l : List α) (x : α) : x ∈ dedupFirst l ↔ x ∈ l := by
  have := (dedupFirst_aux l [] List.nodup_nil).2 x
  unfold dedupFirst
  simpa using this

/-- the distinct elements of a permuted list are a permutation of the distinct elements -/
theorem dedupFirst_perm {α : Type} [DecidableEq α] {l₁ l₂ : List α} (hp : l₁.Perm l₂) :
    (dedupFirst l₁).Perm (dedupFirst l₂) := by
  rw [List.perm_ext_iff_of_nodup (nodup_dedupFirst _) (nodup_dedupFirst _)]
  intro a
  rw [mem_dedupFirst, mem_dedupFirst]
  exact hp.mem_iff

/-- `dedupFirst` commutes (up to order) with a map that is injective on the list -/
theorem dedupFirst_map_perm {α β : Type} [DecidableEq α] [DecidableEq β] (f : α → β) (l : List α)
    (hinj : ∀ a ∈ l, ∀ b ∈ l, f a = f b → a = b) :
    (dedupFirst (l.map f)).Perm ((dedupFirst l).map f) := by
  have hnd : ((dedupFirst l).map f).Nodup :=
    List.Nodup.map_on (fun a ha b hb => hinj a ((mem_dedupFirst l a).1 ha) b ((mem_dedupFirst l b).1 hb))
      (nodup_dedupFirst l)
  rw [List.perm_ext_iff_of_nodup (nodup_dedupFirst _) hnd]
  intro b
  simp only [mem_dedupFirst, List.mem_map]

/-- a sum over the distinct keys is invariant under permutation of the keys -/
theorem sumN_dedupFirst_perm {α : Type} [DecidableEq α] {l₁ l₂ : List α} (hp : l₁.Perm l₂) (F G : α → Nat)
    (hFG : ∀ a ∈ l₁, F a = G a) : sumN ((dedupFirst l₁).map F) = sumN ((dedupFirst l₂).map G) := by
  have : (dedupFirst l₁).map F = (dedupFirst l₁).map G :=
    List.map_congr_left fun a ha => hFG a ((mem_dedupFirst l₁ a).1 ha)
  rw [this]
  exact sumN_perm ((dedupFirst_perm hp).map G)

/-! ## Hutchinson -/

/-- the flush value of the ranks held in one suit -/
def flushG (rs : List Nat) : Nat := if rs.length ≥ 2 then (rs.map flushValue).foldl max 0 else 0

theorem flushG_perm {l₁ l₂ : List Nat} (hp : l₁.Perm l₂) : flushG l₁ = flushG l₂ := by
  unfold flushG
  rw [hp.length_eq]
  have : (l₁.map flushValue).foldl max 0 = (l₂.map flushValue).foldl max 0 :=
    List.Perm.foldl_eq' (hp.map flushValue) (fun x _ y _ z => by omega) 0
  rw [this]

theorem flushesContribution_eq (hand : List Card) :
    flushesContribution hand =
      sumN ((dedupFirst (hand.map (·.suit))).map fun s => flushG ((hand.filter (·.suit == s)).map (·.rank))) := by
  unfold flushesContribution suitGroups
  rw [List.map_map]
  rfl

theorem pairsContribution_eq (hand : List Card) :
    pairsContribution hand =
      sumN ((dedupFirst (hand.map (·.rank))).map fun r =>
        if (hand.filter (·.rank == r)).length == 2 then pairValue r else 0) := by
  unfold pairsContribution rankGroups
  rw [List.map_map]
  congr 1
  apply List.map_congr_left
  intro r _
  simp only [Function.comp, List.length_map]

theorem flushesContribution_perm {h₁ h₂ : List Card} (hp : h₁.Perm h₂) :
    flushesContribution h₁ = flushesContribution h₂ := by
  rw [flushesContribution_eq, flushesContribution_eq]
  apply sumN_dedupFirst_perm (hp.map (·.suit))
  intro s _
  exact flushG_perm ((hp.filter _).map _)

theorem pairsContribution_perm {h₁ h₂ : List Card} (hp : h₁.Perm h₂) :
    pairsContribution h₁ = pairsContribution h₂ := by
  rw [pairsContribution_eq, pairsContribution_eq]
  apply sumN_dedupFirst_perm (hp.map (·.rank))
  intro r _
  rw [(hp.filter _).length_eq]

theorem straightsContribution_congr {h₁ h₂ : List Card} (hp : (h₁.map (·.rank)).Perm (h₂.map (·.rank))) :
    straightsContribution h₁ = straightsContribution h₂ := by
  unfold straightsContribution
  rw [sortN_congr (C05.withAceLow_perm (dedup_perm hp))]

theorem flushesContribution_relabel {σ : Nat → Nat} (hσ : SuitPerm σ) (h : List Card)
    (hv : ∀ c ∈ h, c.suit < 4) : flushesContribution (h.map (relabel σ)) = flushesContribution h := by
  rw [flushesContribution_eq, flushesContribution_eq, map_suit_relabel]
  have hlt : ∀ s ∈ h.map (·.suit), s < 4 := by
    intro s hs
    obtain ⟨c, hc, rfl⟩ := List.mem_map.1 hs
    exact hv c hc
  have hp := dedupFirst_map_perm σ (h.map (·.suit))
    (fun a ha b hb => hσ.inj a b (hlt a ha) (hlt b hb))
  rw [sumN_perm (hp.map _), List.map_map]
  congr 1
  apply List.map_congr_left
  intro s hs
  have hs4 : s < 4 := hlt s ((mem_dedupFirst _ s).1 hs)
  simp only [Function.comp]
  rw [List.filter_map]
  have : List.filter ((fun c : Card => c.suit == σ s) ∘ relabel σ) h = List.filter (fun c => c.suit == s) h := by
    apply List.filter_congr
    intro c hc
    simp only [Function.comp, relabel_suit]
    rw [Bool.eq_iff_iff, beq_iff_eq, beq_iff_eq]
    exact ⟨fun e => hσ.inj _ _ (hv c hc) hs4 e, fun e => by rw [e]⟩
  rw [this, map_rank_relabel]

theorem pairsContribution_relabel (σ : Nat → Nat) (h : List Card) :
    pairsContribution (h.map (relabel σ)) = pairsContribution h := by
  rw [pairsContribution_eq, pairsContribution_eq, map_rank_relabel]
  congr 1
  apply List.map_congr_left
  intro r _
  rw [List.filter_map, List.length_map]
  rfl

theorem hiPointCount_image {σ : Nat → Nat} (hσ : SuitPerm σ) {h h' : List Card} (hv : ∀ c ∈ h, c.suit < 4)
    (hi : Image σ h h') : hiPointCount h' = hiPointCount h := by
  unfold hiPointCount
  rw [flushesContribution_perm hi, pairsContribution_perm hi, flushesContribution_relabel hσ h hv,
    pairsContribution_relabel σ h]
  have : (h'.map (·.rank)).Perm (h.map (·.rank)) := by
    have := List.Perm.map (·.rank) hi
    rwa [map_rank_relabel] at this
  rw [straightsContribution_congr this]

/-! ## equity -/

theorem bind_ok {ε α β : Type} {x : Except ε α} {f : α → Except ε β} {b : β} :
    (x >>= f) = .ok b ↔ ∃ a, x = .ok a ∧ f a = .ok b := by
  cases x with
  | error e => simp [bind, Except.bind]
  | ok a => simp [bind, Except.bind]

/-- one sample of `simulate_all_in_equity` -/
def equityStep (tiersOf : List Card → List (List Card) → Except Err (List (List Nat))) (board : List Card)
    (hands : List (List Card)) (n : Nat) (shares : List Rat) (sample : List Card) : Except Err (List Rat) := do
  let tiers ← tiersOf (board ++ sample) hands
  match tiers with
  | [] => .error .indexError
  | t0 :: _ =>
    if t0.length = 0 then .error .zeroDiv else
    pure (t0.foldl (fun sh p => sh.modify p (· + 1 / (t0.length : Rat) / (n : Rat))) shares)

theorem simulateEquity_eq (tiersOf : List Card → List (List Card) → Except Err (List (List Nat)))
    (board : List Card) (hands : List (List Card)) (samples : List (List Card)) :
    simulateEquity tiersOf board hands samples =
      samples.foldlM (equityStep tiersOf board hands samples.length) (hands.map fun _ => 0) := rfl

theorem equity_fold (tiersOf : List Card → List (List Card) → Except Err (List (List Nat))) (board : List Card)
    (hands : List (List Card)) (n : Nat) (hn : 0 < n) :
    ∀ (l : List (List Card)) (sh0 sh : List Rat),
      (∀ s ∈ l, ∀ t, tiersOf (board ++ s) hands = .ok t →
        ∃ t0 rest, t = t0 :: rest ∧ t0 ≠ [] ∧ t0.Nodup ∧ ∀ p ∈ t0, p < hands.length) →
      sh0.length = hands.length → (∀ x ∈ sh0, 0 ≤ x) →
      l.foldlM (equityStep tiersOf board hands n) sh0 = .ok sh →
      sh.length = hands.length ∧ (∀ x ∈ sh, 0 ≤ x) ∧ sumQ sh = sumQ sh0 + (l.length : Rat) / (n : Rat) := by
  intro l
  induction l with
  | nil =>
    intro sh0 sh _ hl hnn h
    simp only [List.foldlM_nil, pure, Except.pure, Except.ok.injEq] at h
    subst h
    exact ⟨hl, hnn, by simp⟩
  | cons s l ih =>
    intro sh0 sh ht hl hnn h
    rw [List.foldlM_cons, bind_ok] at h
    obtain ⟨sh1, h1, h2⟩ := h
    unfold equityStep at h1
    rw [bind_ok] at h1
    obtain ⟨tiers, ht1, h1⟩ := h1
    obtain ⟨t0, rest, rfl, hne, _, hlt⟩ := ht s List.mem_cons_self tiers ht1
    have hlen0 : t0.length ≠ 0 := fun h0 => hne (List.length_eq_zero_iff.1 h0)
    simp only [if_neg hlen0, pure, Except.pure, Except.ok.injEq] at h1
    have hnq : (0 : Rat) < (n : Rat) := by exact_mod_cast hn
    have htq : (0 : Rat) < (t0.length : Rat) := by exact_mod_cast Nat.pos_of_ne_zero hlen0
    have hm : (0 : Rat) ≤ 1 / (t0.length : Rat) / (n : Rat) := by positivity
    have hl1 : sh1.length = hands.length := by
      rw [← h1, length_foldl_modify, hl]
    have hnn1 : ∀ x ∈ sh1, 0 ≤ x := by
      rw [← h1]
      exact nonneg_foldl_modify t0 sh0 _ hm hnn
    have hs1 : sumQ sh1 = sumQ sh0 + 1 / (n : Rat) := by
      rw [← h1, sumQ_foldl_modify t0 sh0 _ (fun w hw => by rw [hl]; exact hlt w hw)]
      field_simp
    obtain ⟨r1, r2, r3⟩ := ih sh1 sh (fun s' hs' => ht s' (List.mem_cons_of_mem _ hs')) hl1 hnn1 h2
    refine ⟨r1, r2, ?_⟩
    rw [r3, hs1, List.length_cons]
    push_cast
    field_simp
    ring

theorem sumQ_map_zero' {α : Type} (l : List α) : sumQ (l.map fun _ => (0 : Rat)) = 0 := by
  induction l with
  | nil => rfl
  | cons x l ih => simp only [List.map_cons, sumQ_cons, ih]; norm_num

theorem equity_shares_aux (tiersOf : List Card → List (List Card) → Except Err (List (List Nat))) (board : List Card)
    (hands : List (List Card)) (samples : List (List Card)) (hne : samples ≠ []) (shares : List Rat)
    (htiers : ∀ s ∈ samples, ∀ t, tiersOf (board ++ s) hands = .ok t →
        ∃ t0 rest, t = t0 :: rest ∧ t0 ≠ [] ∧ t0.Nodup ∧ ∀ p ∈ t0, p < hands.length)
    (h : simulateEquity tiersOf board hands samples = .ok shares) :
    shares.length = hands.length ∧ (∀ x ∈ shares, 0 ≤ x) ∧ sumQ shares = 1 := by
  rw [simulateEquity_eq] at h
  have hn : 0 < samples.length := List.length_pos_iff.2 hne
  obtain ⟨r1, r2, r3⟩ := equity_fold tiersOf board hands samples.length hn samples _ shares htiers
    (by simp) (by intro x hx; obtain ⟨_, _, rfl⟩ := List.mem_map.1 hx; exact le_refl _) h
  refine ⟨r1, r2, ?_⟩
  rw [r3, sumQ_map_zero']
  have : (samples.length : Rat) ≠ 0 := by exact_mod_cast Nat.pos_iff_ne_zero.1 hn
  rw [zero_add, div_self this]

end CardVerif.Sym
