import CardModel.Spec.Strength
import CardModel.Model.Omaha
import CardVerif.Props.C05
import Mathlib.Data.List.Sublists
import Mathlib.Data.List.Nodup
import Mathlib.Data.Nat.Choose.Basic
/-!
# Helper lemmas for C06 — strength = best legal five-card hand

* `lexLt` is a strict total order on `List Nat` (`lexLt_irrefl`, `lexLt_trans`, `lexLt_trichotomy`, ...)
* `combinations k l` = the sublists of length `k`, there are `Nat.choose l.length k` of them
* `bestRank combos = .ok (bestKey combos)` when every combo is a hand of five distinct valid cards
* `bestKey` is attained and dominates
-/
namespace CardVerif.Strength
open CardVerif CardVerif.Poker5 CardVerif.Rank5

/-! ## `lexLt` is a strict total order -/

@[simp] theorem lexLt_nil_left (k : List Nat) : lexLt [] k = !k.isEmpty := by
  cases k <;> rfl

@[simp] theorem lexLt_nil_right (k : List Nat) : lexLt k [] = false := by
  cases k <;> rfl

theorem lexLt_cons_cons (a b : Nat) (as bs : List Nat) :
    lexLt (a :: as) (b :: bs) = if a < b then true else if b < a then false else lexLt as bs := rfl

theorem lexLt_irrefl (a : List Nat) : lexLt a a = false := by
  induction a with
  | nil => rfl
  | cons x xs ih => simp [lexLt_cons_cons, ih]

theorem lexLt_trans {a b c : List Nat} (h₁ : lexLt a b = true) (h₂ : lexLt b c = true) :
    lexLt a c = true := by
  induction a generalizing b c with
  | nil =>
    cases c with
    | nil => simp at h₂
    | cons z zs => rfl
  | cons x xs ih =>
    cases b with
    | nil => simp at h₁
    | cons y ys =>
      cases c with
      | nil => simp at h₂
      | cons z zs =>
        rw [lexLt_cons_cons] at h₁ h₂ ⊢
        by_cases hxy : x < y
        · by_cases hyz : y < z
          · rw [if_pos (by omega)]
          · rw [if_neg hyz] at h₂
            by_cases hzy : z < y
            · rw [if_pos hzy] at h₂; cases h₂
            · rw [if_pos (by omega)]
        · rw [if_neg hxy] at h₁
          by_cases hyx : y < x
          · rw [if_pos hyx] at h₁; cases h₁
          · rw [if_neg hyx] at h₁
            have hxy' : x = y := by omega
            subst hxy'
            by_cases hxz : x < z
            · rw [if_pos hxz]
            · rw [if_neg hxz] at h₂ ⊢
              by_cases hzx : z < x
              · rw [if_pos hzx] at h₂; cases h₂
              · rw [if_neg hzx] at h₂ ⊢
                exact ih h₁ h₂

/-- trichotomy: two keys neither of which is smaller are equal -/
theorem lexLt_trichotomy {a b : List Nat} (h₁ : lexLt a b = false) (h₂ : lexLt b a = false) : a = b := by
  induction a generalizing b with
  | nil =>
    cases b with
    | nil => rfl
    | cons y ys => simp at h₁
  | cons x xs ih =>
    cases b with
    | nil => simp at h₂
    | cons y ys =>
      rw [lexLt_cons_cons] at h₁ h₂
      by_cases hxy : x < y
      · rw [if_pos hxy] at h₁; cases h₁
      · rw [if_neg hxy] at h₁ h₂
        by_cases hyx : y < x
        · rw [if_pos hyx] at h₂; cases h₂
        · rw [if_neg hyx] at h₁ h₂
          have hxy' : x = y := by omega
          subst hxy'
          rw [ih h₁ h₂]

theorem lexLt_asymm {a b : List Nat} (h : lexLt a b = true) : lexLt b a = false := by
  cases hba : lexLt b a with
  | false => rfl
  | true =>
    have := lexLt_trans h hba
    rw [lexLt_irrefl] at this
    cases this

/-- `a ≤ b` and `b < c` give `a < c` -/
theorem lexLt_of_not_lt_of_lt {a b c : List Nat} (h₁ : lexLt b a = false) (h₂ : lexLt b c = true) :
    lexLt a c = true := by
  cases hab : lexLt a b with
  | true => exact lexLt_trans hab h₂
  | false => rw [lexLt_trichotomy hab h₁]; exact h₂

/-- `a < b` and `b ≤ c` give `a < c` -/
theorem lexLt_of_lt_of_not_lt {a b c : List Nat} (h₁ : lexLt a b = true) (h₂ : lexLt c b = false) :
    lexLt a c = true := by
  cases hbc : lexLt b c with
  | true => exact lexLt_trans h₁ hbc
  | false => rw [← lexLt_trichotomy hbc h₂]; exact h₁

/-- negative transitivity: `b ≤ a` and `c ≤ b` give `c ≤ a` -/
theorem lexLt_false_trans {a b c : List Nat} (h₁ : lexLt a b = false) (h₂ : lexLt b c = false) :
    lexLt a c = false := by
  cases hac : lexLt a c with
  | false => rfl
  | true =>
    have := lexLt_of_not_lt_of_lt h₁ hac
    rw [h₂] at this
    cases this

theorem lexLe_refl (a : List Nat) : lexLe a a = true := by simp [lexLe, lexLt_irrefl]

theorem lexLe_total (a b : List Nat) : lexLe a b = true ∨ lexLe b a = true := by
  unfold lexLe
  cases h : lexLt b a with
  | false => exact .inl rfl
  | true => right; rw [lexLt_asymm h]; rfl

/-! ## `combinations` -/

/-- `itertools.combinations`: the sublists of the given length -/
theorem mem_combinations' {α : Type} {k : Nat} {l s : List α} :
    s ∈ combinations k l ↔ s.Sublist l ∧ s.length = k := by
  rw [← List.mem_sublistsLen]
  induction l generalizing k s with
  | nil => cases k <;> simp [combinations]
  | cons x xs ih =>
    cases k with
    | zero => simp [combinations]
    | succ k => simp [combinations, List.sublistsLen_succ_cons, ih, or_comm]

/-- `itertools.combinations(l, k)` yields `C(len l, k)` tuples -/
theorem length_combinations {α : Type} (k : Nat) (l : List α) :
    (combinations k l).length = Nat.choose l.length k := by
  induction l generalizing k with
  | nil => cases k <;> simp [combinations]
  | cons x xs ih =>
    cases k with
    | zero => simp [combinations]
    | succ k =>
      simp only [combinations, List.length_append, List.length_map, List.length_cons, ih,
        Nat.choose_succ_succ]

theorem length_flatMap_map {α β γ : Type} (l : List α) (m : List β) (g : α → β → γ) :
    (l.flatMap fun a => m.map fun b => g a b).length = l.length * m.length := by
  induction l with
  | nil => simp
  | cons x xs ih =>
    rw [List.flatMap_cons, List.length_append, ih, List.length_map, List.length_cons, Nat.succ_mul,
      Nat.add_comm]

/-! ## `bestKey`: the fold is a maximum -/

/-- the comparison step shared by `bestRank` (on keys) and `bestKey` (on hands) -/
def step (best k : List Nat) : List Nat := if lexLt best k then k else best

theorem bestKey_eq_foldl (hands : List (List Card)) :
    bestKey hands = (hands.map specKey).foldl step [] := by
  unfold bestKey
  rw [List.foldl_map]
  rfl

theorem step_nil (k : List Nat) : step [] k = k := by
  cases k <;> rfl

/-- the running maximum is the start value or one of the keys, and dominates the start value and all keys -/
theorem foldl_step_spec (ks : List (List Nat)) (a : List Nat) :
    (ks.foldl step a = a ∨ ks.foldl step a ∈ ks) ∧
    lexLt (ks.foldl step a) a = false ∧
    ∀ k ∈ ks, lexLt (ks.foldl step a) k = false := by
  induction ks generalizing a with
  | nil => simp [lexLt_irrefl]
  | cons y ys ih =>
    rw [List.foldl_cons]
    obtain ⟨h1, h2, h3⟩ := ih (step a y)
    have hay : lexLt (step a y) a = false ∧ lexLt (step a y) y = false := by
      unfold step
      cases h : lexLt a y with
      | true => exact ⟨by simpa using lexLt_asymm h, by simpa using lexLt_irrefl y⟩
      | false => exact ⟨by simpa using lexLt_irrefl a, by simpa using h⟩
    refine ⟨?_, lexLt_false_trans h2 hay.1, ?_⟩
    · rcases h1 with h1 | h1
      · rw [h1]
        unfold step
        split
        · exact .inr List.mem_cons_self
        · exact .inl rfl
      · exact .inr (List.mem_cons_of_mem _ h1)
    · intro k hk
      rcases List.mem_cons.1 hk with rfl | hk
      · exact lexLt_false_trans h2 hay.2
      · exact h3 k hk

/-- `bestKey` on a non-empty list: fold from the first key -/
theorem bestKey_cons (h : List Card) (hs : List (List Card)) :
    bestKey (h :: hs) = (hs.map specKey).foldl step (specKey h) := by
  rw [bestKey_eq_foldl, List.map_cons, List.foldl_cons, step_nil]

theorem bestKey_mem (hands : List (List Card)) (hne : hands ≠ []) :
    ∃ h ∈ hands, specKey h = bestKey hands := by
  cases hands with
  | nil => exact absurd rfl hne
  | cons h hs =>
    rw [bestKey_cons]
    rcases (foldl_step_spec (hs.map specKey) (specKey h)).1 with h1 | h1
    · exact ⟨h, List.mem_cons_self, h1.symm⟩
    · obtain ⟨h', hm, he⟩ := List.mem_map.1 h1
      exact ⟨h', List.mem_cons_of_mem _ hm, he⟩

theorem bestKey_ge (hands : List (List Card)) (h : List Card) (hm : h ∈ hands) :
    lexLt (bestKey hands) (specKey h) = false := by
  cases hands with
  | nil => cases hm
  | cons h0 hs =>
    rw [bestKey_cons]
    obtain ⟨_, h2, h3⟩ := foldl_step_spec (hs.map specKey) (specKey h0)
    rcases List.mem_cons.1 hm with rfl | hm
    · exact h2
    · exact h3 _ (List.mem_map_of_mem hm)

/-! ## `bestRank` = `bestKey` on well-formed hands -/

theorem mapM_ok {α β : Type} (f : α → Except Err β) (g : α → β) (l : List α)
    (h : ∀ x ∈ l, f x = .ok (g x)) : l.mapM f = .ok (l.map g) := by
  induction l with
  | nil => rfl
  | cons x xs ih =>
    rw [List.mapM_cons, h x List.mem_cons_self, ih fun y hy => h y (List.mem_cons_of_mem _ hy)]
    rfl

/-- a hand the five-card evaluator is specified on -/
def HandOK (h : List Card) : Prop := h.length = 5 ∧ h.Nodup ∧ ∀ c ∈ h, c.Valid

/-- `max(combos, key=five_card_hand_rank)` is the best rule key, as soon as there is a combo and all combos are
five distinct valid cards -/
theorem bestRank_eq_bestKey (combos : List (List Card)) (hne : combos ≠ [])
    (hok : ∀ h ∈ combos, HandOK h) : Eval.bestRank combos = .ok (bestKey combos) := by
  unfold Eval.bestRank
  rw [mapM_ok rank5 specKey combos fun h hm =>
    C05.rank5_eq_spec h (hok h hm).1 (hok h hm).2.1 (hok h hm).2.2]
  cases combos with
  | nil => exact absurd rfl hne
  | cons h hs =>
    rw [bestKey_cons]
    rfl

/-- `max(combos, key=…)` on no combos is Python's `ValueError` -/
theorem bestRank_nil : Eval.bestRank [] = .error .emptyMax := rfl

end CardVerif.Strength
