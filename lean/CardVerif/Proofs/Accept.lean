import CardModel.Spec.Legality
import CardVerif.Proofs.ListLemmas
/-!
# C04 — `append_action` accepts exactly the `LegalWith implLr` candidates, and what an accepted action does
-/
namespace CardVerif.Betting
open CardVerif

/-! ## generic list facts -/

theorem length_insertBy {α : Type} (le : α → α → Bool) (x : α) (l : List α) :
    (insertBy le x l).length = l.length + 1 := by
  induction l with
  | nil => simp [insertBy]
  | cons y ys ih =>
    unfold insertBy
    split
    · simp
    · simp [ih]

theorem length_sortBy {α : Type} (le : α → α → Bool) (l : List α) : (sortBy le l).length = l.length := by
  induction l with
  | nil => simp [sortBy]
  | cons y ys ih =>
    have : sortBy le (y :: ys) = insertBy le y (sortBy le ys) := rfl
    rw [this, length_insertBy, ih]; simp

theorem length_sortI (l : List Int) : (sortI l).length = l.length := length_sortBy _ l

private theorem modify_eq_self {α : Type} (l : List α) (i : Nat) (f : α → α) (hf : ∀ x, f x = x) :
    l.modify i f = l := by
  have : f = id := funext hf
  rw [this, List.modify_id]

/-! ## closed forms of the bet-size functions -/

section Closed
variable {s : State} {a : Nat}

theorem maxI_pot (hwf : s.WF) : maxI s.pot = .ok s.maxPot := by
  have h1 := hwf.pot_len
  have h2 := hwf.n_ge
  unfold maxI State.maxPot
  cases hp : s.pot with
  | nil => rw [hp] at h1; simp at h1; omega
  | cons x xs => simp [maxI?]

theorem stack_nonneg (hwf : s.WF) (a : Nat) : 0 ≤ getI s.stacks a :=
  getI_nonneg _ hwf.stacks_nonneg a

theorem pot_le_maxPot (hwf : s.WF) (a : Nat) (ha : a < s.n) : getI s.pot a ≤ s.maxPot := by
  have h1 := hwf.pot_len
  unfold State.maxPot
  cases hm : maxI? s.pot with
  | none =>
    cases hp : s.pot with
    | nil => rw [hp] at h1; simp at h1; omega
    | cons x xs => rw [hp] at hm; simp [maxI?] at hm
  | some m =>
    exact (maxI?_spec _ _ hm).2 _ (getI_mem _ _ (by omega))

theorem owed_nonneg (hwf : s.WF) (ha : s.action = some a) : 0 ≤ s.owed a := by
  have h1 := stack_nonneg hwf a
  have h2 := pot_le_maxPot hwf a (hwf.action_lt a ha)
  unfold State.owed; omega

theorem owed_le_stack (s : State) (a : Nat) : s.owed a ≤ getI s.stacks a := by
  unfold State.owed; omega

theorem amountToCall_eq (hwf : s.WF) (ha : s.action = some a) : s.amountToCall = .ok (s.owed a) := by
  simp [State.amountToCall, ha, maxI_pot hwf, State.owed, bind, Except.bind]

theorem sorted_pot_shape (hwf : s.WF) : ∃ t0 t1 r, (sortI s.pot).reverse = t0 :: t1 :: r := by
  have h1 := hwf.pot_len
  have h2 := hwf.n_ge
  have h3 : (sortI s.pot).reverse.length = s.pot.length := by rw [List.length_reverse, length_sortI]
  match h : (sortI s.pot).reverse with
  | [] => rw [h] at h3; simp at h3; omega
  | [_] => rw [h] at h3; simp at h3; omega
  | t0 :: t1 :: r => exact ⟨t0, t1, r, rfl⟩

/-- closed form of `min_bet` -/
def minBetV (s : State) (a : Nat) : Int :=
  if s.owed a = 0 then min s.biggestBlind (getI s.stacks a)
  else min (max s.topGap s.biggestBlind + s.owed a) (getI s.stacks a)

/-- closed form of `max_bet` -/
def maxBetV (s : State) (a : Nat) : Int :=
  match s.game with
  | .nlhe => getI s.stacks a
  | .plo => min (getI s.stacks a) (2 * s.owed a + sumI s.pot)

theorem minBet_eq (hwf : s.WF) (ha : s.action = some a) : s.minBet = .ok (minBetV s a) := by
  obtain ⟨t0, t1, r, hs⟩ := sorted_pot_shape hwf
  simp only [State.minBet, ha, amountToCall_eq hwf ha, State.topGap, hs, bind, Except.bind, minBetV]
  by_cases h : s.owed a = 0 <;> simp [h]

theorem maxBet_eq (hwf : s.WF) (ha : s.action = some a) : s.maxBet = .ok (maxBetV s a) := by
  simp only [State.maxBet, ha, State.potSizedBet, amountToCall_eq hwf ha, bind, Except.bind, maxBetV]
  cases s.game <;> rfl

theorem isActingLastPreflop_eq (ha : s.action = some a) : s.isActingLastPreflop = s.bbOption a := by
  simp [State.isActingLastPreflop, State.bbOption, ha]

theorem validActions_eq (hwf : s.WF) (ha : s.action = some a) :
    s.validActions World.std = .ok (if s.owed a = 0 then
      (if s.bbOption a then [.bet, .check, .raise] else [.bet, .check]) else [.fold, .call, .raise]) := by
  simp only [State.validActions, amountToCall_eq hwf ha, isActingLastPreflop_eq ha, World.std, bind, Except.bind]
  by_cases h : s.owed a = 0 <;> cases s.bbOption a <;> simp [h]

end Closed

/-! ## `append_action` in closed form -/

/-- the amount an accepted action moves (as in `Props/C04.lean`) -/
def movedAmount (s : State) (a : Nat) (ty : ActType) (amount : Option Int) : Int :=
  match ty with
  | .call => s.owed a
  | .bet | .raise => match amount with | some x => x | none => 0
  | _ => 0

def afterAction (s : State) (a : Nat) (player : Int) (t : ActType) (m : Int) : State :=
  { s with log := s.log ++ [⟨player, t, m⟩],
           «stacks» := s.stacks.modify a (· - m), pot := s.pot.modify a (· + m),
           lastActions := s.lastActions.set a (some t) }

private theorem bind_eq_ok {ε α β : Type} (x : Except ε α) (f : α → Except ε β) (b : β) :
    (x >>= f) = .ok b ↔ ∃ a, x = .ok a ∧ f a = .ok b := by
  cases x <;> simp [bind, Except.bind]

/-- the amount `build_action` writes into the action -/
def builtAmount (s : State) (a : Nat) (t : ActType) (amount : Option Int) : Int :=
  match amount with
  | some x => x
  | none => if t = .call then s.owed a else 0

/-- when `build_action` succeeds -/
def BuildOK (s : State) (a : Nat) (t : ActType) (amount : Option Int) : Prop :=
  match t with
  | .check | .fold | .draw => amount = none ∨ amount = some 0
  | .call => (amount = none ∧ 0 < s.owed a) ∨ ∃ x, amount = some x ∧ 0 < x
  | .bet | .raise => ∃ x, amount = some x ∧ 0 < x

theorem buildAction_ok_iff {s : State} {a : Nat} (hwf : s.WF) (ha : s.action = some a) (player : Int) (t : ActType)
    (amount : Option Int) (e : LogEntry) :
    s.buildAction World.std player (some t) amount = .ok e ↔
      BuildOK s a t amount ∧ e = ⟨player, t, builtAmount s a t amount⟩ := by
  have h0 := owed_nonneg hwf ha
  simp only [State.buildAction, amountToCall_eq hwf ha]
  cases t <;> cases amount <;>
    simp [bind, Except.bind, pure, Except.pure, World.std, BuildOK, builtAmount]
  all_goals (try exact eq_comm)
  all_goals (split_ifs <;> simp [eq_comm] <;> omega)

/-- when `validate_action` succeeds (for the seat to act) -/
def ValidOK (s : State) (a : Nat) (t : ActType) (amt : Int) : Prop :=
  amt ≤ getI s.stacks a ∧
  match t with
  | .check => s.owed a = 0
  | .fold => s.owed a ≠ 0
  | .call => s.owed a ≠ 0 ∧ amt = s.owed a
  | .bet => s.owed a = 0 ∧ minBetV s a ≤ amt ∧ amt ≤ maxBetV s a
  | .raise => (s.owed a ≠ 0 ∨ s.bbOption a = true) ∧ minBetV s a ≤ amt ∧ amt ≤ maxBetV s a
  | .draw => False

theorem validateAction_ok_iff {s : State} {a : Nat} (hwf : s.WF) (ha : s.action = some a) (player : Int)
    (t : ActType) (amt : Int) :
    s.validateAction World.std ⟨player, t, amt⟩ = .ok () ↔ player = (a : Int) ∧ ValidOK s a t amt := by
  simp only [State.validateAction, ha, validActions_eq hwf ha, amountToCall_eq hwf ha, minBet_eq hwf ha,
    maxBet_eq hwf ha]
  by_cases hp : player = (a : Int)
  · by_cases h0 : s.owed a = 0 <;> cases hb : s.bbOption a <;> cases t <;>
    simp [bind, Except.bind, pure, Except.pure, World.std, ValidOK, hp, h0, hb]
    all_goals (split_ifs <;> simp <;> omega)
  · simp [hp]

theorem updateState_eq {s : State} {a : Nat} (hn : a < s.n) (t : ActType) (amt : Int)
    (hle : amt ≤ getI s.stacks a) (hz : (t = .check ∨ t = .fold ∨ t = .draw) → amt = 0) :
    State.updateStateWithAction World.std { s with log := s.log ++ [⟨(a : Int), t, amt⟩] } ⟨(a : Int), t, amt⟩
      = .ok (afterAction s a a t amt) := by
  have hn' : ¬ (s.n ≤ a) := by omega
  have hle' : ¬ (getI s.stacks a < amt) := by omega
  cases t <;>
    simp [State.updateStateWithAction, State.putMoneyInPot, bind, Except.bind, pure, Except.pure, World.std,
      afterAction, hn', hle']
  all_goals
    have h0 : amt = 0 := hz (by simp)
    subst h0
    exact ⟨(modify_eq_self _ _ _ (by simp)).symm, (modify_eq_self _ _ _ (by simp)).symm⟩

theorem builtAmount_zero {s : State} {a : Nat} {t : ActType} {amount : Option Int} (hB : BuildOK s a t amount)
    (ht : t = .check ∨ t = .fold ∨ t = .draw) : builtAmount s a t amount = 0 := by
  rcases ht with rfl | rfl | rfl <;> rcases hB with rfl | rfl <;> simp [builtAmount]

theorem buildAction_none (s : State) (player : Int) (amount : Option Int) (e : LogEntry) :
    s.buildAction World.std player none amount ≠ .ok e := by
  cases amount <;> simp [State.buildAction, bind, Except.bind, pure, Except.pure]

/-- `append_action` on the standard action sets, in closed form -/
theorem appendAction_ok_iff {s : State} (hwf : s.WF) (player : Int) (ty : Option ActType) (amount : Option Int)
    (s1 : State) :
    s.appendAction World.std player ty amount = .ok s1 ↔
      s.complete = false ∧ ∃ a t, s.action = some a ∧ player = (a : Int) ∧ ty = some t ∧
        BuildOK s a t amount ∧ ValidOK s a t (builtAmount s a t amount) ∧
        s1 = afterAction s a player t (builtAmount s a t amount) := by
  unfold State.appendAction
  by_cases hc : s.complete = true
  · simp [hc]
  · have hc' : s.complete = false := by simpa using hc
    rw [if_neg hc]
    simp only [bind_eq_ok]
    constructor
    · rintro ⟨e, hb, u, hv, hu⟩
      refine ⟨hc', ?_⟩
      cases hact : s.action with
      | none => simp [State.validateAction, hact] at hv
      | some a =>
        cases ty with
        | none => exact absurd hb (buildAction_none _ _ _ _)
        | some t =>
          obtain ⟨hB, rfl⟩ := (buildAction_ok_iff hwf hact player t amount e).1 hb
          obtain ⟨rfl, hV⟩ := (validateAction_ok_iff hwf hact _ t _).1 hv
          rw [updateState_eq (hwf.action_lt a hact) t _ hV.1 (builtAmount_zero hB)] at hu
          exact ⟨a, t, rfl, rfl, rfl, hB, hV, (Except.ok.inj hu).symm⟩
    · rintro ⟨_, a, t, hact, rfl, rfl, hB, hV, rfl⟩
      exact ⟨_, (buildAction_ok_iff hwf hact _ t amount _).2 ⟨hB, rfl⟩, (),
        (validateAction_ok_iff hwf hact _ t _).2 ⟨rfl, hV⟩,
        updateState_eq (hwf.action_lt a hact) t _ hV.1 (builtAmount_zero hB)⟩

theorem legal_core {s : State} {a : Nat} (hwf : s.WF) (ha : s.action = some a) (t : ActType)
    (amount : Option Int) :
    (BuildOK s a t amount ∧ ValidOK s a t (builtAmount s a t amount)) ↔
      (match (some t : Option ActType) with
        | some .check => s.owed a = 0 ∧ (amount = none ∨ amount = some 0)
        | some .fold => 0 < s.owed a ∧ (amount = none ∨ amount = some 0)
        | some .call => 0 < s.owed a ∧ (amount = none ∨ amount = some (s.owed a))
        | some .bet => s.owed a = 0 ∧ ∃ x, amount = some x ∧ s.SizeOK a s.implLr x
        | some .raise => (0 < s.owed a ∨ s.bbOption a = true) ∧ ∃ x, amount = some x ∧ s.SizeOK a s.implLr x
        | _ => False) := by
  have h0 := owed_nonneg hwf ha
  have hst := stack_nonneg hwf a
  have hos := owed_le_stack s a
  have hbb := hwf.bb_nonneg
  cases t <;> cases amount <;> cases hg : s.game <;> cases hb : s.bbOption a <;> by_cases hz : s.owed a = 0 <;>
    simp [BuildOK, ValidOK, builtAmount, State.SizeOK, minBetV, maxBetV, State.implLr, ha, hg, hz, hb] <;> omega

theorem accept_iff_thm (s : State) (hwf : s.WF) (player : Int) (ty : Option ActType) (amount : Option Int) :
    (∃ s1, s.appendAction World.std player ty amount = .ok s1) ↔ s.LegalWith s.implLr player ty amount := by
  simp only [appendAction_ok_iff hwf]
  unfold State.LegalWith
  constructor
  · rintro ⟨s1, hc, a, t, hact, rfl, rfl, hB, hV, -⟩
    exact ⟨hc, a, hact, rfl, (legal_core hwf hact t amount).1 ⟨hB, hV⟩⟩
  · rintro ⟨hc, a, hact, rfl, h⟩
    cases ty with
    | none => exact h.elim
    | some t =>
      obtain ⟨hB, hV⟩ := (legal_core hwf hact t amount).2 h
      exact ⟨_, hc, a, t, hact, rfl, rfl, hB, hV, rfl⟩

theorem builtAmount_eq_moved {s : State} {a : Nat} {t : ActType} {amount : Option Int}
    (hB : BuildOK s a t amount) (hV : ValidOK s a t (builtAmount s a t amount)) :
    builtAmount s a t amount = movedAmount s a t amount := by
  cases t <;> cases amount <;> simp_all [BuildOK, ValidOK, builtAmount, movedAmount]

theorem accept_effect_thm (s s1 : State) (hwf : s.WF) (player : Int) (ty : Option ActType) (amount : Option Int)
    (h : s.appendAction World.std player ty amount = .ok s1) :
    ∃ a t, s.action = some a ∧ ty = some t ∧
      s1.stacks = s.stacks.modify a (· - movedAmount s a t amount) ∧
      s1.pot = s.pot.modify a (· + movedAmount s a t amount) ∧
      s1.lastActions = s.lastActions.set a (some t) ∧
      s1.log = s.log ++ [⟨player, t, movedAmount s a t amount⟩] ∧
      s1.street = s.street ∧ s1.action = s.action ∧ s1.board = s.board ∧ s1.deck = s.deck ∧
      s1.complete = false ∧ 0 ≤ movedAmount s a t amount ∧ movedAmount s a t amount ≤ getI s.stacks a := by
  obtain ⟨hc, a, t, hact, rfl, rfl, hB, hV, rfl⟩ := (appendAction_ok_iff hwf player ty amount s1).1 h
  have hm := builtAmount_eq_moved hB hV
  rw [hm] at hV ⊢
  refine ⟨a, t, hact, rfl, rfl, rfl, rfl, rfl, rfl, rfl, rfl, rfl, hc, ?_, hV.1⟩
  have h0 := owed_nonneg hwf hact
  cases t <;> cases amount <;> simp_all [BuildOK, movedAmount] <;> omega

end CardVerif.Betting

#print axioms CardVerif.Betting.accept_iff_thm
#print axioms CardVerif.Betting.accept_effect_thm
