import Mathlib.Tactic.Ring
import Mathlib.Tactic.Linarith
import Mathlib.Tactic.FieldSimp
import Mathlib.Tactic.Push
import CardModel.Model.Basic
/-!
# Generic list lemmas used by the side-pot proofs (C02)

Sums (`sumI`, `sumQ`), `getI`, the insertion sort `sortI`, `invCumsum`, `maxI?`, and
`List.modify` folds.
-/
namespace CardVerif

/-! ## sums -/

theorem sumQ_append (l₁ l₂ : List Rat) : sumQ (l₁ ++ l₂) = sumQ l₁ + sumQ l₂ := by
  induction l₁ with
  | nil => simp
  | cons x l ih => simp only [List.cons_append, sumQ_cons, ih]; ring

theorem sumQ_map_zero {α : Type} (l : List α) (f : α → Rat) (h : ∀ a ∈ l, f a = 0) :
    sumQ (l.map f) = 0 := by
  induction l with
  | nil => simp
  | cons x l ih =>
    simp only [List.map_cons, sumQ_cons]
    rw [h x (by simp), ih (fun a ha => h a (by simp [ha]))]; simp

theorem sumQ_map_le {α : Type} (l : List α) (f g : α → Rat) (h : ∀ a ∈ l, f a ≤ g a) :
    sumQ (l.map f) ≤ sumQ (l.map g) := by
  induction l with
  | nil => simp
  | cons x l ih =>
    simp only [List.map_cons, sumQ_cons]
    have h1 := h x (by simp)
    have h2 := ih (fun a ha => h a (by simp [ha]))
    linarith

theorem sumQ_map_nonneg {α : Type} (l : List α) (f : α → Rat) (h : ∀ a ∈ l, 0 ≤ f a) :
    0 ≤ sumQ (l.map f) := by
  have := sumQ_map_le l (fun _ => 0) f h
  rwa [sumQ_map_zero l (fun _ => 0) (fun _ _ => rfl)] at this

theorem sumQ_map_div {α : Type} (l : List α) (f : α → Rat) (k : Rat) :
    sumQ (l.map fun a => f a / k) = sumQ (l.map f) / k := by
  induction l with
  | nil => simp
  | cons b l ih => simp only [List.map_cons, sumQ_cons, ih]; ring

theorem sumQ_map_const {α : Type} (l : List α) (x : Rat) :
    sumQ (l.map fun _ => x) = (l.length : Rat) * x := by
  induction l with
  | nil => simp
  | cons b l ih => simp only [List.map_cons, sumQ_cons, ih, List.length_cons]; push_cast; ring

theorem sumQ_div (l : List Int) (inc : Int) (k : Rat) :
    sumQ (l.map (fun b => ((min b inc : Int) : Rat) / k))
      = ((sumI (l.map (fun b => min b inc)) : Int) : Rat) / k := by
  induction l with
  | nil => simp
  | cons b l ih => simp only [List.map_cons, sumQ_cons, sumI_cons, ih, Int.cast_add]; ring

theorem sum_split (l : List Int) (inc : Int) (hl : ∀ b ∈ l, 0 ≤ b) :
    sumI (l.map (fun b => max 0 (b - inc))) + sumI (l.map (fun b => min b inc)) = sumI l := by
  induction l with
  | nil => simp
  | cons b l ih =>
    have hb : 0 ≤ b := hl b (by simp)
    have := ih (fun x hx => hl x (by simp [hx]))
    simp only [List.map_cons, sumI_cons]; omega

theorem sumI_nonneg (l : List Int) (hl : ∀ b ∈ l, 0 ≤ b) : 0 ≤ sumI l := by
  induction l with
  | nil => simp
  | cons b l ih =>
    have hb : 0 ≤ b := hl b (by simp)
    have := ih (fun x hx => hl x (by simp [hx]))
    simp only [sumI_cons]; omega

theorem sumI_eq_zero_iff (l : List Int) (hl : ∀ b ∈ l, 0 ≤ b) : sumI l = 0 ↔ ∀ b ∈ l, b = 0 := by
  induction l with
  | nil => simp
  | cons b l ih =>
    have hb : 0 ≤ b := hl b (by simp)
    have hl' : ∀ x ∈ l, 0 ≤ x := fun x hx => hl x (by simp [hx])
    have := ih hl'
    have hs := sumI_nonneg l hl'
    simp only [sumI_cons, List.mem_cons, forall_eq_or_imp]
    constructor
    · intro h; exact ⟨by omega, this.1 (by omega)⟩
    · rintro ⟨h1, h2⟩; rw [this.2 h2]; omega

/-! ## `List.modify` folds -/

theorem sumQ_modify (l : List Rat) (i : Nat) (m : Rat) (h : i < l.length) :
    sumQ (l.modify i (· + m)) = sumQ l + m := by
  induction l generalizing i with
  | nil => simp at h
  | cons x l ih => cases i with
    | zero => simp [List.modify]; ring
    | succ i =>
      have := ih i (by simpa using h)
      simp only [List.modify_succ_cons, sumQ_cons, this]; ring

theorem length_foldl_modify (chop : List Nat) (l : List Rat) (m : Rat) :
    (chop.foldl (fun pay w => pay.modify w (· + m)) l).length = l.length := by
  induction chop generalizing l with
  | nil => simp
  | cons w ws ih => simp only [List.foldl_cons]; rw [ih, List.length_modify]

theorem sumQ_foldl_modify (chop : List Nat) (l : List Rat) (m : Rat) (h : ∀ w ∈ chop, w < l.length) :
    sumQ (chop.foldl (fun pay w => pay.modify w (· + m)) l) = sumQ l + chop.length * m := by
  induction chop generalizing l with
  | nil => simp
  | cons w ws ih =>
    simp only [List.foldl_cons, List.length_cons]; rw [ih]
    · rw [sumQ_modify _ _ _ (h w (by simp))]; push_cast; ring
    · intro v hv; simpa using h v (by simp [hv])

theorem getElem?_foldl_modify (chop : List Nat) (hnd : chop.Nodup) (l : List Rat) (m : Rat) (i : Nat) :
    (chop.foldl (fun pay w => pay.modify w (· + m)) l)[i]?
      = (l[i]?).map (fun x => if i ∈ chop then x + m else x) := by
  induction chop generalizing l with
  | nil => simp
  | cons w ws ih =>
    have hw : w ∉ ws := (List.nodup_cons.1 hnd).1
    simp only [List.foldl_cons]
    rw [ih (List.nodup_cons.1 hnd).2, List.getElem?_modify]
    cases hl : l[i]? with
    | none => simp
    | some x =>
      by_cases hwi : w = i
      · subst hwi; simp [hw]
      · have : ¬ i = w := fun h => hwi h.symm
        simp [hwi, this]

theorem nonneg_foldl_modify (chop : List Nat) (l : List Rat) (m : Rat) (hm : 0 ≤ m)
    (hl : ∀ x ∈ l, 0 ≤ x) : ∀ x ∈ chop.foldl (fun pay w => pay.modify w (· + m)) l, 0 ≤ x := by
  induction chop generalizing l with
  | nil => simpa using hl
  | cons w ws ih =>
    simp only [List.foldl_cons]
    apply ih
    intro x hx
    obtain ⟨j, hj, rfl⟩ := List.getElem_of_mem hx
    have := List.getElem?_modify (· + m) w l j
    rw [List.getElem?_eq_getElem hj] at this
    have hj' : j < l.length := by simpa using hj
    rw [List.getElem?_eq_getElem hj'] at this
    have h0 := hl l[j] (List.getElem_mem hj')
    simp only [Option.map_eq_map, Option.map_some, Option.some.injEq] at this
    rw [this]; split <;> linarith

/-! ## `getI` -/

theorem getI_of_lt (l : List Int) (i : Nat) (h : i < l.length) : getI l i = l[i] := by
  simp [getI, List.getElem?_eq_getElem h]

theorem getI_of_ge (l : List Int) (i : Nat) (h : l.length ≤ i) : getI l i = 0 := by
  simp [getI, List.getElem?_eq_none h]

theorem getI_mem (l : List Int) (i : Nat) (h : i < l.length) : getI l i ∈ l := by
  rw [getI_of_lt l i h]; exact List.getElem_mem h

theorem getI_map (l : List Int) (f : Int → Int) (hf : f 0 = 0) (i : Nat) :
    getI (l.map f) i = f (getI l i) := by
  unfold getI
  rw [List.getElem?_map]
  cases l[i]? <;> simp [hf]

theorem map_getI_range (l : List Int) : (List.range l.length).map (getI l) = l := by
  apply List.ext_getElem?
  intro i
  rw [List.getElem?_map]
  by_cases h : i < l.length
  · rw [List.getElem?_range h, List.getElem?_eq_getElem h]; simp [getI_of_lt l i h]
  · have h' : l.length ≤ i := Nat.le_of_not_lt h
    rw [List.getElem?_eq_none h', List.getElem?_eq_none (by simpa using h')]; rfl

theorem getI_nonneg (l : List Int) (hl : ∀ b ∈ l, 0 ≤ b) (i : Nat) : 0 ≤ getI l i := by
  by_cases h : i < l.length
  · exact hl _ (getI_mem l i h)
  · rw [getI_of_ge l i (Nat.le_of_not_lt h)]

/-! ## insertion sort -/

theorem mem_insertBy {α : Type} (le : α → α → Bool) (x a : α) (l : List α) :
    a ∈ insertBy le x l ↔ a = x ∨ a ∈ l := by
  induction l with
  | nil => simp [insertBy]
  | cons y ys ih =>
    unfold insertBy
    split
    · simp
    · simp only [List.mem_cons, ih]
      constructor
      · rintro (h | h | h) <;> simp [h]
      · rintro (h | h | h) <;> simp [h]

theorem mem_sortBy {α : Type} (le : α → α → Bool) (a : α) (l : List α) :
    a ∈ sortBy le l ↔ a ∈ l := by
  induction l with
  | nil => simp [sortBy]
  | cons y ys ih =>
    have : sortBy le (y :: ys) = insertBy le y (sortBy le ys) := rfl
    rw [this, mem_insertBy, ih]; simp

theorem mem_sortI (a : Int) (l : List Int) : a ∈ sortI l ↔ a ∈ l := mem_sortBy _ a l

theorem pairwise_insertI (x : Int) (l : List Int) (h : l.Pairwise (· ≤ ·)) :
    (insertBy (fun a b => decide (a ≤ b)) x l).Pairwise (· ≤ ·) := by
  induction l with
  | nil => simp [insertBy]
  | cons y ys ih =>
    unfold insertBy
    rw [List.pairwise_cons] at h
    split
    · rename_i hxy
      have hxy : x ≤ y := by simpa using hxy
      rw [List.pairwise_cons]
      refine ⟨?_, List.pairwise_cons.2 h⟩
      intro a ha
      rcases List.mem_cons.1 ha with rfl | ha
      · exact hxy
      · exact Int.le_trans hxy (h.1 a ha)
    · rename_i hxy
      have hxy : y ≤ x := by
        have : ¬ x ≤ y := by simpa using hxy
        omega
      rw [List.pairwise_cons]
      refine ⟨?_, ih h.2⟩
      intro a ha
      rcases (mem_insertBy _ _ _ _).1 ha with rfl | ha
      · exact hxy
      · exact h.1 a ha

theorem pairwise_sortI (l : List Int) : (sortI l).Pairwise (· ≤ ·) := by
  induction l with
  | nil => simp [sortI, sortBy]
  | cons y ys ih => exact pairwise_insertI y _ ih

/-! ## `invCumsum` -/

theorem invCumsum_eq_go (l : List Int) : invCumsum l = invCumsum.go 0 l := by
  cases l with
  | nil => rfl
  | cons x xs => simp [invCumsum, invCumsum.go]

theorem invCumsum_go_nonneg (prev : Int) (ys : List Int) (h : (prev :: ys).Pairwise (· ≤ ·)) :
    ∀ i ∈ invCumsum.go prev ys, 0 ≤ i := by
  induction ys generalizing prev with
  | nil => simp [invCumsum.go]
  | cons y ys ih =>
    rw [List.pairwise_cons] at h
    intro i hi
    simp only [invCumsum.go, List.mem_cons] at hi
    rcases hi with rfl | hi
    · have := h.1 y (by simp); omega
    · exact ih y h.2 i hi

theorem invCumsum_sortI_nonneg (l : List Int) (hl : ∀ b ∈ l, 0 ≤ b) :
    ∀ i ∈ invCumsum (sortI l), 0 ≤ i := by
  rw [invCumsum_eq_go]
  apply invCumsum_go_nonneg
  rw [List.pairwise_cons]
  exact ⟨fun a ha => hl a ((mem_sortI a l).1 ha), pairwise_sortI l⟩

/-! ## `maxI?` -/

theorem foldl_max_ge (xs : List Int) (x : Int) :
    x ≤ xs.foldl max x ∧ ∀ b ∈ xs, b ≤ xs.foldl max x := by
  induction xs generalizing x with
  | nil => simp
  | cons y ys ih =>
    simp only [List.foldl_cons, List.mem_cons, forall_eq_or_imp]
    have := ih (max x y)
    refine ⟨by omega, by omega, this.2⟩

theorem foldl_max_mem (xs : List Int) (x : Int) : xs.foldl max x = x ∨ xs.foldl max x ∈ xs := by
  induction xs generalizing x with
  | nil => simp
  | cons y ys ih =>
    simp only [List.foldl_cons, List.mem_cons]
    rcases ih (max x y) with h | h
    · rw [h]; omega
    · exact Or.inr (Or.inr h)

theorem maxI?_spec (l : List Int) (m : Int) (h : maxI? l = some m) : m ∈ l ∧ ∀ b ∈ l, b ≤ m := by
  cases l with
  | nil => simp [maxI?] at h
  | cons x xs =>
    simp only [maxI?, Option.some.injEq] at h
    subst h
    have h1 := foldl_max_ge xs x
    have h2 := foldl_max_mem xs x
    refine ⟨?_, ?_⟩
    · rcases h2 with h | h
      · rw [h]; simp
      · exact List.mem_cons_of_mem _ h
    · intro b hb
      rcases List.mem_cons.1 hb with rfl | hb
      · exact h1.1
      · exact h1.2 b hb

end CardVerif
