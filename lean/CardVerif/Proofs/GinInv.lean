import CardModel.Spec.GinRules
import Mathlib.Data.List.Perm.Basic
import Mathlib.Data.List.Nodup
import Mathlib.Tactic.Linarith
/-!
# Gin turn machine: inversion lemmas and the invariant of reachable states (C09; reused by C10, C11, C17)

* §1 generic `Except` lemmas;
* §2 `endGame`: explicit record, field frames;
* §3 `advanceTurn`: closed forms;
* §4 `drawCard`: `drawCard_true_ok`, `drawCard_false_ok` (iff, explicit resulting record);
* §5 `firstTurnPass_ok`;
* §6 `checkWall`: the three branches, frames;
* §7 `discardCard_ok` (iff) through `discardCore` / `discardFinish`;
* §8 `decideKnock_ok` (iff);
* §9 `Live`, `GInv`, `reach_inv`.
-/
namespace CardVerif.Gin
open CardVerif

/-! ## §1 generic lemmas -/

theorem bind_ok {ε α β : Type} {x : Except ε α} {f : α → Except ε β} {b : β} :
    (x >>= f) = .ok b ↔ ∃ a, x = .ok a ∧ f a = .ok b := by
  cases x with
  | error e => simp [bind, Except.bind]
  | ok a => simp [bind, Except.bind]

theorem ite_error_ok {ε α : Type} {c : Prop} [Decidable c] {e : ε} {x : Except ε α} {b : α} :
    (if c then .error e else x) = .ok b ↔ ¬ c ∧ x = .ok b := by
  split <;> simp [*]

theorem ite_ok_error {ε α : Type} {c : Prop} [Decidable c] {e : ε} {x : Except ε α} {b : α} :
    (if c then x else .error e) = .ok b ↔ c ∧ x = .ok b := by
  split <;> simp [*]

/-! ## §2 `endGame` -/

/-- points before normalisation -/
def rawPoints (g : GState) (how : EndGame) (p1dw p2dw : Int) : Int × Int :=
  match how with
  | .wall => (0, 0)
  | .knock =>
    if g.turn.p1 && p2dw ≤ p1dw then (p1dw + g.params.underknockBonus, p2dw)
    else if !g.turn.p1 && p1dw ≤ p2dw then (p1dw, p2dw + g.params.underknockBonus)
    else (p1dw, p2dw)
  | .gin => if g.turn.p1 then (p1dw, p2dw + g.params.ginBonus) else (p1dw + g.params.ginBonus, p2dw)

/-- `endGame` changes only `complete` and the points -/
theorem endGame_eq (g : GState) (how : EndGame) (a b : Int) :
    g.endGame how a b = { g with
      complete := true
      p1Points := some (normPoints (rawPoints g how a b).1 (rawPoints g how a b).2).1
      p2Points := some (normPoints (rawPoints g how a b).1 (rawPoints g how a b).2).2 } := by
  cases how <;> rfl

section
variable (g : GState) (how : EndGame) (a b : Int)
@[simp] theorem endGame_params : (g.endGame how a b).params = g.params := rfl
@[simp] theorem endGame_deck : (g.endGame how a b).deck = g.deck := rfl
@[simp] theorem endGame_discard : (g.endGame how a b).discard = g.discard := rfl
@[simp] theorem endGame_p1 : (g.endGame how a b).p1 = g.p1 := rfl
@[simp] theorem endGame_p2 : (g.endGame how a b).p2 = g.p2 := rfl
@[simp] theorem endGame_turn : (g.endGame how a b).turn = g.turn := rfl
@[simp] theorem endGame_firstTurn : (g.endGame how a b).firstTurn = g.firstTurn := rfl
@[simp] theorem endGame_lastDraw : (g.endGame how a b).lastDraw = g.lastDraw := rfl
@[simp] theorem endGame_lastFromDiscard : (g.endGame how a b).lastFromDiscard = g.lastFromDiscard := rfl
@[simp] theorem endGame_hud : (g.endGame how a b).hud = g.hud := rfl
@[simp] theorem endGame_turns : (g.endGame how a b).turns = g.turns := rfl
@[simp] theorem endGame_shuffles : (g.endGame how a b).shuffles = g.shuffles := rfl
@[simp] theorem endGame_complete : (g.endGame how a b).complete = true := rfl
@[simp] theorem endGame_allCards : (g.endGame how a b).allCards = g.allCards := rfl
@[simp] theorem endGame_handOf (p : Bool) : (g.endGame how a b).handOf p = g.handOf p := rfl
theorem endGame_p1Points :
    (g.endGame how a b).p1Points = some (normPoints (rawPoints g how a b).1 (rawPoints g how a b).2).1 := by
  rw [endGame_eq]
theorem endGame_p2Points :
    (g.endGame how a b).p2Points = some (normPoints (rawPoints g how a b).1 (rawPoints g how a b).2).2 := by
  rw [endGame_eq]
end

/-! ## §3 `advanceTurn`: closed forms -/

/-- the forced stock draw of the player who did not pass last -/
def oppDrawsFromDeck (p1 : Bool) : Turn := if p1 then .p2DrawsFromDeck else .p1DrawsFromDeck

/-- after any accepted draw the drawer has to discard (`d = false` is not accepted on first-draw turns) -/
theorem advanceTurn_draw {v : Variant} {t ft : Turn} {d : Bool} {dw : Int}
    (ht : (t.isDraw || t.isDrawFromDeck || (t.isFirstDraw && d)) = true) :
    advanceTurn v t d ft dw = .ok (ownDiscards t.owner) := by
  cases t <;> cases d <;> simp_all [advanceTurn, Turn.isDraw, Turn.isDrawFromDeck, Turn.isFirstDraw, ownDiscards,
    Turn.owner]

/-- a pass: the other player's first draw, or – after the second pass – the forced stock draw -/
theorem advanceTurn_pass {v : Variant} {t ft : Turn} {dw : Int} (ht : t.isFirstDraw = true) :
    advanceTurn v t false ft dw =
      .ok (if ft = oppDrawsFirst t.owner then oppDrawsFromDeck t.owner else oppDrawsFirst t.owner) := by
  cases t <;> simp_all [advanceTurn, Turn.isFirstDraw, oppDrawsFirst, oppDrawsFromDeck, Turn.owner] <;>
    split <;> rfl

/-- after a discard: knock offer (rummy, deadwood ≤ 10) or the opponent draws -/
theorem advanceTurn_discard {v : Variant} {t ft : Turn} {d : Bool} {dw : Int} (ht : t.isDiscard = true) :
    advanceTurn v t d ft dw =
      .ok (if v = .rummy ∧ dw ≤ 10 then ownMayKnock t.owner else oppDraws t.owner) := by
  cases t <;> cases v <;> simp_all [advanceTurn, Turn.isDiscard, ownMayKnock, oppDraws, Turn.owner] <;>
    split <;> rfl

/-- after a declined knock (rummy only; gin ricky has no such turn) -/
theorem advanceTurn_knock {v : Variant} {t ft : Turn} {d : Bool} {dw : Int} (ht : t.isKnock = true) :
    advanceTurn v t d ft dw = if v = .rummy then .ok (oppDraws t.owner) else .error .invalidTurn := by
  cases t <;> cases v <;> simp_all [advanceTurn, Turn.isKnock, oppDraws, Turn.owner]

/-! ## §4 `drawCard` -/

/-- the card map once the stock is exhausted: both hands are public -/
def revealHud (p1 p2 : List Card) : List (Card × Hud) :=
  (p2.map fun x => (x, Hud.p2)).foldl (fun h e => hudSet h e.1 e.2)
    ((p1.map fun x => (x, Hud.p1)).foldl (fun h e => hudSet h e.1 e.2) [])

/-- accepted draw from the discard pile -/
theorem drawCard_true_ok {g g' : GState} : g.drawCard true = .ok g' ↔
    ∃ c rest, (g.turn.isDraw || g.turn.isFirstDraw || g.turn.isDrawFromDeck) = true ∧
      (g.turn = .p1Draws → g.p1.length = g.params.cardsDealt) ∧
      (g.turn = .p2Draws → g.p2.length = g.params.cardsDealt) ∧
      g.discard = rest ++ [c] ∧
      g' = { g with
        p1 := if g.turn.owner then g.p1 ++ [c] else g.p1
        p2 := if g.turn.owner then g.p2 else g.p2 ++ [c]
        discard := rest
        hud := hudSet g.hud c (if g.turn.p1 then .p1 else .p2)
        turn := ownDiscards g.turn.owner
        lastDraw := some c
        lastFromDiscard := some true } := by
  obtain ⟨params, deck, discard, p1, p2, turn, ft, ld, lfd, hud, complete, turns, shuffles, pp1, pp2⟩ := g
  rcases List.eq_nil_or_concat discard with rfl | ⟨rest, c, rfl⟩
  · simp [GState.drawCard, ite_error_ok]
  · cases turn <;>
      simp [GState.drawCard, Turn.isDraw, Turn.isFirstDraw, Turn.isDrawFromDeck, Turn.drawsP1, Turn.owner,
        ownDiscards, advanceTurn, Turn.p1, bind, Except.bind, pure, Except.pure, ite_ok_error,
        @eq_comm _ _ g']

/-- accepted draw from the stock -/
theorem drawCard_false_ok {g g' : GState} : g.drawCard false = .ok g' ↔
    ∃ c rest, (g.turn.isDraw || g.turn.isDrawFromDeck) = true ∧
      (g.turn = .p1Draws → g.p1.length = g.params.cardsDealt) ∧
      (g.turn = .p2Draws → g.p2.length = g.params.cardsDealt) ∧
      g.deck = c :: rest ∧
      g' = { g with
        p1 := if g.turn.owner then g.p1 ++ [c] else g.p1
        p2 := if g.turn.owner then g.p2 else g.p2 ++ [c]
        deck := rest
        hud := if rest.isEmpty then
            revealHud (if g.turn.owner then g.p1 ++ [c] else g.p1) (if g.turn.owner then g.p2 else g.p2 ++ [c])
          else g.hud
        turn := ownDiscards g.turn.owner
        lastDraw := some c
        lastFromDiscard := some false } := by
  obtain ⟨params, deck, discard, p1, p2, turn, ft, ld, lfd, hud, complete, turns, shuffles, pp1, pp2⟩ := g
  rcases deck with _ | ⟨c, rest⟩
  · simp [GState.drawCard, ite_error_ok]
    cases turn <;> simp [Turn.drawsP1, bind, Except.bind]
  · rcases rest with _ | ⟨c2, rest⟩ <;> cases turn <;>
      simp [GState.drawCard, Turn.isDraw, Turn.isFirstDraw, Turn.isDrawFromDeck, Turn.drawsP1, Turn.owner,
        ownDiscards, advanceTurn, bind, Except.bind, pure, Except.pure, ite_ok_error, revealHud,
        @eq_comm _ _ g']

/-! ## §5 `firstTurnPass` -/

/-- accepted pass: either the other player gets the first draw, or (second pass) the first player takes the top
stock card at once and has to discard -/
theorem firstTurnPass_ok {g g' : GState} : g.firstTurnPass = .ok g' ↔
    g.turn.isFirstDraw = true ∧
    ((g.firstTurn ≠ oppDrawsFirst g.turn.owner ∧
        g' = { g with turns := g.turns + 1, turn := oppDrawsFirst g.turn.owner }) ∨
     (g.firstTurn = oppDrawsFirst g.turn.owner ∧ ∃ c rest, g.deck = c :: rest ∧
        g' = { g with
          turns := g.turns + 1
          p1 := if g.turn.owner then g.p1 else g.p1 ++ [c]
          p2 := if g.turn.owner then g.p2 ++ [c] else g.p2
          deck := rest
          hud := if rest.isEmpty then
              revealHud (if g.turn.owner then g.p1 else g.p1 ++ [c]) (if g.turn.owner then g.p2 ++ [c] else g.p2)
            else g.hud
          turn := ownDiscards (!g.turn.owner)
          lastDraw := some c
          lastFromDiscard := some false })) := by
  by_cases ht : g.turn.isFirstDraw = true
  · unfold GState.firstTurnPass
    rw [advanceTurn_pass ht]
    by_cases hft : g.firstTurn = oppDrawsFirst g.turn.owner
    · obtain ⟨params, deck, discard, p1, p2, turn, ft, ld, lfd, hud, complete, turns, shuffles, pp1, pp2⟩ := g
      cases turn <;> simp [Turn.isFirstDraw] at ht <;>
        simp_all [Turn.owner, oppDrawsFirst, oppDrawsFromDeck, bind, Except.bind, Turn.isDrawFromDeck,
          Turn.isFirstDraw, drawCard_false_ok, Turn.isDraw, ownDiscards]
    · obtain ⟨params, deck, discard, p1, p2, turn, ft, ld, lfd, hud, complete, turns, shuffles, pp1, pp2⟩ := g
      cases turn <;> simp [Turn.isFirstDraw] at ht <;>
        simp_all [Turn.owner, oppDrawsFirst, bind, Except.bind, Turn.isDrawFromDeck,
          Turn.isFirstDraw, pure, Except.pure, @eq_comm _ _ g']
  · simp [GState.firstTurnPass, ht]

/-! ## §6 `checkWall` -/

/-- "this reshuffle would exceed the allowed number": `hit_max_shuffles` after the increment -/
def GState.wallEnds (g : GState) : Bool :=
  match g.params.maxShuffles with | none => false | some m => decide (m ≤ g.shuffles + 1)

/-- the reshuffled state -/
def GState.reshuffled (shuffle : List Card → List Card) (g : GState) : GState :=
  { g with shuffles := g.shuffles + 1, deck := shuffle (g.discard ++ g.deck), discard := [],
           hud := g.hud.filter fun e => e.2 != .top && e.2 != .disc }

theorem checkWall_eq (shuffle : List Card → List Card) (g : GState) :
    g.checkWall shuffle =
      if g.deck.length = g.params.endCardsInDeck then
        if g.wallEnds then (true, ({ g with shuffles := g.shuffles + 1 }).endGame .wall 0 0)
        else (false, g.reshuffled shuffle)
      else (false, g) := by
  unfold GState.checkWall GState.wallEnds GState.reshuffled GState.hitMaxShuffles
  by_cases h : g.deck.length = g.params.endCardsInDeck
  · cases hm : g.params.maxShuffles <;> simp [h, hm]
  · simp [h]

theorem checkWall_of_ne {shuffle : List Card → List Card} {g : GState}
    (h : g.deck.length ≠ g.params.endCardsInDeck) : g.checkWall shuffle = (false, g) := by
  rw [checkWall_eq, if_neg h]

theorem checkWall_end {shuffle : List Card → List Card} {g : GState}
    (h : g.deck.length = g.params.endCardsInDeck) (hm : g.wallEnds = true) :
    g.checkWall shuffle = (true, ({ g with shuffles := g.shuffles + 1 }).endGame .wall 0 0) := by
  rw [checkWall_eq, if_pos h, if_pos hm]

theorem checkWall_reshuffle {shuffle : List Card → List Card} {g : GState}
    (h : g.deck.length = g.params.endCardsInDeck) (hm : g.wallEnds = false) :
    g.checkWall shuffle = (false, g.reshuffled shuffle) := by
  rw [checkWall_eq, if_pos h, hm]; rfl

theorem wallEnds_rummy {g : GState} {mt : Option Nat} (h : g.params = Params.rummy mt) : g.wallEnds = true := by
  simp [GState.wallEnds, h, Params.rummy]

theorem wallEnds_ricky {g : GState} {mt : Option Nat} (h : g.params = Params.ricky mt) : g.wallEnds = false := by
  simp [GState.wallEnds, h, Params.ricky]

/-- the three outcomes of `checkWall` -/
theorem checkWall_cases (shuffle : List Card → List Card) (g : GState) :
    (g.deck.length ≠ g.params.endCardsInDeck ∧ g.checkWall shuffle = (false, g)) ∨
    (g.deck.length = g.params.endCardsInDeck ∧ g.wallEnds = true ∧
      g.checkWall shuffle = (true, ({ g with shuffles := g.shuffles + 1 }).endGame .wall 0 0)) ∨
    (g.deck.length = g.params.endCardsInDeck ∧ g.wallEnds = false ∧
      g.checkWall shuffle = (false, g.reshuffled shuffle)) := by
  by_cases h : g.deck.length = g.params.endCardsInDeck
  · cases hm : g.wallEnds
    · exact .inr (.inr ⟨h, rfl, checkWall_reshuffle h hm⟩)
    · exact .inr (.inl ⟨h, rfl, checkWall_end h hm⟩)
  · exact .inl ⟨h, checkWall_of_ne h⟩

section
variable (shuffle : List Card → List Card) (g : GState)
@[simp] theorem checkWall_params : (g.checkWall shuffle).2.params = g.params := by
  rcases checkWall_cases shuffle g with ⟨_, h⟩ | ⟨_, _, h⟩ | ⟨_, _, h⟩ <;> rw [h] <;> rfl
@[simp] theorem checkWall_p1 : (g.checkWall shuffle).2.p1 = g.p1 := by
  rcases checkWall_cases shuffle g with ⟨_, h⟩ | ⟨_, _, h⟩ | ⟨_, _, h⟩ <;> rw [h] <;> rfl
@[simp] theorem checkWall_p2 : (g.checkWall shuffle).2.p2 = g.p2 := by
  rcases checkWall_cases shuffle g with ⟨_, h⟩ | ⟨_, _, h⟩ | ⟨_, _, h⟩ <;> rw [h] <;> rfl
@[simp] theorem checkWall_turn : (g.checkWall shuffle).2.turn = g.turn := by
  rcases checkWall_cases shuffle g with ⟨_, h⟩ | ⟨_, _, h⟩ | ⟨_, _, h⟩ <;> rw [h] <;> rfl
@[simp] theorem checkWall_firstTurn : (g.checkWall shuffle).2.firstTurn = g.firstTurn := by
  rcases checkWall_cases shuffle g with ⟨_, h⟩ | ⟨_, _, h⟩ | ⟨_, _, h⟩ <;> rw [h] <;> rfl
@[simp] theorem checkWall_lastDraw : (g.checkWall shuffle).2.lastDraw = g.lastDraw := by
  rcases checkWall_cases shuffle g with ⟨_, h⟩ | ⟨_, _, h⟩ | ⟨_, _, h⟩ <;> rw [h] <;> rfl
@[simp] theorem checkWall_lastFromDiscard : (g.checkWall shuffle).2.lastFromDiscard = g.lastFromDiscard := by
  rcases checkWall_cases shuffle g with ⟨_, h⟩ | ⟨_, _, h⟩ | ⟨_, _, h⟩ <;> rw [h] <;> rfl
@[simp] theorem checkWall_turns : (g.checkWall shuffle).2.turns = g.turns := by
  rcases checkWall_cases shuffle g with ⟨_, h⟩ | ⟨_, _, h⟩ | ⟨_, _, h⟩ <;> rw [h] <;> rfl
@[simp] theorem checkWall_handOf (p : Bool) : (g.checkWall shuffle).2.handOf p = g.handOf p := by
  simp [GState.handOf]

/-- the game is ended by `checkWall` exactly when the stock is down to the end size and no reshuffle is left -/
theorem checkWall_fst :
    (g.checkWall shuffle).1 = (decide (g.deck.length = g.params.endCardsInDeck) && g.wallEnds) := by
  rcases checkWall_cases shuffle g with ⟨h', h⟩ | ⟨h', hm, h⟩ | ⟨h', hm, h⟩ <;> rw [h] <;> simp [*]

theorem checkWall_complete : (g.checkWall shuffle).2.complete = (g.complete || (g.checkWall shuffle).1) := by
  rcases checkWall_cases shuffle g with ⟨_, h⟩ | ⟨_, _, h⟩ | ⟨_, _, h⟩ <;> rw [h] <;> simp [GState.reshuffled]

/-- pile and stock after `checkWall`: untouched, or the pile went into the stock -/
theorem checkWall_piles (hs : ∀ l, (shuffle l).Perm l) :
    ((g.checkWall shuffle).2.discard = g.discard ∧ (g.checkWall shuffle).2.deck = g.deck) ∨
    ((g.checkWall shuffle).1 = false ∧ g.deck.length = g.params.endCardsInDeck ∧ g.wallEnds = false ∧
      (g.checkWall shuffle).2.discard = [] ∧ (g.checkWall shuffle).2.deck.Perm (g.discard ++ g.deck)) := by
  rcases checkWall_cases shuffle g with ⟨_, h⟩ | ⟨_, _, h⟩ | ⟨h', hm, h⟩ <;> rw [h]
  · exact .inl ⟨rfl, rfl⟩
  · exact .inl ⟨rfl, rfl⟩
  · exact .inr ⟨rfl, h', hm, rfl, hs _⟩

theorem checkWall_allCards (hs : ∀ l, (shuffle l).Perm l) : (g.checkWall shuffle).2.allCards.Perm g.allCards := by
  have hp1 := checkWall_p1 shuffle g
  have hp2 := checkWall_p2 shuffle g
  unfold GState.allCards
  rw [hp1, hp2]
  refine List.Perm.append_right _ (List.Perm.append_right _ ?_)
  rcases checkWall_piles shuffle g hs with ⟨h1, h2⟩ | ⟨_, _, _, h1, h2⟩
  · rw [h1, h2]
  · rw [h1, List.append_nil]
    exact h2.trans List.perm_append_comm
end

/-! ## §7 `discardCard` -/

/-- the turn after a discard with deadwood `dw` left -/
def discardTurn (v : Variant) (t : Turn) (dw : Int) : Turn :=
  if v = .rummy ∧ dw ≤ 10 then ownMayKnock t.owner else oppDraws t.owner

/-- the card goes from the mover's hand onto the pile, the turn becomes `t` (before the wall and turn-limit checks) -/
def discardCore (g : GState) (c : Card) (t : Turn) : GState :=
  { g with
    p1 := if g.turn.owner then g.p1.filter (· != c) else g.p1
    p2 := if g.turn.owner then g.p2 else g.p2.filter (· != c)
    turn := t
    hud := hudSet (match g.discard.getLast? with | some top => hudSet g.hud top .disc | none => g.hud) c .top
    discard := g.discard ++ [c] }

section
variable (g : GState) (c : Card) (t : Turn)
@[simp] theorem discardCore_params : (discardCore g c t).params = g.params := rfl
@[simp] theorem discardCore_deck : (discardCore g c t).deck = g.deck := rfl
@[simp] theorem discardCore_discard : (discardCore g c t).discard = g.discard ++ [c] := rfl
@[simp] theorem discardCore_turn : (discardCore g c t).turn = t := rfl
@[simp] theorem discardCore_firstTurn : (discardCore g c t).firstTurn = g.firstTurn := rfl
@[simp] theorem discardCore_lastDraw : (discardCore g c t).lastDraw = g.lastDraw := rfl
@[simp] theorem discardCore_lastFromDiscard : (discardCore g c t).lastFromDiscard = g.lastFromDiscard := rfl
@[simp] theorem discardCore_complete : (discardCore g c t).complete = g.complete := rfl
@[simp] theorem discardCore_turns : (discardCore g c t).turns = g.turns := rfl
@[simp] theorem discardCore_shuffles : (discardCore g c t).shuffles = g.shuffles := rfl
@[simp] theorem discardCore_p1Points : (discardCore g c t).p1Points = g.p1Points := rfl
@[simp] theorem discardCore_p2Points : (discardCore g c t).p2Points = g.p2Points := rfl
theorem discardCore_p1 : (discardCore g c t).p1 = if g.turn.owner then g.p1.filter (· != c) else g.p1 := rfl
theorem discardCore_p2 : (discardCore g c t).p2 = if g.turn.owner then g.p2 else g.p2.filter (· != c) := rfl
end

/-- wall check (unless a knock is offered) and turn counter -/
def discardPre (shuffle : List Card → List Card) (g : GState) : GState :=
  let g1 := if !g.turn.isKnock then (g.checkWall shuffle).2 else g
  { g1 with turns := g1.turns + 1 }

/-- wall check (unless a knock is offered), turn counter, turn limit -/
def discardFinish (shuffle : List Card → List Card) (g : GState) : GState :=
  if (discardPre shuffle g).hitMaxTurns && !(discardPre shuffle g).complete then
    (discardPre shuffle g).endGame .wall 0 0
  else discardPre shuffle g

private def discardTail (shuffle : List Card → List Card) (g : GState) : Except Err GState :=
  if (discardPre shuffle g).hitMaxTurns && !(discardPre shuffle g).complete then
    pure ((discardPre shuffle g).endGame .wall 0 0)
  else pure (discardPre shuffle g)

private theorem discardTail_eq (shuffle : List Card → List Card) (g : GState) :
    discardTail shuffle g = .ok (discardFinish shuffle g) := by
  unfold discardTail discardFinish
  split <;> rfl

private theorem discardCard_eq' (shuffle : List Card → List Card) (g : GState) (c : Card)
    (ht : g.turn.isDiscard = true) :
    g.discardCard shuffle c =
      if (g.handOf g.turn.owner).length != g.params.cardsDealt + 1 then .error .badHandSize else
      if !(g.handOf g.turn.owner).contains c then .error .notInHand else
      getDeadwood g.params.variant ((g.handOf g.turn.owner).filter (· != c)) none none >>= fun dw =>
      if dw == 0 then
        getDeadwood g.params.variant (g.handOf (!g.turn.owner)) none none >>= fun oppDw =>
        advanceTurn g.params.variant g.turn false g.firstTurn dw >>= fun t =>
        discardTail shuffle (discardCore
          (g.endGame .gin (if g.turn.owner then 0 else oppDw) (if g.turn.owner then oppDw else 0)) c t)
      else
        advanceTurn g.params.variant g.turn false g.firstTurn dw >>= fun t =>
        discardTail shuffle (discardCore g c t) := by
  obtain ⟨params, deck, discard, p1, p2, turn, ft, ld, lfd, hud, complete, turns, shuffles, pp1, pp2⟩ := g
  cases turn <;> first | exact Bool.noConfusion ht | rfl

/-- accepted discard -/
theorem discardCard_ok {shuffle : List Card → List Card} {g g' : GState} {c : Card} :
    g.discardCard shuffle c = .ok g' ↔
    g.turn.isDiscard = true ∧ (g.handOf g.turn.owner).length = g.params.cardsDealt + 1 ∧
    c ∈ g.handOf g.turn.owner ∧
    ∃ dw, getDeadwood g.params.variant ((g.handOf g.turn.owner).filter (· != c)) none none = .ok dw ∧
      ((dw ≠ 0 ∧ g' = discardFinish shuffle (discardCore g c (discardTurn g.params.variant g.turn dw))) ∨
       (dw = 0 ∧ ∃ oppDw, getDeadwood g.params.variant (g.handOf (!g.turn.owner)) none none = .ok oppDw ∧
          g' = discardFinish shuffle (discardCore
            (g.endGame .gin (if g.turn.owner then 0 else oppDw) (if g.turn.owner then oppDw else 0)) c
            (discardTurn g.params.variant g.turn dw)))) := by
  by_cases ht : g.turn.isDiscard = true
  · rw [discardCard_eq' shuffle g c ht]
    simp only [advanceTurn_discard ht, discardTail_eq, ← discardTurn.eq_1]
    by_cases hl : (g.handOf g.turn.owner).length = g.params.cardsDealt + 1
    · by_cases hc : c ∈ g.handOf g.turn.owner
      · simp only [ht, hl, hc, true_and, bne_self_eq_false, Bool.false_eq_true, if_false, List.contains_eq_mem,
          decide_true, Bool.not_true, bind_ok]
        refine exists_congr fun dw => and_congr_right fun _ => ?_
        by_cases h0 : dw = 0
        · subst h0
          simp only [beq_self_eq_true, if_true, bind_ok, ne_eq, not_true, false_and, false_or, true_and]
          refine exists_congr fun o => and_congr_right fun _ => ?_
          simp [@eq_comm _ _ g']
        · simp [h0, bind, Except.bind, @eq_comm _ _ g']
      · simp [hc, hl]
    · simp [hl]
  · simp [GState.discardCard, ht]

/-! ## §8 `decideKnock` -/

/-- accepted knock decision: a declined knock runs the wall check and (if the game goes on) hands the turn to the
opponent; an accepted knock ends the game -/
theorem decideKnock_ok {shuffle : List Card → List Card} {g g' : GState} {k : Bool}
    {ms : Option (List (List Card))} :
    g.decideKnock shuffle k ms = .ok g' ↔
    g.turn.isKnock = true ∧
    ((k = false ∧
        (((g.checkWall shuffle).1 = true ∧ g' = (g.checkWall shuffle).2) ∨
         ((g.checkWall shuffle).1 = false ∧ g.params.variant = .rummy ∧
            g' = { (g.checkWall shuffle).2 with turn := oppDraws g.turn.owner }))) ∨
     (k = true ∧ ∃ a b,
        getDeadwood g.params.variant (g.handOf g.turn.owner) ms none = .ok a ∧
        getDeadwood g.params.variant (g.handOf (!g.turn.owner)) none ms = .ok b ∧
        g' = g.endGame .knock (if g.turn.owner then a else b) (if g.turn.owner then b else a))) := by
  by_cases ht : g.turn.isKnock = true
  · cases k
    · have hp := checkWall_params shuffle g
      have hT := checkWall_turn shuffle g
      unfold GState.decideKnock
      rcases hcw : g.checkWall shuffle with ⟨ended, g1⟩
      rw [hcw] at hp hT
      simp only at hp hT
      cases ended
      · cases hv : g.params.variant <;>
          simp [ht, hp, hT, hv, advanceTurn_knock ht, bind, Except.bind, pure, Except.pure, @eq_comm _ _ g']
      · simp [ht, pure, Except.pure, @eq_comm _ _ g']
    · obtain ⟨params, deck, discard, p1, p2, turn, ft, ld, lfd, hud, complete, turns, shuffles, pp1, pp2⟩ := g
      cases turn <;> first | exact Bool.noConfusion ht | skip
      · cases h1 : getDeadwood params.variant p1 ms none <;> cases h2 : getDeadwood params.variant p2 none ms <;>
          simp [GState.decideKnock, Turn.isKnock, Turn.owner, GState.handOf, h1, h2, bind, Except.bind, pure,
            Except.pure, @eq_comm _ _ g']
      · cases h1 : getDeadwood params.variant p2 ms none <;> cases h2 : getDeadwood params.variant p1 none ms <;>
          simp [GState.decideKnock, Turn.isKnock, Turn.owner, GState.handOf, h1, h2, bind, Except.bind, pure,
            Except.pure, @eq_comm _ _ g']
  · simp [GState.decideKnock, ht]

/-! ## §9 the invariant of reachable states -/

/-- rearrangements of appends: compare counts -/
theorem perm_of_count {l₁ l₂ : List Card} (h : ∀ a, l₁.count a = l₂.count a) : l₁.Perm l₂ :=
  List.perm_iff_count.2 h

/-- in a duplicate-free hand `filter (· != c)` removes exactly the card `c` -/
theorem perm_cons_filter_bne {l : List Card} {c : Card} (hn : l.Nodup) (hc : c ∈ l) :
    l.Perm (c :: l.filter (· != c)) := by
  induction l with
  | nil => cases hc
  | cons a l ih =>
    rw [List.nodup_cons] at hn
    by_cases hac : a = c
    · subst hac
      have : l.filter (· != a) = l := by
        rw [List.filter_eq_self]
        intro x hx
        have : x ≠ a := fun h => hn.1 (h ▸ hx)
        simpa using this
      simp [this]
    · have hc' : c ∈ l := by
        rcases List.mem_cons.1 hc with h | h
        · exact absurd h.symm hac
        · exact h
      have h1 : (a != c) = true := by simpa using hac
      rw [List.filter_cons, if_pos h1]
      exact ((ih hn.2 hc').cons a).trans (List.Perm.swap c a _)

theorem length_filter_bne {l : List Card} {c : Card} (hn : l.Nodup) (hc : c ∈ l) :
    (l.filter (· != c)).length + 1 = l.length := by
  have := (perm_cons_filter_bne hn hc).length_eq
  simpa using this.symm

/-! ### frames of `discardPre` / `discardFinish` -/

section
variable (shuffle : List Card → List Card) (g : GState)

theorem discardPre_eq :
    discardPre shuffle g =
      if g.turn.isKnock then { g with turns := g.turns + 1 }
      else { (g.checkWall shuffle).2 with turns := (g.checkWall shuffle).2.turns + 1 } := by
  unfold discardPre
  cases g.turn.isKnock <;> rfl

@[simp] theorem discardPre_params : (discardPre shuffle g).params = g.params := by
  rw [discardPre_eq]; split <;> simp
@[simp] theorem discardPre_p1 : (discardPre shuffle g).p1 = g.p1 := by
  rw [discardPre_eq]; split <;> simp
@[simp] theorem discardPre_p2 : (discardPre shuffle g).p2 = g.p2 := by
  rw [discardPre_eq]; split <;> simp
@[simp] theorem discardPre_turn : (discardPre shuffle g).turn = g.turn := by
  rw [discardPre_eq]; split <;> simp
@[simp] theorem discardPre_firstTurn : (discardPre shuffle g).firstTurn = g.firstTurn := by
  rw [discardPre_eq]; split <;> simp
@[simp] theorem discardPre_lastDraw : (discardPre shuffle g).lastDraw = g.lastDraw := by
  rw [discardPre_eq]; split <;> simp
@[simp] theorem discardPre_lastFromDiscard : (discardPre shuffle g).lastFromDiscard = g.lastFromDiscard := by
  rw [discardPre_eq]; split <;> simp
@[simp] theorem discardPre_turns : (discardPre shuffle g).turns = g.turns + 1 := by
  rw [discardPre_eq]; split <;> simp

theorem discardPre_complete :
    (discardPre shuffle g).complete = (g.complete || (!g.turn.isKnock && (g.checkWall shuffle).1)) := by
  rw [discardPre_eq]
  cases h : g.turn.isKnock <;> simp [checkWall_complete]

/-- pile and stock after the wall check of a discard -/
theorem discardPre_piles (hs : ∀ l, (shuffle l).Perm l) :
    ((discardPre shuffle g).discard = g.discard ∧ (discardPre shuffle g).deck = g.deck) ∨
    (g.turn.isKnock = false ∧ (g.checkWall shuffle).1 = false ∧ g.deck.length = g.params.endCardsInDeck ∧
      g.wallEnds = false ∧
      (discardPre shuffle g).discard = [] ∧ (discardPre shuffle g).deck.Perm (g.discard ++ g.deck)) := by
  rw [discardPre_eq]
  cases h : g.turn.isKnock
  · rcases checkWall_piles shuffle g hs with h1 | ⟨h1, h2, h3, h4, h5⟩
    · exact .inl (by simpa using h1)
    · exact .inr ⟨rfl, h1, h2, h3, by simpa using h4, by simpa using h5⟩
  · exact .inl ⟨rfl, rfl⟩

theorem discardPre_allCards (hs : ∀ l, (shuffle l).Perm l) : (discardPre shuffle g).allCards.Perm g.allCards := by
  rw [discardPre_eq]
  split
  · exact List.Perm.refl _
  · exact checkWall_allCards shuffle g hs

/-- the turn limit only ends the game -/
theorem discardFinish_eq :
    discardFinish shuffle g = discardPre shuffle g ∨
    ((discardPre shuffle g).hitMaxTurns = true ∧ (discardPre shuffle g).complete = false ∧
      discardFinish shuffle g = (discardPre shuffle g).endGame .wall 0 0) := by
  unfold discardFinish
  split
  · rename_i h
    simp only [Bool.and_eq_true, Bool.not_eq_true'] at h
    exact .inr ⟨h.1, h.2, rfl⟩
  · exact .inl rfl

@[simp] theorem discardFinish_params : (discardFinish shuffle g).params = g.params := by
  rcases discardFinish_eq shuffle g with h | ⟨_, _, h⟩ <;> rw [h] <;> simp
@[simp] theorem discardFinish_p1 : (discardFinish shuffle g).p1 = g.p1 := by
  rcases discardFinish_eq shuffle g with h | ⟨_, _, h⟩ <;> rw [h] <;> simp
@[simp] theorem discardFinish_p2 : (discardFinish shuffle g).p2 = g.p2 := by
  rcases discardFinish_eq shuffle g with h | ⟨_, _, h⟩ <;> rw [h] <;> simp
@[simp] theorem discardFinish_turn : (discardFinish shuffle g).turn = g.turn := by
  rcases discardFinish_eq shuffle g with h | ⟨_, _, h⟩ <;> rw [h] <;> simp
@[simp] theorem discardFinish_firstTurn : (discardFinish shuffle g).firstTurn = g.firstTurn := by
  rcases discardFinish_eq shuffle g with h | ⟨_, _, h⟩ <;> rw [h] <;> simp
@[simp] theorem discardFinish_lastDraw : (discardFinish shuffle g).lastDraw = g.lastDraw := by
  rcases discardFinish_eq shuffle g with h | ⟨_, _, h⟩ <;> rw [h] <;> simp
@[simp] theorem discardFinish_lastFromDiscard :
    (discardFinish shuffle g).lastFromDiscard = g.lastFromDiscard := by
  rcases discardFinish_eq shuffle g with h | ⟨_, _, h⟩ <;> rw [h] <;> simp
@[simp] theorem discardFinish_turns : (discardFinish shuffle g).turns = g.turns + 1 := by
  rcases discardFinish_eq shuffle g with h | ⟨_, _, h⟩ <;> rw [h] <;> simp
@[simp] theorem discardFinish_deck : (discardFinish shuffle g).deck = (discardPre shuffle g).deck := by
  rcases discardFinish_eq shuffle g with h | ⟨_, _, h⟩
  · rw [h]
  · rw [h]; rfl
@[simp] theorem discardFinish_discard : (discardFinish shuffle g).discard = (discardPre shuffle g).discard := by
  rcases discardFinish_eq shuffle g with h | ⟨_, _, h⟩
  · rw [h]
  · rw [h]; rfl
@[simp] theorem discardFinish_hud : (discardFinish shuffle g).hud = (discardPre shuffle g).hud := by
  rcases discardFinish_eq shuffle g with h | ⟨_, _, h⟩
  · rw [h]
  · rw [h]; rfl
@[simp] theorem discardFinish_shuffles : (discardFinish shuffle g).shuffles = (discardPre shuffle g).shuffles := by
  rcases discardFinish_eq shuffle g with h | ⟨_, _, h⟩
  · rw [h]
  · rw [h]; rfl

theorem discardFinish_complete :
    (discardFinish shuffle g).complete = ((discardPre shuffle g).complete || (discardPre shuffle g).hitMaxTurns) := by
  unfold discardFinish
  cases h1 : (discardPre shuffle g).hitMaxTurns <;> cases h2 : (discardPre shuffle g).complete <;> simp [h2]

/-- a discard that leaves the game in progress: neither the wall nor the turn limit fired -/
theorem discardFinish_live (h : (discardFinish shuffle g).complete = false) :
    discardFinish shuffle g = discardPre shuffle g ∧ g.complete = false ∧
    (g.turn.isKnock = false → (g.checkWall shuffle).1 = false) := by
  rw [discardFinish_complete, Bool.or_eq_false_iff] at h
  have h2 := h.1
  rw [discardPre_complete, Bool.or_eq_false_iff] at h2
  refine ⟨?_, h2.1, fun hk => by simpa [hk] using h2.2⟩
  rcases discardFinish_eq shuffle g with h' | ⟨h', _, _⟩
  · exact h'
  · rw [h.2] at h'; cases h'

theorem discardFinish_allCards (hs : ∀ l, (shuffle l).Perm l) :
    (discardFinish shuffle g).allCards.Perm g.allCards := by
  rcases discardFinish_eq shuffle g with h | ⟨_, _, h⟩ <;> rw [h]
  · exact discardPre_allCards shuffle g hs
  · exact discardPre_allCards shuffle g hs
end

/-! ### the invariant -/

/-- one of the two shipped variants (any turn limit) -/
def IsVariant (p : Params) : Prop := p = Params.rummy p.maxTurns ∨ p = Params.ricky p.maxTurns

/-- what holds in every reachable state that is still in progress -/
structure Live (g : GState) : Prop where
  p1_len : g.p1.length = g.params.cardsDealt + (if g.turn = .p1Discards then 1 else 0)
  p2_len : g.p2.length = g.params.cardsDealt + (if g.turn = .p2Discards then 1 else 0)
  no_draw_from_deck : g.turn.isDrawFromDeck = false
  knock_rummy : g.turn.isKnock = true → g.params.variant = .rummy
  stock : g.turn.isDiscard = false → g.turn.isKnock = false → g.params.endCardsInDeck < g.deck.length
  stock_le : g.params.endCardsInDeck ≤ g.deck.length
  last_draw : g.turn.isDiscard = true → ∃ c, g.lastDraw = some c ∧ c ∈ g.handOf g.turn.owner

/-- the invariant of the states reachable from the deal `g0` -/
structure GInv (g0 g : GState) : Prop where
  params : g.params = g0.params
  variant : IsVariant g.params
  firstTurn : g.firstTurn = g0.firstTurn
  first_draw : g0.firstTurn.isFirstDraw = true
  perm : g.allCards.Perm g0.allCards
  nodup : g.allCards.Nodup
  live : g.complete = false → Live g

theorem IsVariant.cases {p : Params} (h : IsVariant p) :
    (p.variant = .rummy ∧ p.cardsDealt = 10 ∧ p.endCardsInDeck = 2 ∧ p.maxShuffles = some 1) ∨
    (p.variant = .ricky ∧ p.cardsDealt = 7 ∧ p.endCardsInDeck = 0 ∧ p.maxShuffles = none) := by
  rcases h with h | h <;> rw [h] <;> simp [Params.rummy, Params.ricky]

/-- the state right after a draw (by `drawCard` or by the second pass) -/
theorem Live.after_draw {g g' : GState} {o : Bool} {c : Card} (hp : g'.params = g.params)
    (h1 : g'.p1 = if o then g.p1 ++ [c] else g.p1) (h2 : g'.p2 = if o then g.p2 else g.p2 ++ [c])
    (ht : g'.turn = ownDiscards o) (hld : g'.lastDraw = some c)
    (hdeck : g.params.endCardsInDeck ≤ g'.deck.length)
    (hl1 : g.p1.length = g.params.cardsDealt) (hl2 : g.p2.length = g.params.cardsDealt) : Live g' := by
  cases o <;> constructor <;>
    simp_all [ownDiscards, Turn.isDrawFromDeck, Turn.isKnock, Turn.isDiscard, Turn.owner, GState.handOf]

theorem Live.lens {g : GState} (hl : Live g) (ht : g.turn.isDiscard = false) :
    g.p1.length = g.params.cardsDealt ∧ g.p2.length = g.params.cardsDealt := by
  have h1 := hl.p1_len
  have h2 := hl.p2_len
  cases hT : g.turn <;> simp_all [Turn.isDiscard]

theorem Live.drawCard {g g' : GState} {d : Bool} (hl : Live g) (h : g.drawCard d = .ok g') : Live g' := by
  have hnd := hl.no_draw_from_deck
  cases d
  · obtain ⟨c, rest, hturn, -, -, hdeck, rfl⟩ := drawCard_false_ok.1 h
    have hnd' : g.turn.isDiscard = false ∧ g.turn.isKnock = false := by
      cases hT : g.turn <;> simp_all [Turn.isDraw, Turn.isDrawFromDeck, Turn.isDiscard, Turn.isKnock]
    have hst := hl.stock hnd'.1 hnd'.2
    rw [hdeck, List.length_cons] at hst
    exact Live.after_draw (g := g) (o := g.turn.owner) (c := c) rfl rfl rfl rfl rfl (Nat.le_of_lt_succ hst)
      (hl.lens hnd'.1).1 (hl.lens hnd'.1).2
  · obtain ⟨c, rest, hturn, -, -, hdisc, rfl⟩ := drawCard_true_ok.1 h
    have hnd' : g.turn.isDiscard = false := by
      cases hT : g.turn <;> simp_all [Turn.isDraw, Turn.isDrawFromDeck, Turn.isDiscard, Turn.isFirstDraw]
    exact Live.after_draw (g := g) (o := g.turn.owner) (c := c) rfl rfl rfl rfl rfl hl.stock_le
      (hl.lens hnd').1 (hl.lens hnd').2

theorem Live.firstTurnPass {g g' : GState} (hl : Live g) (h : g.firstTurnPass = .ok g') : Live g' := by
  obtain ⟨hturn, ⟨-, rfl⟩ | ⟨-, c, rest, hdeck, rfl⟩⟩ := firstTurnPass_ok.1 h
  · have h1 := hl.p1_len
    have h2 := hl.p2_len
    have h3 := hl.stock
    have h4 := hl.stock_le
    constructor <;> cases hT : g.turn <;>
      simp_all [Turn.isFirstDraw, oppDrawsFirst, Turn.owner, Turn.isDrawFromDeck, Turn.isKnock, Turn.isDiscard]
  · have hnd' : g.turn.isDiscard = false ∧ g.turn.isKnock = false := by
      cases hT : g.turn <;> simp_all [Turn.isFirstDraw, Turn.isDiscard, Turn.isKnock]
    have hst := hl.stock hnd'.1 hnd'.2
    rw [hdeck, List.length_cons] at hst
    refine Live.after_draw (g := g) (o := !g.turn.owner) (c := c) rfl ?_ ?_ rfl rfl (Nat.le_of_lt_succ hst)
      (hl.lens hnd'.1).1 (hl.lens hnd'.1).2 <;> cases g.turn.owner <;> rfl

/-- if the wall check lets the game go on, the next player can draw from the stock: in gin rummy the stock was above
the end size, in gin ricky a stock at zero was refilled from the (non-empty) pile -/
theorem checkWall_stock (shuffle : List Card → List Card) (hs : ∀ l, (shuffle l).Perm l) {g : GState}
    (hv : IsVariant g.params) (hle : g.params.endCardsInDeck ≤ g.deck.length)
    (hne : g.params.variant = .ricky → g.discard ≠ []) (hf : (g.checkWall shuffle).1 = false) :
    g.params.endCardsInDeck < (g.checkWall shuffle).2.deck.length := by
  rcases checkWall_cases shuffle g with ⟨h', h⟩ | ⟨_, _, h⟩ | ⟨h', hm, h⟩
  · rw [h]; exact lt_of_le_of_ne hle (Ne.symm h')
  · rw [h] at hf; cases hf
  · rw [h]
    rcases hv with hv | hv
    · rw [wallEnds_rummy hv] at hm; cases hm
    · have hvar : g.params.variant = .ricky := by rw [hv]; rfl
      have hend : g.params.endCardsInDeck = 0 := by rw [hv]; rfl
      have hlen := (hs (g.discard ++ g.deck)).length_eq
      have hpos : 0 < g.discard.length := List.length_pos_iff.2 (hne hvar)
      show g.params.endCardsInDeck < (shuffle (g.discard ++ g.deck)).length
      rw [hlen, hend, List.length_append]
      omega

theorem Live.discardCard {shuffle : List Card → List Card} (hs : ∀ l, (shuffle l).Perm l) {g g' : GState}
    {c : Card} (hv : IsVariant g.params) (hn : g.allCards.Nodup) (hl : Live g)
    (h : g.discardCard shuffle c = .ok g') (hc : g'.complete = false) : Live g' := by
  obtain ⟨hturn, hlen, hmem, dw, -, ⟨-, rfl⟩ | ⟨-, oppDw, -, rfl⟩⟩ := discardCard_ok.1 h
  · obtain ⟨heq, -, hwall⟩ := discardFinish_live shuffle _ hc
    rw [heq]
    have hn1 : g.p1.Nodup := by
      unfold GState.allCards at hn
      exact (List.nodup_append.1 (List.nodup_append.1 hn).1).2.1
    have hn2 : g.p2.Nodup := by
      unfold GState.allCards at hn
      exact (List.nodup_append.1 hn).2.1
    have hp1 := hl.p1_len
    have hp2 := hl.p2_len
    -- the hands after the discard
    have hlens : (discardCore g c (discardTurn g.params.variant g.turn dw)).p1.length = g.params.cardsDealt ∧
        (discardCore g c (discardTurn g.params.variant g.turn dw)).p2.length = g.params.cardsDealt := by
      cases hT : g.turn <;> simp [hT, Turn.isDiscard] at hturn <;>
        simp [hT, Turn.owner, GState.handOf] at hlen hmem <;> simp [hT] at hp1 hp2
      · have := length_filter_bne hn1 hmem
        simp [discardCore, hT, Turn.owner]
        omega
      · have := length_filter_bne hn2 hmem
        simp [discardCore, hT, Turn.owner]
        omega
    by_cases hk : g.params.variant = .rummy ∧ dw ≤ 10
    · -- knock offered: no wall check
      have htn : discardTurn g.params.variant g.turn dw = ownMayKnock g.turn.owner := if_pos hk
      rw [htn] at hlens ⊢
      have hk' : (ownMayKnock g.turn.owner).isKnock = true := by cases g.turn.owner <;> rfl
      have hpre : discardPre shuffle (discardCore g c (ownMayKnock g.turn.owner)) =
          { discardCore g c (ownMayKnock g.turn.owner) with turns := g.turns + 1 } := by
        rw [discardPre_eq, if_pos (by exact hk')]; rfl
      have hsl := hl.stock_le
      rw [hpre]
      constructor <;> cases hO : g.turn.owner <;>
        simp_all [discardCore, ownMayKnock, Turn.isDrawFromDeck, Turn.isKnock, Turn.isDiscard]
    · -- the opponent draws next: wall check
      have htn : discardTurn g.params.variant g.turn dw = oppDraws g.turn.owner := if_neg hk
      rw [htn] at hlens hwall ⊢
      have hk' : (oppDraws g.turn.owner).isKnock = false := by cases g.turn.owner <;> rfl
      have hst := checkWall_stock shuffle hs (g := discardCore g c (oppDraws g.turn.owner)) hv hl.stock_le
        (fun _ => by simp [discardCore]) (hwall hk')
      have hpre : discardPre shuffle (discardCore g c (oppDraws g.turn.owner)) =
          { ((discardCore g c (oppDraws g.turn.owner)).checkWall shuffle).2 with turns := g.turns + 1 } := by
        rw [discardPre_eq, if_neg (by simp [discardCore, hk'])]
        simp [discardCore]
      have hsl := hl.stock_le
      rw [hpre]
      constructor <;> cases hO : g.turn.owner <;>
        simp_all [oppDraws, Turn.isDrawFromDeck, Turn.isKnock, Turn.isDiscard] <;> omega
  · have := (discardFinish_live shuffle _ hc).2.1
    simp [discardCore] at this

theorem Live.decideKnock {shuffle : List Card → List Card} (hs : ∀ l, (shuffle l).Perm l) {g g' : GState}
    {k : Bool} {ms : Option (List (List Card))} (hv : IsVariant g.params) (hl : Live g)
    (h : g.decideKnock shuffle k ms = .ok g') (hc : g'.complete = false) : Live g' := by
  obtain ⟨hturn, ⟨-, ⟨hw, rfl⟩ | ⟨hw, hvar, rfl⟩⟩ | ⟨-, a, b, -, -, rfl⟩⟩ := decideKnock_ok.1 h
  · rw [checkWall_complete, hw, Bool.or_true] at hc; cases hc
  · have hst := checkWall_stock shuffle hs hv hl.stock_le (fun h => by rw [hvar] at h; cases h) hw
    have hnd : g.turn.isDiscard = false := by
      cases hT : g.turn <;> simp_all [Turn.isKnock, Turn.isDiscard]
    have hlens := hl.lens hnd
    constructor <;> cases hO : g.turn.owner <;>
      simp_all [oppDraws, Turn.isDrawFromDeck, Turn.isKnock, Turn.isDiscard] <;> omega
  · cases hc

/-- every accepted move keeps an in-progress state `Live` (if the game is still in progress afterwards) -/
theorem Live.step {shuffle : List Card → List Card} (hs : ∀ l, (shuffle l).Perm l) {g g' : GState} {m : Move}
    (hv : IsVariant g.params) (hn : g.allCards.Nodup) (hl : Live g) (h : g.apply shuffle m = .ok g')
    (hc : g'.complete = false) : Live g' := by
  cases m with
  | pass => exact hl.firstTurnPass h
  | draw d => exact hl.drawCard h
  | discard c => exact hl.discardCard hs hv hn h hc
  | knock k ms => exact hl.decideKnock hs hv h hc

/-- no move touches the rule parameters or the record of who had the first turn -/
theorem apply_frame {shuffle : List Card → List Card} {g g' : GState} {m : Move}
    (h : g.apply shuffle m = .ok g') : g'.params = g.params ∧ g'.firstTurn = g.firstTurn := by
  cases m with
  | pass =>
    obtain ⟨-, ⟨-, rfl⟩ | ⟨-, c, rest, -, rfl⟩⟩ := firstTurnPass_ok.1 h <;> exact ⟨rfl, rfl⟩
  | draw d =>
    cases d
    · obtain ⟨c, rest, -, -, -, -, rfl⟩ := drawCard_false_ok.1 h; exact ⟨rfl, rfl⟩
    · obtain ⟨c, rest, -, -, -, -, rfl⟩ := drawCard_true_ok.1 h; exact ⟨rfl, rfl⟩
  | discard c =>
    obtain ⟨-, -, -, dw, -, ⟨-, rfl⟩ | ⟨-, oppDw, -, rfl⟩⟩ := discardCard_ok.1 h <;> simp
  | knock k ms =>
    obtain ⟨-, ⟨-, ⟨-, rfl⟩ | ⟨-, -, rfl⟩⟩ | ⟨-, a, b, -, -, rfl⟩⟩ := decideKnock_ok.1 h <;> simp

theorem discardCore_allCards {g : GState} {c : Card} (t : Turn) (hn : g.allCards.Nodup)
    (hmem : c ∈ g.handOf g.turn.owner) : (discardCore g c t).allCards.Perm g.allCards := by
  have hn1 : g.p1.Nodup := by
    unfold GState.allCards at hn
    exact (List.nodup_append.1 (List.nodup_append.1 hn).1).2.1
  have hn2 : g.p2.Nodup := by
    unfold GState.allCards at hn
    exact (List.nodup_append.1 hn).2.1
  unfold GState.allCards
  rw [discardCore_p1, discardCore_p2]
  cases hO : g.turn.owner <;> simp only [hO, GState.handOf, if_true, if_false, Bool.false_eq_true] at hmem ⊢
  · have hp := (perm_cons_filter_bne hn2 hmem).count_eq
    refine perm_of_count fun a => ?_
    have := hp a
    simp only [discardCore_deck, discardCore_discard, List.count_append, List.count_cons, List.count_nil] at this ⊢
    omega
  · have hp := (perm_cons_filter_bne hn1 hmem).count_eq
    refine perm_of_count fun a => ?_
    have := hp a
    simp only [discardCore_deck, discardCore_discard, List.count_append, List.count_cons, List.count_nil] at this ⊢
    omega

/-- every accepted move permutes the cards -/
theorem apply_perm {shuffle : List Card → List Card} (hs : ∀ l, (shuffle l).Perm l) {g g' : GState} {m : Move}
    (hn : g.allCards.Nodup) (h : g.apply shuffle m = .ok g') : g'.allCards.Perm g.allCards := by
  cases m with
  | pass =>
    obtain ⟨-, ⟨-, rfl⟩ | ⟨-, c, rest, hdeck, rfl⟩⟩ := firstTurnPass_ok.1 h
    · exact List.Perm.refl _
    · refine perm_of_count fun a => ?_
      unfold GState.allCards
      rw [hdeck]
      cases g.turn.owner <;> simp [List.count_append, List.count_cons] <;> omega
  | draw d =>
    cases d
    · obtain ⟨c, rest, -, -, -, hdeck, rfl⟩ := drawCard_false_ok.1 h
      refine perm_of_count fun a => ?_
      unfold GState.allCards
      rw [hdeck]
      cases g.turn.owner <;> simp [List.count_append, List.count_cons] <;> omega
    · obtain ⟨c, rest, -, -, -, hdisc, rfl⟩ := drawCard_true_ok.1 h
      refine perm_of_count fun a => ?_
      unfold GState.allCards
      rw [hdisc]
      cases g.turn.owner <;> simp [List.count_append, List.count_cons] <;> omega
  | discard c =>
    obtain ⟨-, -, hmem, dw, -, ⟨-, rfl⟩ | ⟨-, oppDw, -, rfl⟩⟩ := discardCard_ok.1 h
    · exact (discardFinish_allCards shuffle _ hs).trans (discardCore_allCards _ hn hmem)
    · refine (discardFinish_allCards shuffle _ hs).trans ?_
      exact discardCore_allCards (g := g.endGame _ _ _) _ (by simpa using hn) (by simpa using hmem)
  | knock k ms =>
    obtain ⟨-, ⟨-, ⟨-, rfl⟩ | ⟨-, -, rfl⟩⟩ | ⟨-, a, b, -, -, rfl⟩⟩ := decideKnock_ok.1 h
    · exact checkWall_allCards shuffle g hs
    · exact checkWall_allCards shuffle g hs
    · exact List.Perm.refl _

/-- a fresh deal, explicitly -/
theorem Deal.init {g0 : GState} (hd : Deal g0) :
    ∃ up, g0.turn = g0.firstTurn ∧ g0.firstTurn.isFirstDraw = true ∧ g0.discard = [up] ∧
      g0.lastDraw = none ∧ g0.lastFromDiscard = none ∧ g0.hud = [(up, .top)] ∧ g0.complete = false ∧
      g0.turns = 0 ∧ g0.shuffles = 0 ∧ g0.p1Points = none ∧ g0.p2Points = none := by
  obtain ⟨params, deck, up, p1, p2, turn, hturn, hnew⟩ := hd.fresh
  simp only [newGame, List.getLast?_singleton, Except.ok.injEq] at hnew
  subst hnew
  exact ⟨up, rfl, hturn, rfl, rfl, rfl, rfl, rfl, rfl, rfl, rfl, rfl⟩

theorem Deal.live {g0 : GState} (hd : Deal g0) : Live g0 := by
  obtain ⟨up, hturn, hfirst, -⟩ := hd.init
  rw [← hturn] at hfirst
  clear hturn
  have h1 := hd.p1_len
  have h2 := hd.p2_len
  have h3 := hd.stock
  constructor <;> cases hT : g0.turn <;>
    simp_all [Turn.isFirstDraw, Turn.isDrawFromDeck, Turn.isKnock, Turn.isDiscard] <;> omega

theorem Deal.inv {g0 : GState} (hd : Deal g0) : GInv g0 g0 :=
  ⟨rfl, hd.variant, rfl, hd.init.choose_spec.2.1, List.Perm.refl _, hd.nodup, fun _ => hd.live⟩

/-- **the invariant holds in every reachable state** -/
theorem reach_inv {shuffle : List Card → List Card} (hs : ∀ l, (shuffle l).Perm l) {g0 g : GState}
    (hd : Deal g0) (h : Reach shuffle g0 g) : GInv g0 g := by
  induction h with
  | init => exact hd.inv
  | @step g g' m _ hc happ ih =>
    obtain ⟨hp, hf⟩ := apply_frame happ
    have hperm := apply_perm hs ih.nodup happ
    have hv : IsVariant g'.params := by rw [hp]; exact ih.variant
    exact ⟨hp.trans ih.params, hv, hf.trans ih.firstTurn, ih.first_draw, hperm.trans ih.perm,
      hperm.symm.nodup_iff.1 ih.nodup, fun hc' => (ih.live hc).step hs ih.variant ih.nodup happ hc'⟩

/-! ### consequences, in the form other properties use them -/

section
variable {shuffle : List Card → List Card} {g0 g : GState}

theorem GInv.live_of (hi : GInv g0 g) (hc : g.complete = false) : Live g := hi.live hc

/-- the parameters are those of gin rummy or of gin ricky -/
theorem GInv.params_cases (hi : GInv g0 g) :
    (g.params.variant = .rummy ∧ g.params.cardsDealt = 10 ∧ g.params.endCardsInDeck = 2 ∧
      g.params.maxShuffles = some 1) ∨
    (g.params.variant = .ricky ∧ g.params.cardsDealt = 7 ∧ g.params.endCardsInDeck = 0 ∧
      g.params.maxShuffles = none) := hi.variant.cases

theorem GInv.p1_nodup (hi : GInv g0 g) : g.p1.Nodup := by
  have hn := hi.nodup
  unfold GState.allCards at hn
  exact (List.nodup_append.1 (List.nodup_append.1 hn).1).2.1

theorem GInv.p2_nodup (hi : GInv g0 g) : g.p2.Nodup := by
  have hn := hi.nodup
  unfold GState.allCards at hn
  exact (List.nodup_append.1 hn).2.1

theorem GInv.deck_nodup (hi : GInv g0 g) : g.deck.Nodup := by
  have hn := hi.nodup
  unfold GState.allCards at hn
  exact (List.nodup_append.1 (List.nodup_append.1 (List.nodup_append.1 hn).1).1).1

theorem GInv.discard_nodup (hi : GInv g0 g) : g.discard.Nodup := by
  have hn := hi.nodup
  unfold GState.allCards at hn
  exact (List.nodup_append.1 (List.nodup_append.1 (List.nodup_append.1 hn).1).1).2.1
end

end CardVerif.Gin
