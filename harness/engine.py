"""Generic check engine: corpus + generated cases through implementation, Lean model and spec oracle."""
import json, os, sys, time, random, traceback, glob, multiprocessing as mp
from . import core


class Verdict:
    """result of judging one case.
    agree  : implementation == model on the compared observables (the correspondence)
    holds  : the property, judged on the implementation's own output, holds on this case
    """
    __slots__ = ("agree", "holds", "why", "key", "tags")

    def __init__(self, agree=True, holds=True, why="", key=None, tags=()):
        self.agree = agree; self.holds = holds; self.why = why; self.key = key; self.tags = tuple(tags)


class Prop:
    pid = "C00"
    level = "proof"
    title = ""
    batch = 400                 # cases per driver round-trip
    quick_seconds = 25          # generation budget per shard
    thorough_seconds = 240
    quick_shards = 4
    thorough_shards = 14
    trusted_base = []
    assumptions = []
    rule = ""

    def setup(self):            # import the implementation (per process)
        core.import_repo()

    def corpus(self):
        out = []
        for f in sorted(glob.glob(os.path.join(core.VERIF, "corpus", self.pid, "*.json"))):
            with open(f) as fh:
                j = json.load(fh)
            cases = j["cases"] if isinstance(j, dict) and "cases" in j else [j]
            for c in cases:
                c = dict(c); c.setdefault("_src", os.path.basename(f)); out.append(c)
        return out

    def generate(self, rng, tier, shard):
        """yield case dicts forever (or until an exhaustive scope is done)"""
        return iter(())

    def exhaustive(self, tier, shard, nshards):
        """optional complete small scopes (thorough tier): yield cases; shard-partitioned"""
        return iter(())

    def impl(self, case):
        raise NotImplementedError

    def request(self, case, impl_out):
        raise NotImplementedError

    def judge(self, case, impl_out, model_out):
        raise NotImplementedError

    def shrink_candidates(self, case):
        return iter(())

    # ---- convenience: evaluate one case end-to-end (used by shrinker / replay)
    def evaluate(self, case):
        io = self.impl(fresh(case))
        mo = core.run_driver([self.request(case, io)])[0]
        return io, mo, self.judge(case, io, mo)


def fresh(case):
    """The implementation is always driven with a JSON round trip of the case: every string it receives (action types,
    cards, variant names) is then a new object, equal to but not identical with the library's own constants and with the
    strings already held inside its game objects -- as they are when moves arrive from a client, a file or a database.
    Code that compares strings by identity instead of equality behaves differently on such input."""
    try:
        return json.loads(json.dumps(case))
    except (TypeError, ValueError):
        return case


def _shorten(x, depth=0):
    """samples are for a reader: long lists are cut to their first entries, deep structures summarised"""
    if isinstance(x, dict):
        if depth >= 4:
            return {"...": f"{len(x)} keys"}
        return {k: _shorten(v, depth + 1) for k, v in list(x.items())[:24]}
    if isinstance(x, (list, tuple)):
        cap = 12 if depth < 3 else 6
        out = [_shorten(v, depth + 1) for v in list(x)[:cap]]
        if len(x) > cap:
            out.append(f"... {len(x) - cap} more")
        return out
    if isinstance(x, str) and len(x) > 200:
        return x[:200] + "..."
    return x


def _strip(case):
    return {k: v for k, v in case.items() if not k.startswith("_")}


def run_shard(args):
    """one worker: corpus (shard 0 only) + exhaustive part + generated cases until the budget is used"""
    prop_factory, tier, seed, shard, nshards, seconds = args
    prop = prop_factory()
    res = {"evaluations": 0, "keys": set(), "tags": {}, "bad": [], "samples": [], "exhaustive_done": False,
           "corpus": 0, "error": None, "exh_cases": 0, "known": {}}
    try:
        if shard % 2 == 1:
            # every other shard runs with the library's logging silenced (an application that turns warnings off)
            import logging
            logging.disable(logging.CRITICAL)
        prop.setup()
        rng = random.Random((seed * 1000003 + shard * 7919 + 17) & 0xFFFFFFFF)
        t_end = time.time() + seconds
        nbatch = [0]

        def process(cases):
            nbatch[0] += 1
            if hasattr(prop, "pure_call") and nbatch[0] % 4 == 1:
                b = thread_stress(prop, cases)
                res["threaded"] = res.get("threaded", 0) + 1
                if b is not None and len(res["bad"]) < 40:
                    res["bad"].append(b)
            ios = [prop.impl(fresh(c)) for c in cases]
            mos = core.run_driver([prop.request(c, io) for c, io in zip(cases, ios)])
            for c, io, mo in zip(cases, ios, mos):
                v = prop.judge(c, io, mo)
                res["evaluations"] += 1
                if v.key is not None:
                    res["keys"].add(v.key if isinstance(v.key, str) else core.stable_hash(v.key))
                for t in v.tags:
                    res["tags"][t] = res["tags"].get(t, 0) + 1
                if len(res["samples"]) < 2 and v.key is not None:
                    res["samples"].append(_shorten({"case": _strip(c), "impl": io}))
                if not (v.agree and v.holds):
                    b = {"case": c, "impl": io, "model": mo, "agree": v.agree, "holds": v.holds, "why": v.why}
                    k = match_known(prop.pid, b, prop) if not v.holds else None
                    if k is not None:
                        # an open known finding: counted, one sample kept, never a reason to stop exploring
                        res["known"][k["id"]] = res["known"].get(k["id"], 0) + 1
                    elif len(res["bad"]) < 40:
                        res["bad"].append(b)

        if shard == 0:
            cs = prop.corpus()
            res["corpus"] = len(cs)
            for i in range(0, len(cs), prop.batch):
                process(cs[i:i + prop.batch])
        # exhaustive scopes (thorough): always run to completion, they are sized for that
        buf = []
        for c in prop.exhaustive(tier, shard, nshards):
            buf.append(c)
            if len(buf) >= prop.batch:
                process(buf); res["exh_cases"] += len(buf); buf = []
        if buf:
            process(buf); res["exh_cases"] += len(buf)
        res["exhaustive_done"] = True
        gen = prop.generate(rng, tier, shard)
        done = False
        while not done and time.time() < t_end and len(res["bad"]) < 40:
            buf = []
            for c in gen:
                buf.append(c)
                if len(buf) >= prop.batch:
                    break
            else:
                done = True
            if buf:
                process(buf)
    except core.Infra as e:
        res["error"] = f"infra: {e}"
    except Exception:
        res["error"] = "infra: " + traceback.format_exc()[-3000:]
    res["keys"] = list(res["keys"])
    return res


def load_known():
    p = os.path.join(core.VERIF, "known_findings.json")
    if not os.path.exists(p):
        return []
    with open(p) as fh:
        return json.load(fh).get("findings", [])


def match_known(pid, bad, prop):
    """a failing case is 'known' only if the named deviation predicate of an OPEN finding of this
    property recognises it (never by property id alone)"""
    from . import findings
    for k in load_known():
        if k.get("property") != pid or k.get("status") != "open":
            continue
        pred = getattr(findings, k["predicate"].replace(".", "_"), None)
        if pred is None:
            continue
        try:
            if pred(prop, bad["case"], bad["impl"], bad["model"], bad["why"]):
                return k
        except Exception:
            continue
    return None


def thread_stress(prop, cases, threads=4):
    """pure evaluators must give the same answers when several threads call them at once (on different inputs): the first
    inputs of the batch are evaluated alone, then by `threads` threads in interleaved orders with a tiny switch interval"""
    import threading
    sub = [fresh(c) for c in cases[:48]]
    if len(sub) < 2:
        return None
    try:
        expected = [prop.pure_call(c) for c in sub]
    except Exception:
        return None
    errs = []
    old = sys.getswitchinterval()
    sys.setswitchinterval(1e-6)
    try:
        def worker(off):
            n = len(sub)
            for rep in range(3):
                for j in range(n):
                    if errs:
                        return
                    i = (j * 7 + off * 13 + rep) % n
                    try:
                        got = prop.pure_call(sub[i])
                    except Exception as e:
                        got = "!" + type(e).__name__
                    if got != expected[i]:
                        errs.append((i, got))
                        return
        ts = [threading.Thread(target=worker, args=(k,)) for k in range(threads)]
        for t in ts:
            t.start()
        for t in ts:
            t.join()
    finally:
        sys.setswitchinterval(old)
    if not errs:
        return None
    i, got = errs[0]
    return {"case": {**cases[i], "companions": [c for c in cases[:16]], "threads": threads}, "impl": got, "model": expected[i],
            "agree": True, "holds": False, "env": {"threads": threads},
            "why": (f"evaluated by {threads} threads at once (each on other inputs) the answer is {str(got)[:120]}; evaluated alone it is "
                    f"{str(expected[i])[:120]} -- the function keeps state between calls")}


def run_shard_subprocess(pid, tier, seed, shard, nshards, seconds, extra_env):
    """one more shard in a child interpreter started with another environment (PYTHONOPTIMIZE=1: `assert` statements are
    compiled away, as in an application run with -O); returns a Popen whose stdout carries the shard result as JSON"""
    import subprocess
    env = dict(os.environ); env.update(extra_env); env["PYTHONHASHSEED"] = os.environ.get("PYTHONHASHSEED", "0")
    code = ("import sys, json; sys.path.insert(0, %r); from harness import engine, registry; "
            "a = json.loads(sys.stdin.read()); "
            "r = engine.run_shard((registry.REGISTRY[a['pid']], a['tier'], a['seed'], a['shard'], a['nshards'], a['seconds'])); "
            "r['keys'] = sorted(r['keys']); sys.stdout.write(chr(10) + '@@RESULT@@' + json.dumps(r, default=str))" % core.VERIF)
    p = subprocess.Popen([sys.executable, "-c", code], stdin=subprocess.PIPE, stdout=subprocess.PIPE, stderr=subprocess.PIPE, text=True,
                         env=env, cwd=core.VERIF)
    p.stdin.write(json.dumps({"pid": pid, "tier": tier, "seed": seed, "shard": shard, "nshards": nshards, "seconds": seconds}))
    p.stdin.close()
    return p


def collect_subprocess(p, extra_env):
    out = p.stdout.read(); err = p.stderr.read(); p.wait()
    if "@@RESULT@@" not in out:
        return {"evaluations": 0, "keys": set(), "tags": {}, "bad": [], "samples": [], "exhaustive_done": True, "corpus": 0,
                "error": f"infra: child interpreter {extra_env} produced no result: {(err or out)[-600:]}", "exh_cases": 0, "known": {}}
    r = json.loads(out.split("@@RESULT@@", 1)[1])
    r["keys"] = set(r["keys"])
    for b in r["bad"]:
        b["env"] = dict(extra_env)
        b["why"] = f"[interpreter started with {' '.join(k + '=' + v for k, v in extra_env.items())}] " + b["why"]
    return r


def _reason_key(why):
    """the kind of failure: the first reason without its numbers -- a shrunk case must fail for the same kind of reason"""
    import re
    first = (why or "").split(" ;; ")[0]
    return re.sub(r"[0-9]+", "#", first)[:48]


def shrink(prop, bad, deadline):
    """greedy minimisation: keep a candidate while it still fails the same way (holds/agree flags)"""
    cur = bad
    improved = True
    while improved and time.time() < deadline:
        improved = False
        for cand in prop.shrink_candidates(cur["case"]):
            if time.time() > deadline:
                break
            try:
                io, mo, v = prop.evaluate(cand)
            except Exception:
                continue
            if (not v.holds) == (not cur["holds"]) and (not v.agree) == (not cur["agree"]) and not (v.agree and v.holds) \
                    and _reason_key(v.why) == _reason_key(cur["why"]):
                cur = {"case": cand, "impl": io, "model": mo, "agree": v.agree, "holds": v.holds, "why": v.why,
                       "shrunk_from": bad["case"] if "shrunk_from" not in cur else cur["shrunk_from"]}
                improved = True
                break
    return cur


def write_replay(pid, seed, n, kind, bad, broken=None):
    # runs against another tree (seeded mutants) keep their replays apart from those about /repo
    rdir = "replays" if os.path.realpath(core.REPO) == os.path.realpath("/repo") else "replays_scratch"
    os.makedirs(os.path.join(core.VERIF, rdir), exist_ok=True)
    rel = os.path.join(rdir, f"{pid}-{seed}-{n}.json")
    with open(os.path.join(core.VERIF, rel), "w") as fh:
        json.dump({"property": pid, "kind": kind, "case": _strip(bad["case"]), "impl_output": bad["impl"],
                   "model_output": bad["model"], "agree": bad["agree"], "holds": bad["holds"], "why": bad["why"],
                   "broken": broken, "shrunk_from": _strip(bad.get("shrunk_from", {})) or None,
                   "env": {**(bad.get("env") or {}), "PYTHONHASHSEED": os.environ.get("PYTHONHASHSEED", "0")},
                   "seed": seed, "repo_head": core.repo_head()}, fh, indent=1, default=str)
    return rel


def run_check(prop_factory, tier):
    t0 = time.time()
    prop = prop_factory()
    pid = prop.pid
    seed = core.seed_from_env()
    ok, msg, bt = core.lake_build()
    if not ok:
        print(f"INFRA: lake build failed (the Lean sources do not depend on /repo):\n{msg}")
        return 2
    thms = core.audit_property(pid)
    forb = core.grep_forbidden()
    if forb:
        print("INFRA: forbidden tokens in Lean sources:\n" + "\n".join(forb)); return 2
    bad_ax = [t for t in thms if not t["ok"]]
    if bad_ax:
        print(f"INFRA: theorem(s) depend on non-standard axioms: {bad_ax}"); return 2

    lc = None
    if tier == "thorough" and os.environ.get("VERIF_NO_LEANCHECKER") != "1":
        lc = core.leancheck(pid)
        if not lc["ok"]:
            print(f"INFRA: leanchecker rejected the compiled proofs of {pid}:\n{lc['output']}"); return 2

    nshards = prop.thorough_shards if tier == "thorough" else prop.quick_shards
    seconds = prop.thorough_seconds if tier == "thorough" else prop.quick_seconds
    seconds = float(os.environ.get("VERIF_SECONDS", seconds))
    # source map: functions of the working tree that differ from the revision the model was written against; a property
    # anchored in a file that changed gets three times the generation budget (nothing changes on the unchanged tree)
    from . import srcmap
    changed = srcmap.changed_functions()
    mult = srcmap.boost(pid, changed)
    # source facts: the model's tables re-derived from the working tree and checked by the Lean kernel (harness/srcfacts.py)
    from . import srcfacts
    try:
        sf = srcfacts.check(pid)
    except core.Infra as e:
        print(f"INFRA: {e}"); return 2
    except Exception:
        print("INFRA: source facts could not be generated: " + traceback.format_exc()[-1500:]); return 2
    if sf["failed_for_property"]:
        mult = max(mult, 3)
    seconds *= mult
    args = [(prop_factory, tier, seed, s, nshards, seconds) for s in range(nshards)]
    opt_env = {"PYTHONOPTIMIZE": "1"}
    child = None
    if not sys.flags.optimize and os.environ.get("VERIF_NO_OPT_SHARD") != "1":
        # one extra shard (its own random stream, generated cases only, half the budget) in an interpreter without asserts
        child = run_shard_subprocess(pid, "quick", seed, nshards + 1, nshards + 2, max(2.0, seconds / 2), opt_env)
    if nshards == 1:
        results = [run_shard(args[0])]
    else:
        with mp.get_context("fork").Pool(nshards) as pool:
            results = pool.map(run_shard, args)
    opt_result = None
    if child is not None:
        opt_result = collect_subprocess(child, opt_env)
        results = results + [opt_result]
    errs = [r["error"] for r in results if r["error"]]
    if errs:
        print("INFRA: " + errs[0]); return 2

    evaluations = sum(r["evaluations"] for r in results)
    keys = set(k for r in results for k in r["keys"])
    tags = {}
    for r in results:
        for t, c in r["tags"].items():
            tags[t] = tags.get(t, 0) + c
    bads = [b for r in results for b in r["bad"]]
    samples = [s for r in results for s in r["samples"]][:4]

    prop.setup()
    violations = 0
    known_hit = {}
    for r in results:
        for kid, c in r["known"].items():
            known_hit[kid] = known_hit.get(kid, 0) + c
    exit_code = 0
    n_replay = 0
    failing = [b for b in bads if not b["holds"]]
    disagree = [b for b in bads if b["holds"] and not b["agree"]]
    deadline = time.time() + (120 if tier == "thorough" else 30)
    reported = set()
    for b in failing:
        k = match_known(pid, b, prop)
        if k is not None:
            known_hit[k["id"]] = known_hit.get(k["id"], 0) + 1
            continue
        if len(reported) >= 3:
            violations += 1
            continue
        b2 = shrink(prop, b, deadline)
        k2 = match_known(pid, b2, prop)
        if k2 is not None:   # shrinking walked into a known finding: report the unshrunk case
            b2 = b
        sig = core.stable_hash(_strip(b2["case"]))
        if sig in reported:
            continue
        reported.add(sig)
        rel = write_replay(pid, seed, n_replay, "failing-input", b2); n_replay += 1
        print(f"VIOLATION property={pid} replay={rel}")
        print(f"  why: {b2['why'][:600]}")
        violations += 1; exit_code = 1
    if disagree and exit_code == 0:
        # the model no longer describes the code on the compared observables, yet the property (as
        # far as the oracle can judge from the implementation's own output) held on those cases:
        # the property is no longer *shown*.  Report with the first disagreement as the broken tie.
        b = shrink(prop, disagree[0], deadline)
        rel = write_replay(pid, seed, n_replay, "no-failing-input-found", b,
                           broken={"correspondence": prop.pid, "first_difference": b["why"][:2000],
                                   "disagreeing_cases_seen": len(disagree)})
        print(f"  correspondence broken: {b['why'][:600]}")
        print(f"VIOLATION property={pid} replay={rel} no-failing-input-found")
        violations += len(disagree); exit_code = 1
    if sf["failed_for_property"] and exit_code == 0:
        # a table of the model no longer equals the table in the source and the search found no input on which the
        # property fails: the property is no longer shown; the replay names the fact that no longer checks
        f0 = sf["failed_for_property"][0]
        b = {"case": {"source_fact": f0["name"]}, "impl": None, "model": None, "agree": False, "holds": True,
             "why": f"source fact `{f0['name']}` no longer checks ({f0['about']}): {f0['reason']}"}
        rel = write_replay(pid, seed, n_replay, "no-failing-input-found", b,
                           broken={"theorem": f"SourceFacts.{f0['name']}", "generated_file": sf["file"], "statement": f0.get("stmt"),
                                   "all_failed_facts": [x["name"] for x in sf["failed_for_property"]]})
        n_replay += 1
        print(f"  source fact broken: {b['why'][:600]}")
        print(f"VIOLATION property={pid} replay={rel} no-failing-input-found")
        violations += 1; exit_code = 1
    for k in load_known():
        if k.get("property") == pid and k.get("status") == "open" and k["id"] in known_hit:
            print(f"KNOWN-FINDING: property={pid} {k['what_fails']} [{k['id']}; seen {known_hit[k['id']]}x this run]")

    obligations = len(thms)
    discharged = len([t for t in thms if t["ok"]])
    native_thms = [t for t in thms if any("native_decide" in a or a in ("Lean.ofReduceBool", "Lean.trustCompiler") for a in t["axioms"])]
    cov = {
        "obligations": obligations, "discharged": discharged,
        "checker_cmd": f"cd lean && lake build CardVerif && lake env lean CardVerif/Audit/{pid}.lean",
        "trusted_base": ["Lean 4.33 kernel",
                         ("axioms: propext, Classical.choice, Quot.sound (audited per theorem each run)" if not native_thms else
                          f"axioms: propext, Classical.choice, Quot.sound for {len(thms) - len(native_thms)} of the {len(thms)} theorems; "
                          f"{', '.join(t['name'].split('.')[-1] for t in native_thms)} additionally depend on "
                          f"{max(len([a for a in t['axioms'] if 'native_decide' in a]) for t in native_thms)} `native_decide` axioms "
                          "(compiled evaluation of finite tables: trusts the Lean compiler and the native code of CardModel)"),
                         "hand-written Lean model tied to /repo by the differential correspondence run below",
                         *prop.trusted_base],
        "theorems": thms,
        "nonvacuity": (lambda w: {"what": "property theorems applied to a concrete non-degenerate instance all of whose hypotheses "
                                          "are proved (lean/CardVerif/Props/Witness/*.lean, built with the library)",
                                  "theorems_with_witness": len([t for t in thms if t["name"].split(".")[-1] in w or
                                                                any(x.endswith(t["name"].split(".")[-1]) for x in w)]),
                                  "of": len(thms)})(set(core.witnessed(pid))),
        "evaluations": evaluations, "distinct_nontrivial": len(keys),
        "rule": prop.rule, "samples": samples,
        "exhaustive": bool(tier == "thorough" and any(r["exh_cases"] for r in results)),
        "exhaustive_scope_cases": sum(r["exh_cases"] for r in results),
        "corpus_cases": sum(r["corpus"] for r in results),
        "branch_tags": dict(sorted(tags.items())),
        "known_findings_hit": known_hit,
        "disagreements_model_vs_impl": len(disagree), "failing_inputs": len(failing),
        "shards": nshards, "seconds_per_shard": seconds, "lake_build_s": round(bt, 2),
        "repo_head": core.repo_head(),
        "changed_source_functions": (changed if changed is not None else "model_map.json missing"), "budget_multiplier": mult,
        "source_facts": {"what": "tables and constants of the model re-derived from the working tree on this run and checked by the "
                                 "Lean kernel (decide; axioms audited): " + ", ".join(sf["for_property"]),
                         "checked_for_this_property": len(sf["for_property"]), "checked_total": sf["checked"],
                         "failed": [{"name": x["name"], "reason": x["reason"]} for x in sf["failed_for_property"]],
                         "generated_file": sf["file"], "wall_s": sf["wall_s"]},
        "environments": {"default interpreter": f"{nshards} shards (odd shards with logging disabled)",
                         "PYTHONOPTIMIZE=1 (asserts compiled away)": (f"1 extra shard, {opt_result['evaluations']} cases" if opt_result else "not run"),
                         "4 threads at once (pure evaluators only)": sum(r.get("threaded", 0) for r in results)},
        "leanchecker": ({"modules_rechecked": lc["modules"], "ok": lc["ok"], "wall_s": lc["wall_s"]} if lc else "thorough tier only"),
        "explanation": prop.title,
    }
    level = "proof" if (obligations > 0 and discharged == obligations and getattr(prop, "force_level", None) is None) else \
        (getattr(prop, "force_level", None) or "other")
    ev = {"property_id": pid, "tier": tier, "seed": seed, "level": level, "coverage": cov,
          "assumptions": prop.assumptions, "wall_s": round(time.time() - t0, 2), "violations": violations}
    # evidence/ always describes /repo itself; runs against another tree ($CARD_UTILS_REPO, e.g. a seeded worktree)
    # write to evidence_scratch/ so that committed evidence is never overwritten by them
    evdir = "evidence" if os.path.realpath(core.REPO) == os.path.realpath("/repo") else "evidence_scratch"
    os.makedirs(os.path.join(core.VERIF, evdir), exist_ok=True)
    with open(os.path.join(core.VERIF, evdir, f"{pid}.json"), "w") as fh:
        json.dump(ev, fh, indent=1, default=str)
    print(f"{pid} {tier}: {evaluations} cases ({len(keys)} distinct non-trivial), {discharged}/{obligations} theorems, "
          f"{len(failing)} failing, {len(disagree)} disagreeing, exit {exit_code}, {ev['wall_s']} s")
    return exit_code


def run_replay(path, registry):
    with open(path) as fh:
        r = json.load(fh)
    pid = r["property"]
    env = r.get("env") or {}
    if env.get("PYTHONOPTIMIZE") and not sys.flags.optimize:
        # the failure was found in an interpreter without asserts: replay it in one
        import subprocess
        e2 = dict(os.environ); e2["PYTHONOPTIMIZE"] = env["PYTHONOPTIMIZE"]
        return subprocess.run([sys.executable, os.path.join(core.VERIF, "check.py"), "--replay", path], env=e2, cwd=core.VERIF).returncode
    prop = registry[pid]()
    ok, msg, _ = core.lake_build()
    if not ok:
        print("INFRA: lake build failed\n" + msg); return 2
    prop.setup()
    if isinstance(r.get("case"), dict) and r["case"].get("source_fact"):
        from . import srcfacts
        sf = srcfacts.check(pid)
        bad = [x for x in sf["failed_for_property"] if x["name"] == r["case"]["source_fact"]]
        if bad:
            print(json.dumps({"source_fact": bad[0]["name"], "reason": bad[0]["reason"], "about": bad[0]["about"]})[:2000])
            print(f"VIOLATION property={pid} replay={path} no-failing-input-found")
            return 1
        print("replay no longer fails (the source fact checks again)")
        return 0
    if env.get("threads"):
        comp = r["case"].get("companions") or []
        me = {k: v for k, v in r["case"].items() if k not in ("companions", "threads")}
        for _ in range(20):
            b = thread_stress(prop, [me] + comp, threads=int(env["threads"]))
            if b is not None:
                print(json.dumps({"why": b["why"]})[:2000])
                print(f"VIOLATION property={pid} replay={path}")
                return 1
        print("replay no longer fails (20 concurrent rounds)")
        return 0
    io, mo, v = prop.evaluate(r["case"])
    print(json.dumps({"impl": io, "model": mo, "agree": v.agree, "holds": v.holds, "why": v.why}, default=str)[:4000])
    if not (v.agree and v.holds):
        print(f"VIOLATION property={pid} replay={path}" + ("" if not v.holds else " no-failing-input-found"))
        return 1
    print("replay no longer fails")
    return 0
