"""C18: invariance of every evaluator under card order and suit relabelling; canonical form; equity shares.
C20: dealing helpers partition the deck."""
import itertools, random
from fractions import Fraction
from . import core, gin
from .engine import Prop, Verdict
from .p_eval import dense_hand, dense_deal, DECK, SUITS, RANKS
from .poker import FakeRandom

KINDS = ("rank5", "omaha", "holdem", "tiers", "hutch", "split", "layoff", "ricky", "canon", "equity")


def relabel(cards, sigma):
    return [c[0] + sigma[c[1]] for c in cards]


class C18(Prop):
    pid = "C18"
    title = "evaluations invariant under card order and the 24 suit relabellings; canonical form; equity shares"
    rule = ("each case: one evaluator, one dense input, 3 images (random permutation of every card list x random suit "
            "bijection; all 24 bijections in the thorough tier); non-trivial = input has a pair, flush draw or meld; "
            "distinct by (evaluator, input)")
    batch = 300
    trusted_base = ["random.sample replaced by a deterministic sampler for the equity simulation"]
    assumptions = ["inputs are distinct standard cards"]

    def setup(self):
        super().setup()
        import card_utils.games as games
        from card_utils.games.poker.five_card_hand_rank import five_card_hand_rank
        from card_utils.games.poker.community.omaha import utils as ou, brute_force as ob
        from card_utils.games.poker.community.holdem import utils as hu
        from card_utils.games.poker.community.omaha.hutchinson import hi_point_count
        from card_utils.games.gin.rummy import utils as ru
        from card_utils.games.gin.ricky import utils as ku
        import card_utils.games.poker.community.utils as cu
        self.m = dict(games=games, rank5=five_card_hand_rank, ou=ou, ob=ob, hu=hu, hutch=hi_point_count, ru=ru, ku=ku, cu=cu)

    # ---- evaluation of one kind on one input (impl side)
    def A(self, name, v):
        """the argument object handed to the library: a fresh list, or -- `reuse` cases -- one long-lived list per argument
        slot whose content is overwritten in place (a caller that shuffles / edits its own list and evaluates again)"""
        if not getattr(self, "_reuse", False):
            return list(v)
        obj = self.__dict__.setdefault("_hold", {}).setdefault(name, [])
        obj[:] = v
        return obj

    def AA(self, name, vs):
        return [self.A(f"{name}{i}", h) for i, h in enumerate(vs)]

    def ev(self, kind, x):
        m = self.m
        if kind == "rank5":
            return list(m["rank5"](self.A("hand", x["hand"])))
        if kind == "omaha":
            return [list(m["ou"].get_hand_strength_fast(self.A("board", x["board"]), self.A("hand", x["hand"]))),
                    list(m["ob"].brute_force_omaha_hi_rank(self.A("board", x["board"]), self.A("hand", x["hand"])))]
        if kind == "holdem":
            return list(m["hu"].get_hand_strength_fast(self.A("board", x["board"]), self.A("hand", x["hand"])))
        if kind == "tiers":
            f = m["ou"].get_best_hands_fast if x["game"] == "PLO" else m["hu"].get_best_hands_fast
            return [sorted(t) for t in f(self.A("board", x["board"]), self.AA("hands", x["hands"]))]
        if kind == "hutch":
            return m["hutch"](self.A("hand", x["hand"]))
        if kind == "split":
            return m["ru"].split_melds(self.A("hand", x["hand"]))[0]
        if kind == "layoff":
            return [m["ru"].layoff_deadwood(self.A("hand", x["hand"]), self.AA("opp", x["opp"]), stop_on_zero=s)[0] for s in (True, False)]
        if kind == "ricky":
            return m["ku"].hand_points(self.A("hand", x["hand"]))
        if kind == "canon":
            h, mp = m["games"].canonize_hand(self.A("hand", x["hand"]))
            h2, _ = m["games"].canonize_hand(list(h))
            return {"hand": list(h), "map": sorted(mp.items()), "again": list(h2)}
        if kind == "equity":
            fake = FakeRandom(x["samp"][0], x["samp"][1])
            m["cu"].random = fake
            f = m["ou"].sim_omaha_all_in_equity if x["game"] == "PLO" else m["hu"].sim_holdem_all_in_equity
            sh = f(board=self.A("board", x["board"]), hands=self.AA("hands", x["hands"]), deck=self.A("deck", x["deck"]), n=x["n"])
            return [sh[p] for p in range(len(x["hands"]))]
        raise RuntimeError(kind)

    def image(self, kind, x, rng, sigma):
        y = {}
        for k, v in x.items():
            if k in ("hand", "board", "deck"):
                w = relabel(v, sigma)
                if k != "deck":
                    rng.shuffle(w)
                y[k] = w
            elif k in ("hands", "opp"):
                y[k] = []
                for h in v:
                    w = relabel(h, sigma); rng.shuffle(w); y[k].append(w)
                if k == "opp":
                    rng.shuffle(y[k])       # the knocker's melds may be listed in any order (seats, for `hands`, may not)
            else:
                y[k] = v
        return y

    def gen_input(self, rng, kind):
        if kind == "rank5":
            return {"hand": dense_hand(rng)}
        if kind in ("omaha", "holdem"):
            b, h4, h2 = dense_deal(rng)
            return {"board": b, "hand": h4 if kind == "omaha" else h2}
        if kind == "tiers":
            game = rng.choice(["PLO", "NLHE"])
            k = 4 if game == "PLO" else 2
            nh = rng.randrange(2, 5)
            parts = dense_deal(rng, 5, tuple([k] * nh))
            return {"game": game, "board": parts[0], "hands": parts[1:]}
        if kind == "hutch":
            return {"hand": dense_hand(rng, 4)}
        if kind == "split":
            return {"hand": gin.dense_cards(rng, rng.choice([10, 11, 7]))}
        if kind == "layoff":
            if rng.random() < 0.25:
                # two knocker runs of one suit with a one-card gap, the defender holds the gap card (it extends the lower run
                # upwards and the upper run downwards), plus the card beyond one of the far ends
                s = rng.choice(gin.SU); r = rng.randrange(4, 10)
                c = lambda v: gin.R[v] + s
                lo_run = [c(r - 3), c(r - 2), c(r - 1)]; hi_run = [c(r + 1), c(r + 2), c(r + 3)]
                third_rank = rng.choice([x for x in "A23456789TJQK" if gin.RV[x] not in range(r - 4, r + 5)] or ["K"])
                third = [third_rank + su for su in gin.SU if su != s][:3]
                opp = [lo_run, hi_run, third]
                rng.shuffle(opp)
                used = set(lo_run + hi_run + third)
                hand = [c(r)] + ([c(r + 4)] if r + 4 <= 13 and rng.random() < 0.5 else []) + ([c(r - 4)] if r - 4 >= 1 and rng.random() < 0.5 else [])
                pool = [x for x in gin.CARDS if x not in used and x not in hand]
                hand = hand + rng.sample(pool, 10 - len(hand))
                rng.shuffle(hand)
                return {"hand": hand, "opp": opp}
            for _ in range(50):
                ranks = rng.sample("A23456789TJQK", rng.choice([5, 6, 7]))
                sub = [r + s for r in ranks for s in gin.SU]
                kh = rng.sample(sub, 10)
                legal = gin.all_melds(kh)
                if not legal:
                    continue
                opp = []; used = set()
                for m in rng.sample(legal, len(legal)):
                    if not (m & used) and len(opp) < 3:
                        opp.append(sorted(m)); used |= m
                rest = [c for c in sub if c not in kh]
                if len(rest) >= 10:
                    return {"hand": rng.sample(rest, 10), "opp": opp}
            return {"hand": gin.dense_cards(rng, 10), "opp": []}
        if kind == "ricky":
            if rng.random() < 0.5:
                return {"hand": gin.ricky_made_hand(rng)}
            return {"hand": gin.dense_cards(rng, rng.choice([7, 8]))}
        if kind == "canon":
            if rng.random() < 0.4:
                # suits holding equally many cards, all from a few neighbouring ranks around the ace: whatever decides the
                # order of equally long suits has to tell {A,2} from {3,4}, {A} from {2}, {K,A} from {2,3} apart
                k = rng.choice([1, 2, 2, 3]); ns = rng.choice([2, 2, 3, 4])
                pool = rng.choice(["A2345", "A23456", "QKA234", "A234"])
                hand = []
                for su in rng.sample("cdhs", ns):
                    hand += [r + su for r in rng.sample(pool, min(k, len(pool)))]
                rng.shuffle(hand)
                return {"hand": hand}
            return {"hand": dense_hand(rng, rng.choice([2, 3, 4, 5, 7]))}
        if kind == "equity":
            game = rng.choice(["PLO", "NLHE"])
            k = 4 if game == "PLO" else 2
            nh = rng.randrange(2, 4)
            nb = rng.choice([0, 3, 4])
            cs = rng.sample(DECK, nb + k * nh + 12)
            board = cs[:nb]; hands = [cs[nb + i * k: nb + (i + 1) * k] for i in range(nh)]
            return {"game": game, "board": board, "hands": hands, "deck": cs[nb + k * nh:], "n": rng.choice([1, 3, 7]),
                    "samp": [rng.randrange(12), rng.choice([1, 2, 5])]}
        raise RuntimeError(kind)

    def generate(self, rng, tier, shard):
        sigmas = list(itertools.permutations(SUITS))
        while True:
            kind = rng.choice(KINDS)
            x = self.gen_input(rng, kind)
            ss = sigmas if (tier == "thorough" and rng.random() < 0.2) else rng.sample(sigmas, 3)
            yield {"kind": kind, "x": x, "sigmas": ["".join(s) for s in ss], "pseed": rng.randrange(1 << 30),
                   "reuse": rng.random() < 0.4}

    def impl(self, case):
        kind, x = case["kind"], case["x"]
        self._reuse = bool(case.get("reuse"))
        out = {"images": []}
        try:
            out["base"] = self.ev(kind, x)
        except Exception as e:
            out["base"] = "!" + type(e).__name__
        prng = random.Random(case["pseed"])
        for s in case["sigmas"]:
            sigma = dict(zip(SUITS, s))
            y = self.image(kind, x, prng, sigma)
            try:
                out["images"].append({"y": y, "v": self.ev(kind, y)})
            except Exception as e:
                out["images"].append({"y": y, "v": "!" + type(e).__name__})
        return out

    def request(self, case, io):
        kind, x = case["kind"], case["x"]
        if kind == "rank5": return {"op": "rank5", "hands": [x["hand"]]}
        if kind == "omaha": return {"op": "strength", "cases": [[x["board"], x["hand"], x["hand"][:2]]]}
        if kind == "holdem": return {"op": "strength", "cases": [[x["board"], x["hand"] + x["board"][:0] + [c for c in DECK if c not in x["board"] and c not in x["hand"]][:2], x["hand"]]]}
        if kind == "tiers": return {"op": "tiers", "game": x["game"], "board": x["board"], "hands": x["hands"]}
        if kind == "hutch": return {"op": "hutch", "hands": [x["hand"]]}
        if kind == "split": return {"op": "melds", "hand": x["hand"], "max_dw": None, "stop": True}
        if kind == "layoff": return {"op": "multi", "reqs": [{"op": "layoff", "hand": x["hand"], "opp": x["opp"], "stop": s} for s in (True, False)]}
        if kind == "ricky": return {"op": "ricky", "hand": x["hand"]}
        if kind == "canon": return {"op": "canon", "hands": [x["hand"]]}
        if kind == "equity":
            fake = FakeRandom(x["samp"][0], x["samp"][1])
            need = 5 - len(x["board"])
            samples = [fake.sample(x["deck"], need) for _ in range(x["n"])]
            return {"op": "equity", "game": x["game"], "board": x["board"], "hands": x["hands"], "samples": samples}

    def model_value(self, kind, mo):
        if kind == "rank5": return mo["model"][0]
        if kind == "omaha": return [mo["out"][0]["fast"], mo["out"][0]["brute"]]
        if kind == "holdem": return mo["out"][0]["holdem"]
        if kind == "tiers": return [sorted(t) for t in mo["tiers"]] if "tiers" in mo else "!"
        if kind == "hutch": return mo["out"][0]
        if kind == "split": return mo["split"]["dw"]
        if kind == "layoff": return [m.get("dw") for m in mo]
        if kind == "ricky": return mo.get("points")
        if kind == "canon": return mo["out"][0]["hand"]
        if kind == "equity": return [core.unrat(q) for q in mo["shares"]] if "shares" in mo else "!"

    def judge(self, case, io, mo):
        kind, x = case["kind"], case["x"]
        why = []; agree = True; holds = True
        base = io["base"]
        mv = self.model_value(kind, mo)
        if kind == "equity":
            if isinstance(base, str) or isinstance(mv, str):
                agree = isinstance(base, str) and isinstance(mv, str)
                if isinstance(base, str):
                    holds = False; why.append(f"equity simulation failed: {base}")
            else:
                if not all(core.close(a, b) for a, b in zip(base, mv)):
                    agree = False; why.append(f"equity impl {base} model {[float(q) for q in mv]}")
                if min(base) < -1e-12 or abs(sum(base) - 1.0) > 1e-9:
                    holds = False; why.append(f"equity shares {base} are not non-negative summing to one")
        elif kind == "canon":
            if isinstance(base, str):
                holds = False; agree = False; why.append(f"canonize_hand failed {base}")
            else:
                if base["hand"] != mv:
                    agree = False; why.append(f"canonical form impl {base['hand']} model {mv}")
                if base["again"] != base["hand"]:
                    holds = False; why.append(f"canonical form not idempotent: {base['hand']} -> {base['again']}")
                mp = dict(base["map"])
                if sorted(relabel(x["hand"], mp)) != sorted(base["hand"]) or len(set(mp.values())) != len(mp):
                    holds = False; why.append(f"canonical form {base['hand']} is not the hand {x['hand']} under the suit map {mp}")
        else:
            if base != mv:
                agree = False; why.append(f"{kind} impl {base} model {mv}")
        for im in io["images"]:
            v = im["v"]
            if kind == "equity":
                continue
            if kind == "canon":
                ok = (not isinstance(v, str)) and (not isinstance(base, str)) and v["hand"] == base["hand"]
            else:
                ok = v == base
            if not ok:
                holds = False
                why.append(f"{kind}: {x} -> {base if kind != 'canon' else base['hand']} but the suit-relabelled, reordered input "
                           f"{im['y']} -> {v if kind != 'canon' or isinstance(v, str) else v['hand']}")
                break
        cards = x.get("hand") or x.get("board") or []
        nontriv = len({c[0] for c in cards}) < len(cards) or len({c[1] for c in cards}) < min(4, len(cards))
        key = core.stable_hash([kind, x]) if nontriv else None
        return Verdict(agree, holds, " ;; ".join(why[:3]), key, [f"kind={kind}"])


class C20(Prop):
    pid = "C20"
    title = "dealing helpers return a partition of the 52-card deck; too-large gin deals are rejected; deck constants untouched"
    rule = ("random.shuffle replaced by identity, reversal, rotations, riffles and seeded permutations; all (hands, size) with "
            "hands*size <= 52 (sampled in the quick tier, all in the thorough tier), all gin sizes 0..30; non-trivial = "
            "non-identity permutation; distinct by (helper, sizes, permutation)")
    batch = 300
    trusted_base = ["random.shuffle replaced by explicit permutations passed identically to model and implementation"]
    assumptions = []

    def setup(self):
        super().setup()
        import card_utils.deck.utils as du
        import card_utils.deck as deck
        from card_utils.games.poker import util as pu
        from card_utils.games.gin import utils as gu
        from card_utils.games.gin.rummy import utils as ru
        from card_utils.games.gin.ricky import utils as ku
        self.du, self.deck, self.pu, self.gu, self.ru, self.ku = du, deck, pu, gu, ru, ku
        self.const = self.snapshot()

    def snapshot(self):
        d = self.deck
        return repr((d.ranks, d.suits, d.cards, d._cards_rds, d.card_choices, sorted(d.suit_ids.items()), sorted(d.rank_ids.items()),
                     sorted(d.card_id_map.items()), sorted(d.reverse_card_id_map.items()), sorted(d.rank_to_value.items()),
                     sorted(d.value_to_rank.items()), sorted(d.ace_high_rank_to_value.items()), sorted(d.ace_low_rank_to_value.items())))

    def perm_of(self, case):
        rng = random.Random(case["pseed"])
        d = list(DECK)
        mode = case["mode"]
        if mode == 1: d.reverse()
        elif mode == 2: k = case["pseed"] % 52; d = d[k:] + d[:k]
        elif mode == 3: rng.shuffle(d)
        elif mode == 4: d = d[26:] + d[:26]; d = [x for p in zip(d[:26], d[26:]) for x in p]
        return d

    def generate(self, rng, tier, shard):
        while True:
            helper = rng.choice(["hands", "gin", "rummy", "ricky", "deck"])
            nh = rng.randrange(0, 12); nc = rng.randrange(0, 14)
            if nh * nc > 52:
                nc = 52 // max(1, nh)
            c = {"helper": helper, "nh": nh, "nc": nc, "n": rng.randrange(0, 31), "mode": rng.randrange(5), "pseed": rng.randrange(1 << 30)}
            if rng.random() < 0.35:
                h2 = rng.choice(["hands", "gin", "rummy", "ricky", "deck"])
                nh2 = rng.randrange(1, 10); nc2 = rng.randrange(1, 6)
                c["hold"] = {"helper": h2, "nh": nh2, "nc": nc2, "n": rng.randrange(1, 25)}
            yield c

    def exhaustive(self, tier, shard, nshards):
        if tier != "thorough":
            return
        i = 0
        for nh in range(0, 53):
            for nc in range(0, 53):
                if nh * nc <= 52:
                    i += 1
                    if i % nshards == shard:
                        yield {"helper": "hands", "nh": nh, "nc": nc, "n": 0, "mode": 3, "pseed": i}
        for n in range(0, 31):
            i += 1
            if i % nshards == shard:
                yield {"helper": "gin", "nh": 0, "nc": 0, "n": n, "mode": 3, "pseed": i}

    def impl(self, case):
        d = self.perm_of(case)

        idx = [DECK.index(c) for c in d]     # the permutation, by position: what a real shuffle does to whatever it is given

        class Fake:
            def shuffle(_, l):
                assert sorted(l) == sorted(DECK), "the list handed to shuffle is not a fresh copy of the 52-card deck"
                l[:] = [l[i] for i in idx]

            def __getattr__(_, name):
                if name.startswith("__"):
                    raise AttributeError(name)
                return getattr(random.Random(case.get("pseed", 0)), name)
        self.du.random = Fake()

        def deal(c):
            h = c["helper"]
            if h == "deck":
                dk = self.du.random_deck()
                return [dk], {"deck": list(dk)}
            if h == "hands":
                rest, hands = self.pu.deal_random_hands(c["nh"], c["nc"])
                return [rest, hands], {"rest": list(rest), "hands": [list(x) for x in hands]}
            g = self.gu.new_game(c["n"]) if h == "gin" else (self.ru.deal_new_game() if h == "rummy" else self.ku.deal_new_game())
            return g, {k: list(v) for k, v in g.items()}

        def values(raw):
            return [([list(x) if isinstance(x, list) else x for x in v] if isinstance(v, list) else v)
                    for v in (list(raw.values()) if isinstance(raw, dict) else raw)]

        def consume(raw):
            for v in list(raw.values()) if isinstance(raw, dict) else raw:
                if isinstance(v, list):
                    for x in v:
                        if isinstance(x, list):
                            del x[:]
                    del v[:max(1, len(v) // 2)]

        out = {}
        held = None
        try:
            if case.get("hold"):
                # a caller who still holds an earlier deal (a table in play, a deck kept for later) while the next one is
                # made: the earlier result must stay what it was (the same shuffle is used for both deals)
                try:
                    held_raw, _ = deal(case["hold"])
                    held = (held_raw, values(held_raw))
                except Exception:
                    held = None
            raw, out = deal(case)
            if held is not None and values(held[0]) != held[1]:
                out["held_changed"] = "by the next dealing call"
            # the caller owns what a dealing helper returns: draw from / empty the returned containers afterwards;
            # later deals in this process must not be affected (no aliasing of a shared deck)
            consume(raw)
            if held is not None and "held_changed" not in out and values(held[0]) != held[1]:
                out["held_changed"] = "when the owner of the next deal drew cards from it"
            if held is not None:
                consume(held[0])
        except Exception as e:
            out = {"exc": type(e).__name__ + ": " + str(e)[:80]}
        out["const_ok"] = self.snapshot() == self.const
        return out

    def request(self, case, io):
        d = self.perm_of(case)
        h = case["helper"]
        if h == "hands":
            return {"op": "deal", "d": d, "nh": case["nh"], "nc": case["nc"]}
        n = case["n"] if h == "gin" else (10 if h == "rummy" else 7 if h == "ricky" else 0)
        return {"op": "gindeal", "d": d, "n": n}

    def judge(self, case, io, mo):
        why = []; agree = True; holds = True
        h = case["helper"]
        d = self.perm_of(case)
        if not io.get("const_ok"):
            holds = False; why.append("a dealing helper modified the shared deck constants")
        if io.get("held_changed"):
            holds = False
            why.append(f"an earlier deal ({case['hold']['helper']}) still held by its caller was changed {io['held_changed']} "
                       f"({h}): its hands, up-card and stock are no longer the 52 cards it was dealt")
        if h == "deck":
            if io.get("deck") != d:
                holds = False; agree = False; why.append("random_deck did not return the shuffled 52 cards")
        elif h == "hands":
            if "exc" in io:
                holds = False; agree = False; why.append(f"deal_random_hands({case['nh']},{case['nc']}) failed: {io['exc']}")
            else:
                if io["rest"] != mo["rest"] or io["hands"] != mo["hands"]:
                    agree = False; why.append(f"deal impl {io['hands']}/{len(io['rest'])} model {mo['hands']}/{len(mo['rest'])}")
                flat = [c for x in io["hands"] for c in x]
                if len(io["hands"]) != case["nh"] or any(len(x) != case["nc"] for x in io["hands"]):
                    holds = False; why.append(f"{case['nh']} hands of {case['nc']} requested, got sizes {[len(x) for x in io['hands']]}")
                if sorted(flat + io["rest"]) != sorted(DECK):
                    holds = False; why.append("hands + remaining deck are not the 52 cards exactly once")
        else:
            n = case["n"] if h == "gin" else (10 if h == "rummy" else 7)
            fits = 2 * n + 1 < 52
            if ("exc" in io) != ("err" in mo):
                agree = False; why.append(f"gin deal n={n}: impl {io.get('exc')} model {mo.get('err')}")
            if "exc" in io:
                if fits:
                    holds = False; why.append(f"a gin deal of {n} cards fits in one deck but was rejected: {io['exc']}")
            else:
                if not fits:
                    holds = False; why.append(f"a gin deal of {n} cards does not fit in one deck but was dealt")
                else:
                    if "err" not in mo and any(io.get(a) != mo[b] for a, b in (("p1_hand", "p1"), ("p2_hand", "p2"), ("discard", "discard"), ("deck", "deck"))):
                        agree = False; why.append("gin deal differs from the model")
                    allc = io["p1_hand"] + io["p2_hand"] + io["discard"] + io["deck"] if "p1_hand" in io else None
                    if allc is None or len(io["p1_hand"]) != n or len(io["p2_hand"]) != n or len(io["discard"]) != 1 or sorted(allc) != sorted(DECK):
                        holds = False; why.append(f"gin deal n={n}: hands/up-card/stock are not a partition of the deck with sizes {n},{n},1")
        key = core.stable_hash([h, case["nh"], case["nc"], case["n"], case["mode"], case["pseed"] if case["mode"] in (2, 3) else 0]) if case["mode"] != 0 else None
        return Verdict(agree, holds, " ;; ".join(why[:3]), key, [f"helper={h}", f"mode={case['mode']}"])
