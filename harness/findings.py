"""Deviation predicates of the OPEN known findings (known_findings.json names them as <Cxx>.<name>; here
`.` is `_`).  A failing case is matched only if *every* reason the oracle gives carries the finding's
deviation tag, which the oracle attaches only after evaluating the deviation's own defining predicate on
the case (see poker.f5_deviation, p_poker.C03.oracle, ...).  Never matched by property id alone."""
import re


def _all_tagged(why, tag):
    reasons = [r.strip() for r in why.split(" ;; ") if r.strip()]
    # correspondence notes (impl vs model) never start with '[dev:' and never occur for known findings,
    # because the model follows the code as it is
    return bool(reasons) and all(r.startswith(f"[dev:{tag}]") for r in reasons)


def C04_min_reraise_after_call(prop, case, impl, model, why):
    return _all_tagged(why, "C04.min_reraise_after_call")


def C03_preflop_actor_cannot_act(prop, case, impl, model, why):
    return _all_tagged(why, "C03.preflop_actor_cannot_act")


def C13_preflop_actor_cannot_act(prop, case, impl, model, why):
    return _all_tagged(why, "C13.preflop_actor_cannot_act")


def C15_resume_completed_state(prop, case, impl, model, why):
    return _all_tagged(why, "C15.resume_completed_state")
