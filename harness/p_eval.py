"""C05 (five-card rank), later C06/C18: evaluators vs Lean model and spec."""
import itertools, random
from . import core
from .engine import Prop, Verdict

RANKS = "23456789TJQKA"
SUITS = "cdhs"
DECK = [r + s for r in RANKS for s in SUITS]


def cmp(a, b):
    return (a > b) - (a < b)


def dense_hand(rng, k=5, deck=None):
    """k distinct cards from a dense sub-deck: pairs, trips, straights (also across the ace), flushes are the norm"""
    style = rng.randrange(7)
    if deck is None:
        deck = DECK
    if style == 0:
        ranks = rng.sample(RANKS, rng.randrange(2, 5)); pool = [c for c in deck if c[0] in ranks]
    elif style == 1:
        i = rng.randrange(-1, 9)   # window of 6 consecutive ranks, possibly starting at the ace (low)
        win = [RANKS[j % 13] for j in range(i, i + 6)] if i >= 0 else ["A", "2", "3", "4", "5", "6"]
        pool = [c for c in deck if c[0] in win]
    elif style == 2:
        s = rng.sample(SUITS, rng.choice([1, 1, 2])); pool = [c for c in deck if c[1] in s]
    elif style == 3:
        i = rng.randrange(-1, 9)
        win = [RANKS[j % 13] for j in range(i, i + 6)] if i >= 0 else ["A", "2", "3", "4", "5", "K"]
        s = rng.sample(SUITS, 2); pool = [c for c in deck if c[0] in win and c[1] in s]
    elif style == 4:
        pool = [c for c in deck if c[0] in "A2345TJQK"]
    else:
        pool = list(deck)
    if len(pool) < k:
        pool = list(deck)
    return rng.sample(pool, k)


def neighbour(rng, hand):
    """a hand that differs in one card (adjacent rank or other suit): probes kicker / tie-break comparisons"""
    h = list(hand)
    for _ in range(10):
        i = rng.randrange(len(h))
        r, s = h[i][0], h[i][1]
        j = RANKS.index(r)
        nr = RANKS[(j + rng.choice([-1, 1, 0])) % 13]
        ns = rng.choice(SUITS)
        c = nr + ns
        if c not in h:
            h[i] = c
            return h
    return rng.sample(DECK, len(hand))


class C05(Prop):
    pid = "C05"
    title = "five-card rank = the rules' key on every hand; ordering, ties, category, order-independence"
    rule = ("cases are (hand, neighbouring or random second hand, shuffled copy); dense structured sampling in the quick "
            "tier, all C(52,5)=2,598,960 hands (each compared with its successor) in the thorough tier; non-trivial = "
            "hand is not plain high-card; distinct by sorted hand")
    batch = 2000
    quick_seconds = 15
    thorough_seconds = 60
    trusted_base = ["Python tuple comparison = lexicographic comparison of the key lists"]

    def setup(self):
        super().setup()
        from card_utils.games.poker.five_card_hand_rank import five_card_hand_rank
        self.f = five_card_hand_rank

    def generate(self, rng, tier, shard):
        while True:
            h1 = dense_hand(rng)
            h2 = neighbour(rng, h1) if rng.random() < 0.7 else dense_hand(rng)
            p = list(h1); rng.shuffle(p)
            yield {"h1": h1, "h2": h2, "perm": p}

    def exhaustive(self, tier, shard, nshards):
        if tier != "thorough":
            return
        prev = None
        for i, combo in enumerate(itertools.combinations(DECK, 5)):
            if i % nshards != shard:
                continue
            h = list(combo)
            yield {"h1": h, "h2": prev or h, "perm": h[::-1]}
            prev = h

    def impl(self, case):
        out = []
        for h in (case["h1"], case["h2"], case["perm"]):
            try:
                out.append(list(self.f(list(h))))
            except Exception as e:
                out.append("!" + type(e).__name__)
        return out

    def request(self, case, io):
        return {"op": "rank5", "hands": [case["h1"], case["h2"], case["perm"]]}

    def judge(self, case, io, mo):
        why = []; agree = True; holds = True
        for k, name in enumerate(("h1", "h2", "perm")):
            m = mo["model"][k]
            if io[k] != m:
                agree = False; why.append(f"{name}={case[name]}: impl {io[k]} model {m}")
        s1, s2 = mo["spec"][0], mo["spec"][1]
        i1, i2, ip = io
        if isinstance(i1, str) or isinstance(i2, str) or isinstance(ip, str):
            holds = False; why.append(f"a valid five-card hand was rejected: {io}")
        else:
            if i1[0] != s1[0]:
                holds = False; why.append(f"{case['h1']}: category {i1[0]} but the rules say {s1[0]}")
            if cmp(tuple(i1), tuple(i2)) != cmp(s1, s2):
                holds = False; why.append(f"{case['h1']} vs {case['h2']}: tuples {i1} {i2} compare {cmp(tuple(i1), tuple(i2))}, "
                                          f"the rules (keys {s1} {s2}) say {cmp(s1, s2)}")
            if ip != i1:
                holds = False; why.append(f"order dependence: {case['h1']} -> {i1} but {case['perm']} -> {ip}")
        key = "".join(sorted(case["h1"])) if s1[0] != 0 else None
        tags = [f"cat={s1[0]}", "tie" if s1 == s2 and sorted(case["h1"]) != sorted(case["h2"]) else "cmp"]
        return Verdict(agree, holds, "; ".join(why[:4]), key, tags)
