"""C05 (five-card rank), later C06/C18: evaluators vs Lean model and spec."""
import itertools, random
from . import core
from .engine import Prop, Verdict

RANKS = "23456789TJQKA"
SUITS = "cdhs"
DECK = [r + s for r in RANKS for s in SUITS]


def cmp(a, b):
    return (a > b) - (a < b)


def dense_hand(rng, k=5, deck=None):
    """k distinct cards from a dense sub-deck: pairs, trips, straights (also across the ace), flushes are the norm"""
    style = rng.randrange(7)
    if deck is None:
        deck = DECK
    if style == 0:
        ranks = rng.sample(RANKS, rng.randrange(2, 5)); pool = [c for c in deck if c[0] in ranks]
    elif style == 1:
        i = rng.randrange(-1, 9)   # window of 6 consecutive ranks, possibly starting at the ace (low)
        win = [RANKS[j % 13] for j in range(i, i + 6)] if i >= 0 else ["A", "2", "3", "4", "5", "6"]
        pool = [c for c in deck if c[0] in win]
    elif style == 2:
        s = rng.sample(SUITS, rng.choice([1, 1, 2])); pool = [c for c in deck if c[1] in s]
    elif style == 3:
        i = rng.randrange(-1, 9)
        win = [RANKS[j % 13] for j in range(i, i + 6)] if i >= 0 else ["A", "2", "3", "4", "5", "K"]
        s = rng.sample(SUITS, 2); pool = [c for c in deck if c[0] in win and c[1] in s]
    elif style == 4:
        pool = [c for c in deck if c[0] in "A2345TJQK"]
    else:
        pool = list(deck)
    if len(pool) < k:
        pool = list(deck)
    return rng.sample(pool, k)


def neighbour(rng, hand):
    """a hand that differs in one card (adjacent rank or other suit): probes kicker / tie-break comparisons"""
    h = list(hand)
    for _ in range(10):
        i = rng.randrange(len(h))
        r, s = h[i][0], h[i][1]
        j = RANKS.index(r)
        nr = RANKS[(j + rng.choice([-1, 1, 0])) % 13]
        ns = rng.choice(SUITS)
        c = nr + ns
        if c not in h:
            h[i] = c
            return h
    return rng.sample(DECK, len(hand))


class C05(Prop):
    pid = "C05"
    title = "five-card rank = the rules' key on every hand; ordering, ties, category, order-independence"
    rule = ("cases are (hand, neighbouring or random second hand, shuffled copy); dense structured sampling in the quick "
            "tier, all C(52,5)=2,598,960 hands (each compared with its successor) in the thorough tier; non-trivial = "
            "hand is not plain high-card; distinct by sorted hand")
    batch = 2000
    quick_seconds = 15
    thorough_seconds = 60
    trusted_base = ["Python tuple comparison = lexicographic comparison of the key lists"]

    def setup(self):
        super().setup()
        from card_utils.games.poker.five_card_hand_rank import five_card_hand_rank
        self.f = five_card_hand_rank

    def generate(self, rng, tier, shard):
        while True:
            h1 = dense_hand(rng)
            h2 = neighbour(rng, h1) if rng.random() < 0.7 else dense_hand(rng)
            p = list(h1); rng.shuffle(p)
            r = rng.random()
            if r < 0.08:
                # every straight and straight flush (the wheel and broadway included) written in rank order, downwards or
                # upwards, with the ace at either end: the orders a person -- and a shortcut in the code -- would use
                top = rng.randrange(5, 15)
                vals = [top - i for i in range(5)]
                su = rng.choice(SUITS)
                h1 = [RANKS[(v - 2) % 13] + (su if rng.random() < 0.6 else rng.choice(SUITS)) for v in vals]
                if len(set(h1)) == 5:
                    p = h1[::-1] if rng.random() < 0.5 else h1[1:] + h1[:1]
                    if rng.random() < 0.5:
                        h1, p = p, h1
                    h2 = neighbour(rng, h1)
                else:
                    h1 = dense_hand(rng); p = list(h1)
            elif r < 0.2:
                p = sorted(h1, key=lambda c_: RANKS.index(c_[0]), reverse=rng.random() < 0.5)      # or simply sorted by rank
            c = {"h1": h1, "h2": h2, "perm": p}
            if rng.random() < 0.3:
                c["pre"] = rng.randrange(1, 1 << 16)
            yield c

    def exhaustive(self, tier, shard, nshards):
        if tier != "thorough":
            return
        prev = None
        for i, combo in enumerate(itertools.combinations(DECK, 5)):
            if i % nshards != shard:
                continue
            h = list(combo)
            yield {"h1": h, "h2": prev or h, "perm": h[::-1]}
            prev = h

    def pure_call(self, case):
        return list(self.f(list(case["h1"])))

    def impl(self, case):
        out = []
        if case.get("pre"):
            helper_prelude(case["h1"] + case["h2"] + case["perm"], case["pre"])
            malformed_prelude([self.f], [case["h1"], case["h2"], case["perm"]], case["pre"])
        for h in (case["h1"], case["h2"], case["perm"]):
            try:
                out.append(list(self.f(list(h))))
            except Exception as e:
                out.append("!" + type(e).__name__)
        return out

    def request(self, case, io):
        return {"op": "rank5", "hands": [case["h1"], case["h2"], case["perm"]]}

    def judge(self, case, io, mo):
        why = []; agree = True; holds = True
        for k, name in enumerate(("h1", "h2", "perm")):
            m = mo["model"][k]
            if io[k] != m:
                agree = False; why.append(f"{name}={case[name]}: impl {io[k]} model {m}")
        s1, s2 = mo["spec"][0], mo["spec"][1]
        i1, i2, ip = io
        if isinstance(i1, str) or isinstance(i2, str) or isinstance(ip, str):
            holds = False; why.append(f"a valid five-card hand was rejected: {io}")
        else:
            if i1[0] != s1[0]:
                holds = False; why.append(f"{case['h1']}: category {i1[0]} but the rules say {s1[0]}")
            if cmp(tuple(i1), tuple(i2)) != cmp(s1, s2):
                holds = False; why.append(f"{case['h1']} vs {case['h2']}: tuples {i1} {i2} compare {cmp(tuple(i1), tuple(i2))}, "
                                          f"the rules (keys {s1} {s2}) say {cmp(s1, s2)}")
            if ip != i1:
                holds = False; why.append(f"order dependence: {case['h1']} -> {i1} but {case['perm']} -> {ip}")
        key = "".join(sorted(case["h1"])) if s1[0] != 0 else None
        tags = [f"cat={s1[0]}", "tie" if s1 == s2 and sorted(case["h1"]) != sorted(case["h2"]) else "cmp"]
        return Verdict(agree, holds, " ;; ".join(why[:4]), key, tags)


def malformed_prelude(fns, groups, code):
    """Calls the evaluators under test with hands in which one card is malformed ('10h', '', 'Zz', 'A', a number): each such
    call must be refused (whatever the exception), and -- this is the point -- must leave nothing behind that changes the
    answer to the next, valid, call."""
    junk = ["10h", "", "Zz", "A", "h", 7, None, "AhKh"]
    k = 0
    for f in fns:
        for g in groups:
            g = list(g)
            if not g:
                continue
            k += 1
            if not (code >> (k % 16)) & 1:
                continue
            j = (code + k) % len(g)
            bad = g[:j] + [junk[(code + 3 * k) % len(junk)]] + g[j + 1:]
            try:
                f(bad)
            except Exception:
                pass
            # hands that are not hands but that the evaluators may well accept: the same ranks with one card held twice,
            # the same ranks all in one suit (duplicates and all), the hand with a card repeated in another position
            su = g[(code + k) % len(g)][1] if isinstance(g[0], str) and len(g[0]) == 2 else "s"
            for dup in (g[:j] + [g[(j + 1) % len(g)]] + g[j + 1:], [c[0] + su for c in g if isinstance(c, str) and len(c) == 2]):
                if (code >> ((k + 5) % 16)) & 1:
                    try:
                        f(list(dup))
                    except Exception:
                        pass


def helper_prelude(cards, code):
    """Calls the library's public, pure rank/suit helpers on the very cards about to be evaluated, with flag
    combinations chosen by `code` that the evaluators themselves never use (ace low only, duplicates kept, ...).
    These calls have no effect on correct code; an evaluator result that changes after them depends on process
    history (e.g. a memo table keyed too coarsely), which the properties quantifying over every hand exclude."""
    from card_utils.deck import utils as du
    from card_utils.games.gin import utils as gu
    groups = ([cards[i:i + 5] for i in range(0, len(cards), 5)] + [cards]) if cards and isinstance(cards[0], str) else cards
    k = 0
    for g in groups:
        ranks = [c[0] for c in g]
        for ah, al in ((False, True), (True, False), (True, True)):
            for distinct in (False, True):
                for reverse in (False, True):
                    k += 1
                    if (code >> (k % 16)) & 1:
                        try:
                            du.ranks_to_sorted_values(ranks, aces_high=ah, aces_low=al, distinct=distinct, reverse=reverse)
                        except Exception:
                            pass
            for suit in "cdhs":
                k += 1
                if (code >> (k % 16)) & 1:
                    try:
                        gu.rank_straights(ranks, aces_high=ah, aces_low=al, suit=suit)
                    except Exception:
                        pass
        for f in (du.rank_partition, du.suit_partition):
            try:
                f(list(g))
            except Exception:
                pass


def dense_deal(rng, nboard=5, sizes=(4, 2)):
    """board + disjoint hands from a dense sub-deck (few ranks / consecutive ranks across the ace / one-two suits)"""
    need = nboard + sum(sizes)
    for _ in range(20):
        style = rng.randrange(8)
        if style == 7:
            # straight-flush textures: a window of seven consecutive ranks (across the ace too) in ONE suit plus the same ranks
            # in one other suit -- several straights through the same hole cards, of which only some are straight flushes
            i = rng.randrange(-1, 8)
            win = [RANKS[j] for j in range(i, min(13, i + 7))] if i >= 0 else ["A", "2", "3", "4", "5", "6", "7"]
            s2 = rng.sample(SUITS, 2)
            pool = [c for c in DECK if c[0] in win and c[1] in s2]
        elif style == 0:
            ranks = rng.sample(RANKS, rng.randrange(3, 6)); pool = [c for c in DECK if c[0] in ranks]
        elif style == 1:
            i = rng.randrange(-1, 8)
            win = [RANKS[j] for j in range(i, min(13, i + 7))] if i >= 0 else ["A", "2", "3", "4", "5", "6", "7"]
            pool = [c for c in DECK if c[0] in win]
        elif style == 2:
            s = rng.sample(SUITS, 2); pool = [c for c in DECK if c[1] in s]
        elif style == 3:
            pool = [c for c in DECK if c[0] in "A2345TJQK"]
        elif style == 4:
            s = rng.choice(SUITS); win = rng.sample(RANKS, 9)
            pool = [c for c in DECK if c[1] == s or c[0] in win[:3]]
        else:
            pool = list(DECK)
        if len(pool) >= need:
            cs = rng.sample(pool, need)
            out = [cs[:nboard]]
            k = nboard
            for sz in sizes:
                out.append(cs[k:k + sz]); k += sz
            return out
    cs = rng.sample(DECK, need)
    return [cs[:nboard], cs[nboard:nboard + sizes[0]], cs[nboard + sizes[0]:]]


class C06(Prop):
    pid = "C06"
    title = "Omaha (fast and brute force) and Hold'em strength = best legal five-card hand (2+3 / any 5 of 7)"
    rule = ("structured deals from dense sub-decks (paired/tripled boards, flush boards, straight windows across the ace, "
            "quads), board 5 + Omaha hand 4 + Hold'em hand 2 pairwise disjoint; thorough: 16 shards x 4 min of the same plus "
            "uniform deals; non-trivial = best Omaha hand is at least a pair; distinct by sorted (board, hand)")
    batch = 800
    quick_seconds = 25
    trusted_base = ["Python tuple comparison = lexicographic comparison of key lists",
                    "omaha_fast_eq_spec / omaha_fast_eq_brute / omaha_fast_sym additionally trust the Lean compiler and the native code of "
                    "the CardModel library: the two finite tables (10,995,985 suit-free rank patterns, 503,217 flush patterns) are closed by "
                    "`native_decide` in 70 chunks (axioms CardVerif.OmahaD.tabR_*/tabF_*._native.native_decide.ax_1_1, listed per theorem "
                    "below); the decomposition, order-independence, covering and assembly lemmas are kernel-checked"]
    assumptions = ["board and hands are distinct standard cards, pairwise disjoint"]

    def setup(self):
        super().setup()
        from card_utils.games.poker.community.omaha import utils as ou, brute_force as ob
        from card_utils.games.poker.community.holdem import utils as hu, brute_force as hb
        self.ou, self.ob, self.hu, self.hb = ou, ob, hu, hb

    def generate(self, rng, tier, shard):
        while True:
            b, h4, h2 = dense_deal(rng)
            if rng.random() < 0.3:
                rng.shuffle(b); rng.shuffle(h4)
            c = {"board": b, "h4": h4, "h2": h2}
            if rng.random() < 0.25:
                c["pre"] = rng.randrange(1, 1 << 16)
            r = rng.random()
            if r < 0.3:
                c["ckind"] = rng.choice([1, 2, 2, 3])
            elif r < 0.55:
                c["reuse"] = True
            yield c

    def exhaustive(self, tier, shard, nshards):
        """thorough: ALL suit-free Omaha rank patterns (board rank multiset x hand rank multiset, at most four of a
        rank in total; 10,995,985 of them), suits assigned so that no three board cards share a suit (no flush, no
        straight flush possible).  Only with VERIF_C06_FULL=1 (about 25 min on 14 cores); otherwise every 16th pattern."""
        if tier != "thorough":
            return
        import os
        stride = 1 if os.environ.get("VERIF_C06_FULL") == "1" else 16
        idx = -1
        for bm in itertools.combinations_with_replacement(range(13), 5):
            bc = [0] * 13
            for r in bm:
                bc[r] += 1
            if max(bc) > 4:
                continue
            for hm in itertools.combinations_with_replacement(range(13), 4):
                ok = True
                for r in set(hm):
                    if bc[r] + hm.count(r) > 4:
                        ok = False; break
                if not ok:
                    continue
                idx += 1
                if idx % stride != 0 or (idx // stride) % nshards != shard:
                    continue
                used = {}
                cnt = [0, 0, 0, 0]
                board = []
                for r in bm:
                    av = [x for x in range(4) if x not in used.setdefault(r, set())]
                    x = min(av, key=lambda y: cnt[y])
                    used[r].add(x); cnt[x] += 1
                    board.append(RANKS[r] + SUITS[x])
                hand = []
                for r in hm:
                    av = [x for x in range(4) if x not in used.setdefault(r, set())]
                    x = av[0]; used[r].add(x)
                    hand.append(RANKS[r] + SUITS[x])
                yield {"board": board, "h4": hand, "h2": hand[:2], "_nobrute": True}

    def pure_call(self, case):
        return [list(self.ou.get_hand_strength_fast(list(case["board"]), list(case["h4"]))),
                list(self.hu.get_hand_strength_fast(list(case["board"]), list(case["h2"])))]

    def impl(self, case):
        def run(f, *a):
            try:
                return list(f(*a))
            except Exception as e:
                return "!" + type(e).__name__
        b, h4, h2 = list(case["board"]), list(case["h4"]), list(case["h2"])
        kind = case.get("ckind", 0)
        if kind:
            # hands as the documented `set` (or a tuple / frozenset); the board as a tuple for kind 1
            mk = [list, tuple, set, frozenset][kind]
            h4, h2 = mk(h4), mk(h2)
            if kind == 1:
                b = tuple(b)
        elif case.get("reuse"):
            # a caller that keeps one board list and one hand list and overwrites them in place between evaluations
            objs = self.__dict__.setdefault("_objs", {"b": [], "h4": [], "h2": []})
            objs["b"][:] = b; objs["h4"][:] = h4; objs["h2"][:] = h2
            b, h4, h2 = objs["b"], objs["h4"], objs["h2"]
        if case.get("pre"):
            malformed_prelude([lambda x: self.ou.get_hand_strength_fast(list(case["board"]), x),
                               lambda x: self.ou.get_hand_strength_fast(x, list(case["h4"])),
                               lambda x: self.hu.get_hand_strength_fast(list(case["board"]), x),
                               lambda x: self.ob.brute_force_omaha_hi_rank(list(case["board"]), x)],
                              [case["h4"], case["board"], case["h2"], case["h4"]], case["pre"])
            lb, l4, l2 = list(case["board"]), list(case["h4"]), list(case["h2"])
            helper_prelude([lb, l4, l2, lb + l4, lb + l2] + [[c for c in lb if c[1] == s] for s in "cdhs"]
                           + [[c for c in lb + l4 if c[1] == s] for s in "cdhs"], case["pre"])
        if case.get("_nobrute"):   # exhaustive scope: the optimised evaluator against model and spec only
            return {"fast": run(self.ou.get_hand_strength_fast, b, h4), "brute": None,
                    "holdem": run(self.hu.get_hand_strength_fast, b, h2), "hbrute": None}
        return {"fast": run(self.ou.get_hand_strength_fast, b, h4), "brute": run(self.ob.brute_force_omaha_hi_rank, b, h4),
                "holdem": run(self.hu.get_hand_strength_fast, b, h2), "hbrute": run(self.hb.brute_force_holdem_rank, b, h2)}

    def request(self, case, io):
        return {"op": "strength", "cases": [[case["board"], case["h4"], case["h2"]]]}

    def judge(self, case, io, mo):
        m = mo["out"][0]
        why = []; agree = True; holds = True
        for k, mk in (("fast", "fast"), ("brute", "brute"), ("holdem", "holdem"), ("hbrute", "holdem")):
            if io[k] is not None and io[k] != m[mk]:
                agree = False; why.append(f"{k}: impl {io[k]} model {m[mk]}")
        for k, sk, what in (("fast", "ospec", "optimised Omaha"), ("brute", "ospec", "brute-force Omaha"),
                            ("holdem", "hspec", "Hold'em"), ("hbrute", "hspec", "brute-force Hold'em")):
            if io[k] is not None and io[k] != m[sk]:
                holds = False
                why.append(f"{what} strength of board {case['board']} hand {case['h4'] if 'Omaha' in what else case['h2']} is {io[k]}, "
                           f"the best legal five-card hand has key {m[sk]}")
        key = "".join(sorted(case["board"])) + "|" + "".join(sorted(case["h4"])) if m["ospec"][0] >= 1 else None
        return Verdict(agree, holds, " ;; ".join(why[:4]), key, [f"omaha-cat={m['ospec'][0]}", f"holdem-cat={m['hspec'][0]}"])
