"""Shared machinery: locating the repo, building and driving the Lean model, evidence, verdicts."""
import json, os, re, subprocess, sys, time, hashlib, random, importlib
from fractions import Fraction

VERIF = os.path.dirname(os.path.dirname(os.path.abspath(__file__)))
LEAN_DIR = os.path.join(VERIF, "lean")
DRIVER = os.path.join(LEAN_DIR, ".lake", "build", "bin", "cvdriver")
REPO = os.environ.get("CARD_UTILS_REPO", "/repo")
GUARD = "CARD_UTILS_VERIF"

ALLOWED_AXIOMS = {"propext", "Classical.choice", "Quot.sound"}
# The only use of `native_decide` (compiled evaluation, trusted via Lean.ofReduceBool / Lean.trustCompiler or the
# per-theorem `._native.native_decide.ax_*` axioms) is in the finite Omaha tables of C06 (Proofs/OmahaTab*.lean);
# it is accepted for that property's theorems only and is named in its evidence and in DESIGN.md.
NATIVE_OK = {"C06": re.compile(r"^(Lean\.ofReduceBool|Lean\.trustCompiler|CardVerif\.OmahaD\.tab[RF]_[0-9_]+\._native\.native_decide\.ax[0-9_]*)$")}
NATIVE_FILES = re.compile(r"^CardVerif/Proofs/OmahaTab\w*\.lean$")


class Infra(Exception):
    """harness / build infrastructure failure -> exit 2"""


def import_repo():
    """import card_utils from the repository's *working tree* and refuse anything else"""
    os.environ.setdefault(GUARD, "1")
    if REPO not in sys.path:
        sys.path.insert(0, REPO)
    import card_utils
    here = os.path.realpath(os.path.dirname(card_utils.__file__))
    want = os.path.realpath(os.path.join(REPO, "card_utils"))
    if here != want:
        raise Infra(f"card_utils imported from {here}, expected {want}")
    return card_utils


def repo_head():
    try:
        h = subprocess.run(["git", "-C", REPO, "rev-parse", "HEAD"], capture_output=True, text=True).stdout.strip()
        d = subprocess.run(["git", "-C", REPO, "status", "--porcelain", "--untracked-files=no"], capture_output=True, text=True).stdout.strip()
        return h + ("+dirty" if d else "")
    except Exception:
        return "unknown"


def lake_build(targets=("CardVerif", "cvdriver")):
    """(re)build the Lean library (all proofs) and the native driver; a 0.2 s no-op when fresh"""
    t0 = time.time()
    p = subprocess.run(["lake", "build", *targets], cwd=LEAN_DIR, capture_output=True, text=True)
    if p.returncode != 0:
        return False, (p.stdout + p.stderr)[-4000:], time.time() - t0
    return True, "", time.time() - t0


def run_driver(lines, timeout=3600):
    """send request dicts to the Lean model driver, return list of response dicts (same order)"""
    if not lines:
        return []
    if not os.path.exists(DRIVER):
        raise Infra("cvdriver not built")
    data = "\n".join(json.dumps(l, separators=(",", ":")) for l in lines) + "\n"
    p = subprocess.run([DRIVER], input=data, capture_output=True, text=True, timeout=timeout)
    if p.returncode != 0:
        raise Infra(f"cvdriver exited {p.returncode}: {p.stderr[-2000:]}")
    out = [json.loads(x) for x in p.stdout.splitlines() if x.strip()]
    if len(out) != len(lines):
        raise Infra(f"cvdriver answered {len(out)} lines for {len(lines)} requests")
    for i, o in enumerate(out):
        if isinstance(o, dict) and "driver_error" in o:
            raise Infra(f"cvdriver could not parse request {i}: {o['driver_error']} :: {json.dumps(lines[i])[:400]}")
    return out


def run_driver_parallel(lines, procs=8, timeout=3600):
    if len(lines) < 2000 or procs <= 1:
        return run_driver(lines, timeout)
    from concurrent.futures import ThreadPoolExecutor
    n = len(lines)
    chunk = (n + procs - 1) // procs
    parts = [lines[i:i + chunk] for i in range(0, n, chunk)]
    with ThreadPoolExecutor(len(parts)) as ex:
        outs = list(ex.map(lambda p: run_driver(p, timeout), parts))
    return [o for part in outs for o in part]


# ---------------------------------------------------------------- values

def frac_of_float(x):
    """exact rational value of a Python float / int"""
    return Fraction(x)


def ratj(x):
    f = Fraction(x)
    return [f.numerator, f.denominator]


def unrat(j):
    return Fraction(j[0], j[1])


def close(a, b, tol=1e-9):
    """payout floats vs exact rationals: relative tolerance 1e-9 (the property says 'up to rounding')"""
    a = float(a); b = float(b)
    return abs(a - b) <= tol * max(1.0, abs(a), abs(b))


def seed_from_env():
    try:
        return int(os.environ.get("VERIF_SEED", "0"))
    except ValueError:
        return 0


def stable_hash(obj):
    return hashlib.sha1(json.dumps(obj, sort_keys=True, default=str).encode()).hexdigest()[:16]


# ---------------------------------------------------------------- lean audit

def audit_property(pid):
    """run Audit/<pid>.lean; returns list of {name, axioms, ok}.  Every property theorem must depend
    only on the three standard axioms."""
    path = os.path.join(LEAN_DIR, "CardVerif", "Audit", f"{pid}.lean")
    if not os.path.exists(path):
        return []
    p = subprocess.run(["lake", "env", "lean", path], cwd=LEAN_DIR, capture_output=True, text=True)
    txt = p.stdout + p.stderr
    if p.returncode != 0:
        raise Infra(f"audit of {pid} failed: {txt[-2000:]}")
    res = []
    import re
    # messages look like: 'Name' depends on axioms: [a, b]   |   'Name' does not depend on any axioms
    for m in re.finditer(r"'([^']+)' (does not depend on any axioms|depends on axioms: \[([^\]]*)\])", txt, re.S):
        axs = [a.strip() for a in (m.group(3) or "").replace("\n", " ").split(",") if a.strip()]
        extra = [a for a in axs if a not in ALLOWED_AXIOMS]
        nat = NATIVE_OK.get(pid)
        res.append({"name": m.group(1), "axioms": axs, "ok": all(nat is not None and nat.match(a) for a in extra)})
    return res


def witnessed(pid):
    """property theorems of `pid` that are applied to a concrete, non-degenerate instance in Props/Witness/*.lean
    (non-vacuity: all hypotheses proved for that instance); returns sorted theorem names"""
    names = set()
    wdir = os.path.join(LEAN_DIR, "CardVerif", "Props", "Witness")
    if not os.path.isdir(wdir):
        return []
    for f in sorted(os.listdir(wdir)):
        if f.endswith(".lean"):
            txt = open(os.path.join(wdir, f), encoding="utf-8").read()
            for m in re.finditer(r"\b(C\d\d)[bc]?\.([A-Za-z_][\w']*(?:\.[A-Za-z_][\w']*)*)", txt):
                if m.group(1) == pid:
                    names.add(m.group(2))
    return sorted(names)


def property_modules(pid):
    """the project's own modules (CardVerif.*, CardModel.*) that Audit/<pid>.lean transitively imports"""
    seen, todo = [], [f"CardVerif.Audit.{pid}"]
    while todo:
        m = todo.pop()
        if m in seen:
            continue
        path = os.path.join(LEAN_DIR, *m.split(".")) + ".lean"
        if not os.path.exists(path):
            continue
        seen.append(m)
        for line in open(path, encoding="utf-8"):
            mm = re.match(r"\s*import\s+((CardVerif|CardModel)\.[\w.]+)", line)
            if mm:
                todo.append(mm.group(1))
    return sorted(m for m in seen if not m.startswith("CardVerif.Audit."))


def leancheck(pid, timeout=3000):
    """thorough tier: replay the declarations of every project module the property's theorems depend on through
    `leanchecker`, the toolchain's independent re-checker of compiled .olean files (imports outside the project -- Lean
    core, Std, Mathlib -- are loaded, not re-checked).  Modules whose theorems were closed by `native_decide` carry
    compiled-evaluation axioms that the re-checker accepts as axioms, like the kernel does."""
    mods = property_modules(pid)
    if not mods:
        return {"modules": 0, "ok": True, "wall_s": 0.0, "output": ""}
    t0 = time.time()
    p = subprocess.run(["lake", "env", "leanchecker", *mods], cwd=LEAN_DIR, capture_output=True, text=True, timeout=timeout)
    return {"modules": len(mods), "ok": p.returncode == 0, "wall_s": round(time.time() - t0, 1),
            "output": (p.stdout + p.stderr)[-1500:]}


def grep_forbidden():
    """no sorry/admit/axiom/native_decide/... in the Lean sources (comments excluded crudely)"""
    import re
    bad = []
    pat = re.compile(r"\b(sorry|admit|native_decide|bv_decide|implemented_by|unsafe)\b|^\s*axiom\s|maxHeartbeats\s+0\b")
    walk = [x for d in ("CardVerif", "CardModel") for x in os.walk(os.path.join(LEAN_DIR, d))]
    for root, _, files in walk:
        for f in files:
            if not f.endswith(".lean"):
                continue
            rel = os.path.relpath(os.path.join(root, f), LEAN_DIR)
            in_block = False
            for i, line in enumerate(open(os.path.join(root, f), encoding="utf-8")):
                s = line
                if in_block:
                    if "-/" in s:
                        in_block = False
                        s = s.split("-/", 1)[1]
                    else:
                        continue
                if "/-" in s:
                    before, rest = s.split("/-", 1)
                    if "-/" in rest:
                        s = before + rest.split("-/", 1)[1]
                    else:
                        in_block = True
                        s = before
                s = s.split("--", 1)[0]
                mm = pat.search(s)
                if mm and mm.group(1) == "native_decide" and NATIVE_FILES.match(rel):
                    continue
                if mm:
                    bad.append(f"{os.path.relpath(os.path.join(root, f), LEAN_DIR)}:{i+1}: {line.strip()[:120]}")
    return bad


# ---------------------------------------------------------------- watchdog

class Hang(Exception):
    """the implementation did not return within the time limit (treated as a failure of the call)"""


class time_limit:
    """with time_limit(2.0): ...  -- raises Hang inside the block if it runs longer (main thread of a process only)"""

    def __init__(self, seconds):
        self.seconds = seconds

    def __enter__(self):
        import signal, threading
        self.active = threading.current_thread() is threading.main_thread()
        if self.active:
            def handler(signum, frame):
                raise Hang(f"no return within {self.seconds} s")
            self.old = signal.signal(signal.SIGALRM, handler)
            signal.setitimer(signal.ITIMER_REAL, self.seconds)
        return self

    def __exit__(self, *a):
        import signal
        if self.active:
            signal.setitimer(signal.ITIMER_REAL, 0)
            signal.signal(signal.SIGALRM, self.old)
        return False
