"""Poker trace harness: drives the real CommunityGameState subclasses, records observations, and provides the
Python renderings of the Lean specs (Spec/BettingRules.lean, Spec/Legality.lean) used as oracles on the
implementation's own states."""
import copy, logging, random
from fractions import Fraction
from . import core

logging.disable(logging.CRITICAL)

TYPES = ("CHECK", "BET", "FOLD", "CALL", "RAISE")


class FakeRandom:
    """replacement for the `random` module object inside card_utils modules: deterministic `sample`"""

    def __init__(self, off=0, step=0):
        self.off, self.step, self.i = off, step, 0

    def sample(self, pop, k):
        pop = list(pop)
        if k > len(pop):
            raise ValueError("Sample larger than population or is negative")
        if k == 0:
            return []
        r = [pop[(self.off + self.i * self.step + j) % len(pop)] for j in range(k)]
        self.i += 1
        return r

    def __getattr__(self, name):
        # anything else asked of `random` gets the real thing, seeded per case (see gin.FakeShuffle)
        if name.startswith("__"):
            raise AttributeError(name)
        import random as _r
        rr = self.__dict__.get("_real")
        if rr is None:
            rr = self.__dict__["_real"] = _r.Random(1000 * self.off + self.step)
        return getattr(rr, name)


def classes():
    from card_utils.games.poker.community.holdem.nl.game_state import NLHEGameState
    from card_utils.games.poker.community.omaha.plo.game_state import PLOGameState
    return {"NLHE": NLHEGameState, "PLO": PLOGameState}


def install_sampler(fake):
    import card_utils.games.poker.community.game_state as cgs
    cgs.random = fake
    fake.i = 0


SHARED = None     # C16, sequential pass: {("blinds", values): the one list object every table with these blinds is seated from}


def cfg_kwargs(case):
    f = float(Fraction(*case["f"]))
    blinds = (list(case["blinds"]) if case["blinds"] is not None else None)
    if SHARED is not None and blinds is not None:
        # a casino that keeps one blinds list per stake level and seats every table of that level from it
        blinds = SHARED.setdefault(("blinds", tuple(blinds)), blinds)
    deck = list(case["deck"]); stacks = list(case["stacks"])
    if SHARED is not None:
        # ... and one deck list per deal, one stack list per line-up: duplicate tables (the same deal played at two tables, the
        # same line-up seated again) are built from the very same objects
        deck = SHARED.setdefault(("deck", tuple(deck)), deck)
        stacks = SHARED.setdefault(("stacks", tuple(stacks)), stacks)
    return dict(num_players=case["n"], deck=deck, starting_stacks=stacks,
                hands=[list(h) for h in case["hands"]], boards=[list(case.get("board") or [])],
                ante=case["ante"], blinds=blinds,
                all_in_runouts=case["runouts"], rake_fraction=f, max_rake=case["cap"])


def decoy_table(case, kw):
    """a caller that keeps ONE blinds list as its table configuration and seats tables of different sizes from it: before
    the game under test another table (heads-up if the test table is not, three-handed if it is) is set up from the very
    same blinds object and thrown away.  A constructor must not write to the list it is given."""
    try:
        cls = classes()[case["game"]]
        k = 2 if case["game"] == "NLHE" else 4
        n2 = 3 if case["n"] == 2 else 2
        cards = [r + s_ for r in "23456789TJQKA" for s_ in "cdhs"]
        cls(num_players=n2, deck=cards[n2 * k:], starting_stacks=[1000] * n2, hands=[cards[i * k:(i + 1) * k] for i in range(n2)],
            boards=[[]], ante=0, blinds=kw["blinds"])
    except Exception:
        pass


def scribble_dict(d):
    """a result dict handed to the caller (payouts, rake report) used by him as his own ledger: every figure is overwritten"""
    try:
        for k in list(d):
            d[k] = (d[k] if isinstance(d[k], (int, float)) else 0) + 7
    except Exception:
        pass


def new_game(case):
    cls = classes()[case["game"]]
    fake = FakeRandom(*case.get("samp", [0, 0]))
    install_sampler(fake)
    kw = cfg_kwargs(case)
    if case.get("hostile") and kw.get("blinds") is not None:
        decoy_table(case, kw)
        install_sampler(fake)
    g = cls(**kw)
    g._cv_fake = fake
    g._cv_peek = bool(case.get("peek"))
    g._cv_hostile = bool(case.get("hostile"))
    g._cv_twostep = bool(case.get("twostep"))
    g._cv_kw = kw          # the very argument objects the game was built from
    if case.get("via_resume") and not case.get("resume_at"):
        g = resumed(g, case)
    return g


def resumed(g, case):
    """the same state, but as an object built through the documented resume parameters of the constructor (C15: such an
    object behaves identically from then on), with the two seat-keyed mappings written in another key order than 0..n-1 --
    a caller may have saved them in betting order.  Completed hands and states without a seat to act cannot be resumed
    (finding F9) and are returned as they are."""
    vr = case.get("via_resume")
    if not vr or g.action is None or g.is_complete:
        return g
    cls = type(g)
    kw = g._cv_kw
    n = g.num_players
    order = list(range(n)); order = order[vr % n:] + order[:vr % n]
    if vr % 2:
        order.reverse()
    pb = {p: g.pot.balances[p] for p in order if p in g.pot.balances}
    la = {p: g.last_actions[p] for p in order if p in g.last_actions}
    if vr % 3 == 0:
        # a store that writes one entry per seat: seats that have not acted this street are there with an explicit None
        la = {p: g.last_actions.get(p) for p in order}
    install_sampler(g._cv_fake)
    try:
        h = cls(num_players=n, deck=list(g.deck), starting_stacks=list(kw["starting_stacks"]), hands=kw["hands"],
                boards=[list(g.boards[0])], ante=kw["ante"], blinds=list(g.blinds), stacks=list(g.stacks), action=g.action,
                street=g.street, actions=list(g.actions), last_actions=la, pot_balances=pb, all_in_runouts=kw["all_in_runouts"],
                rake_fraction=kw["rake_fraction"], max_rake=kw["max_rake"])
    except Exception as e:
        # the constructor refused the fields of a reachable in-progress state: play goes on with the original object and the
        # refusal is reported by the judge
        g._cv_resume_exc = f"{type(e).__name__}: {str(e)[:100]} (seat to act {g.action}, street {g.street})"
        return g
    h._cv_fake = g._cv_fake; h._cv_peek = g._cv_peek; h._cv_kw = kw; h._cv_hostile = getattr(g, "_cv_hostile", False)
    h._cv_twostep = getattr(g, "_cv_twostep", False)
    return h


def read_valid(g):
    va = g.valid_actions
    out = sorted(va)
    if getattr(g, "_cv_hostile", False) and isinstance(va, (set, list)):
        va.clear()          # the caller strikes off the options as he renders them: the set he was handed is his
    return out


def observe(g):
    n = g.num_players
    if getattr(g, "_cv_peek", False) and not g.is_complete:
        try:
            g.pot.get_rake_per_player(g.should_rake_pot())     # read-only on correct code
            g.pot.get_max_total_rake() if hasattr(g.pot, "get_max_total_rake") else None
        except Exception:
            pass

    def attempt(fn):
        try:
            return fn()
        except Exception:
            return "!"
    o = {
        "stacks": list(g.stacks), "pot": [g.pot.balances.get(p) for p in range(n)], "street": g.street,
        "action": g.action, "board": list(g.boards[0]), "deck": list(g.deck),
        "last": [g.last_actions.get(p) for p in range(n)], "complete": bool(g.is_complete),
        "pay": [g.payouts.get(p) for p in range(n)] if g.payouts else None,
        "rake": [g.rake_paid.get(p) for p in range(n)] if g.rake_paid else None,
        "log": [[a.player, a.action, a.amount] for a in g.actions],
        "toCall": attempt(lambda: g.amount_to_call), "minBet": attempt(lambda: g.min_bet),
        "maxBet": attempt(lambda: g.max_bet), "valid": attempt(lambda: read_valid(g)),
        "closed": attempt(lambda: bool(g.is_action_closed())),
        "pnl": attempt(lambda: (lambda d: [d[p] for p in range(n)] if all(d[p] == g.player_pnl(p) for p in range(n)) else "!")(g.pnl)),
    }
    return o


def digest(o):
    """the parts of an observation a rejected action must leave unchanged"""
    return (tuple(o["stacks"]), tuple(o["pot"]), o["street"], o["action"], tuple(o["board"]), tuple(o["deck"]),
            tuple(o["last"]), o["complete"], str(o["pay"]), str(o["rake"]), len(o["log"]))


def apply_op(g, op):
    """returns ('ok'|'rej'|'internal', exception text)"""
    install_sampler(g._cv_fake)
    p, t, a = op
    before = (list(g.stacks), dict(g.pot.balances), len(g.actions), dict(g.last_actions))
    try:
        with core.time_limit(3.0):
            if getattr(g, "_cv_twostep", False):
                # the documented two-step form of a move (`act` = `append_action` + `advance_action`), with what a client
                # does between the halves: it re-reads the figures it displays and fires off a wager that is refused
                g.append_action(player=p, action=t, amount=a)
                for q in ("amount_to_call", "min_bet", "max_bet", "valid_actions", "pot_sized_bet"):
                    try:
                        getattr(g, q)
                    except Exception:
                        pass
                try:
                    g.append_action(player=p, action="RAISE", amount=10 ** 30)      # far beyond any stack: refused
                except Exception:
                    pass
                g.advance_action()
            else:
                g.act(player=p, action=t, amount=a)
        return "ok", ""
    except core.Hang as e:
        return "internal", f"Hang: act({p!r}, {t!r}, {a!r}) {e}"
    except Exception as e:
        # a rejection happens before anything is recorded; an exception after the action was recorded (log, chips
        # or last action changed) is a failure inside the engine on an accepted action
        after = (list(g.stacks), dict(g.pot.balances), len(g.actions), dict(g.last_actions))
        kind = "internal" if after != before else "rej"
        return kind, f"{type(e).__name__}: {str(e)[:100]}"


def run_ops(case, shared_from=None):
    """execute case['ops'] on a fresh implementation object; returns the observation record.
    `shared_from`: an earlier game of the same case -- the new object is then built from the very deck and hands objects
    that game was built from (a caller that keeps its deal and plays / replays it again)."""
    rec = {"steps": []}
    try:
        with core.time_limit(3.0):
            if shared_from is None:
                g = new_game(case)
            else:
                cls = classes()[case["game"]]
                fake = FakeRandom(*case.get("samp", [0, 0])); install_sampler(fake)
                kw = cfg_kwargs(case)
                kw["deck"] = shared_from._cv_kw["deck"]; kw["hands"] = shared_from._cv_kw["hands"]
                if shared_from._cv_kw.get("blinds") is not None and kw.get("blinds") == list(case["blinds"] or []):
                    kw["blinds"] = shared_from._cv_kw["blinds"]          # ... and the same table configuration objects
                kw["starting_stacks"] = shared_from._cv_kw["starting_stacks"]
                g = cls(**kw)
                g._cv_fake = fake; g._cv_peek = bool(case.get("peek")); g._cv_kw = kw; g._cv_twostep = bool(case.get("twostep"))
    except Exception as e:
        rec["ctor"] = {"err": type(e).__name__, "msg": str(e)[:100]}
        return rec, None
    rec["ctor"] = observe(g)
    fork_at = case.get("fork_at")
    forked = None; nreal = 0
    for oi, o in enumerate(case["ops"]):
        if not o.get("probe") and o.get("k") != "reset":
            if case.get("resume_at") and nreal == case["resume_at"] and forked is None:
                g = resumed(g, case)
            if fork_at is not None and forked is None and nreal == fork_at:
                if case.get("fork_mode") == "stale":
                    # play goes on with a deep copy while the original stays behind, frozen in this state (and alive)
                    rec.setdefault("_frozen", []).append(g)
                    g = copy.deepcopy(g)
                    forked = (oi, None)
                else:
                    # a deep copy of the live object (a look-ahead bot, a stored table): continued AFTER the original has been
                    # played to the end, from the same state, with the same injected randomness -- it must behave the same
                    forked = (oi, copy.deepcopy(g))
            nreal += 1
        if o.get("k") == "reset":
            install_sampler(g._cv_fake)
            try:
                own = [[a.player, a.action, a.amount] for a in g.actions]
                if getattr(g, "_cv_hostile", False) and own == [list(x) for x in o["log"]]:
                    # the object's own log, re-applied lazily (an iterator over the live log, not a materialised copy)
                    g.reset_state_from_action_dicts(a.to_dict() for a in g.actions)
                else:
                    g.reset_state_from_action_dicts([{"player": p, "action": t, "amount": a} for p, t, a in o["log"]])
                rec["steps"].append({"r": "ok", "s": observe(g)})
            except Exception as e:
                rec["steps"].append({"r": "internal", "e": f"{type(e).__name__}: {str(e)[:100]}"})
                break
            continue
        if o.get("probe"):
            g2 = copy.deepcopy(g)
            g2._cv_fake = copy.copy(g._cv_fake)
            before = digest(observe(g2))
            r, e = apply_op(g2, o["o"])
            st = {"r": r, "e": e}
            if r == "ok":
                st["s"] = observe(g2)
            else:
                st["unchanged"] = digest(observe(g2)) == before
            rec["steps"].append(st)
        else:
            before = digest(observe(g))
            r, e = apply_op(g, o["o"])
            st = {"r": r, "e": e}
            if r == "ok":
                st["s"] = observe(g)
            else:
                st["unchanged"] = digest(observe(g)) == before
            rec["steps"].append(st)
            if r == "internal":
                break
    rec.pop("_frozen", None)
    if case.get("hostile") and shared_from is None and not case.get("_second"):
        # the caller uses the reports he was handed (payouts, rake paid, a rake preview) as his own records and overwrites
        # them; then the same hand is played once more from the same table objects: it must go exactly as before
        saved = []
        try:
            for d in (g.payouts, g.rake_paid):
                if isinstance(d, dict):
                    saved.append((d, dict(d)))
            scribble_dict(g.payouts); scribble_dict(g.rake_paid)
            scribble_dict(g.pot.get_rake_per_player(False)); scribble_dict(g.pot.get_rake_per_player(bool(g.should_rake_pot())))
        except Exception:
            pass
        try:
            c2 = {k: v for k, v in case.items() if k not in ("fork_at", "fork_mode", "resume_at", "via_resume", "hostile")}
            c2["ops"] = [o for o in case["ops"] if not o.get("probe") and o.get("k") != "reset"]
            c2["_second"] = True
            rec2, _ = run_ops(c2, shared_from=g)
            first = [st for o, st in zip(case["ops"], rec["steps"]) if not o.get("probe") and o.get("k") != "reset"]

            def sig(st):
                s_ = st.get("s") or {}
                return [st["r"], s_.get("stacks"), s_.get("pot"), s_.get("street"), s_.get("action"), s_.get("valid"), s_.get("complete"),
                        [round(x, 6) for x in s_["pay"]] if s_.get("pay") else None, [round(x, 6) for x in s_["rake"]] if s_.get("rake") else None]
            if rec.get("ctor", {}).get("stacks") != rec2.get("ctor", {}).get("stacks") or rec.get("ctor", {}).get("pot") != rec2.get("ctor", {}).get("pot"):
                rec["hostile_diff"] = (f"set up again from the same table objects the hand starts differently: stacks/pot "
                                       f"{rec.get('ctor', {}).get('stacks')}/{rec.get('ctor', {}).get('pot')} then {rec2.get('ctor', {}).get('stacks')}/{rec2.get('ctor', {}).get('pot')}")
            else:
                def same(x, y):
                    sx, sy = sig(x), sig(y)
                    if sx[:7] != sy[:7]:
                        return False
                    for u, v in zip(sx[7:], sy[7:]):       # payouts / rake: floats, equal up to rounding
                        if (u is None) != (v is None):
                            return False
                        if u is not None and not (len(u) == len(v) and all(core.close(p_, q_) for p_, q_ in zip(u, v))):
                            return False
                    return True
                for i, (a, b) in enumerate(zip(first, rec2["steps"])):
                    if not same(a, b):
                        rec["hostile_diff"] = (f"played again after the caller overwrote the result dicts he had been handed, real move {i} "
                                               f"goes differently: {sig(a)} then {sig(b)}")
                        break
        except Exception as e:
            rec["hostile_diff"] = f"playing the hand again from the same table objects failed: {type(e).__name__}: {str(e)[:100]}"
        for d, old in saved:      # (the object handed back to the check shows its own figures again)
            d.clear(); d.update(old)
    if getattr(g, "_cv_resume_exc", None):
        rec["resume_exc"] = g._cv_resume_exc
    if forked is not None and forked[1] is not None:
        oi0, c = forked
        fsteps = []
        for o in case["ops"][oi0:]:
            if o.get("probe") or o.get("k") == "reset":
                fsteps.append(None)
                continue
            r, e = apply_op(c, o["o"])
            st = {"r": r, "e": e}
            if r == "ok":
                st["s"] = observe(c)
            fsteps.append(st)
            if r == "internal":
                break
        rec["fork"] = {"from": oi0, "steps": fsteps}
    return rec, g


def request(case):
    r = {k: case[k] for k in ("game", "n", "deck", "hands", "stacks", "ante", "blinds", "runouts", "f", "cap")}
    r["op"] = "poker"
    r["board"] = case.get("board") or []
    r["samp"] = case.get("samp", [0, 0])
    r["ops"] = [{"k": "reset", "log": o["log"]} if o.get("k") == "reset" else {"o": o["o"], "probe": bool(o.get("probe"))}
                for o in case["ops"]]
    if case.get("resume") is not None:
        r["resume"] = case["resume"]
    if case.get("pre") is not None:
        r["pre"] = case["pre"]
    return r


def model_result(r):
    if r == "ok":
        return "ok"
    if r.startswith("internal:") or r == "dead":
        return "internal"
    return "rej"


# ---------------------------------------------------------------- configuration / play-out generators

def gen_cfg(rng, scope="mixed", huge=False):
    from card_utils.deck import cards as CARDS
    game = rng.choice(["NLHE", "PLO"])
    k = 2 if game == "NLHE" else 4
    n = rng.choice([2, 2, 3, 3, 4, 5, 6, 9]) if scope != "small" else rng.choice([2, 3])
    if scope != "small" and rng.random() < 0.06:
        n = rng.choice([10, 11, 11] if game == "PLO" else [10, 11, 11, 12, 15, 22])     # as many seats as the deck allows (board: 5 more)
    deck = list(CARDS)
    style = rng.randrange(4)
    if style == 0:   # tie-prone: few ranks
        ranks = rng.sample("23456789TJQKA", rng.randrange(6, 10))
        deck = [c for c in deck if c[0] in ranks]
        if len(deck) < n * k + 8:
            deck = list(CARDS)
    rng.shuffle(deck)
    hands = [deck[i * k:(i + 1) * k] for i in range(n)]
    deck = deck[n * k:]
    sb = rng.choice([1, 1, 2, 5, 10])
    bb = rng.choice([sb, 2 * sb, sb + 1])
    ante = rng.choice([0, 0, 0, 1, 2, sb])
    ante = min(ante, bb)
    blinds = [sb, bb]
    if n > 2 and ante and rng.random() < 0.15:
        blinds = []
    elif n == 2 and rng.random() < 0.5:
        blinds = [bb, sb]
    elif rng.random() < 0.05 and ante == 0:
        blinds = None   # default [1, 2]
        sb, bb = 1, 2
    big = max([ante] + (blinds if blinds is not None else [1, 2]))
    pools = [[0, 1, big - 1, big, big + 1, 2 * big, 3 * big + 1], [5 * big, 8 * big, 13 * big, 40 * big],
             [100 * big, 200 * big + 3, 1000 * big]]
    st = rng.randrange(5)
    if scope == "small":
        stacks = [rng.randrange(0, 5) for _ in range(n)]
    elif st == 0:
        stacks = [max(0, rng.choice(pools[0])) for _ in range(n)]
    elif st == 1:
        stacks = [max(0, rng.choice(pools[0] + pools[1])) for _ in range(n)]
    elif st == 2:
        stacks = [rng.choice(pools[1] + pools[2]) for _ in range(n)]
    elif st == 3:
        base = rng.choice(pools[1])
        stacks = [base for _ in range(n)]
    else:
        stacks = [max(0, rng.choice(pools[0] + pools[1] + pools[2])) for _ in range(n)]
    board = []
    if rng.random() < 0.12 and len(deck) >= 10:
        kb = rng.choice([3, 4, 5])
        board = deck[:kb]; deck = deck[kb:]
    if rng.random() < 0.05 and len(deck) > 8:
        # a stub deck: exactly the cards the board still needs, or a card or two more (a rigged / replayed deal)
        need = 5 - len(board)
        deck = deck[:need + rng.choice([0, 0, 1, 2, 4])]
    raked = rng.random() < 0.4
    f = rng.choice([0.05, 0.1, 0.3, 0.5, 0.7, 1.0, 0.29]) if raked else 0.0
    cap = rng.choice([0, 1, 3, 10, 10**6]) if raked else 0
    cfg = {"game": game, "n": n, "deck": deck, "hands": hands, "stacks": stacks, "board": board, "ante": ante,
           "blinds": blinds, "runouts": rng.choice([1, 1, 2, 3]), "f": core.ratj(f), "cap": cap,
           "samp": [rng.randrange(0, 60), rng.choice([0, 1, 5, 7])]}
    if rng.random() < 0.25:
        cfg["peek"] = True      # a client that previews the rake on the live pot between actions (a read-only query)
    if rng.random() < 0.3:
        cfg["hostile"] = True   # a caller that edits what it is handed and keeps one table configuration (see run_ops)
    if rng.random() < 0.3:
        cfg["twostep"] = True   # moves made as append_action + queries + a refused wager + advance_action (see apply_op)
    if rng.random() < 0.25:
        cfg["via_resume"] = rng.randrange(1, 12)
        cfg["resume_at"] = rng.choice([0, 0, 1, 2, 3, 4, 6])
    if rng.random() < 0.3:
        cfg["fork_at"] = rng.choice([0, 0, 1, 2, 3, 5, 8])
        cfg["fork_mode"] = rng.choice(["late", "stale"])
    if rng.random() < 0.05 and not cfg.get("hostile"):
        # deep tables: ten-digit stacks over ordinary blinds (all figures stay far below 2^53, so the float side is exact too):
        # a one-chip difference between two ten-digit contributions is still a difference
        D = rng.choice([10 ** 9, 10 ** 10, 3 * 10 ** 12])
        cfg["stacks"] = [x + D for x in stacks]
        cfg["deep"] = True
    elif huge and not raked and rng.random() < 0.06:
        # chip counts beyond 2^53: the integer side of the engine (stacks, contributions, what is owed, the legal bet sizes)
        # must stay exact; payouts and pnl are floats by design and are NOT judged on such tables (C04 only)
        K = 3 * 10 ** 15 + 1
        cfg["stacks"] = [x * K for x in stacks]
        cfg["ante"] = ante * K
        cfg["blinds"] = [b * K for b in blinds] if blinds is not None else None
        cfg["huge"] = True
    return cfg


def legal_options(g):
    """what the implementation itself offers (used only to steer play-outs)"""
    opts = []
    try:
        va = sorted(g.valid_actions)
    except Exception:
        return opts
    for a in va:
        if a in ("CHECK", "FOLD"):
            opts.append((a, 0))
        elif a == "CALL":
            opts.append((a, None))
        elif a in ("BET", "RAISE"):
            try:
                lo, hi = g.min_bet, g.max_bet
            except Exception:
                continue
            if 0 < lo <= hi:
                opts.append((a, (lo, hi)))
    return opts


POLICIES = ("random", "minraise", "caller", "allin", "folder", "checkcall", "potty")


def choose(rng, g, policy):
    opts = legal_options(g)
    if not opts:
        return None
    by = {a: v for a, v in opts}
    aggr = [a for a in ("BET", "RAISE") if a in by]

    def sized(a, how):
        lo, hi = by[a]
        if how == "min":
            return lo
        if how == "max":
            return hi
        return rng.choice([lo, hi, rng.randint(lo, hi), min(hi, lo + 1), max(lo, hi - 1)])
    r = rng.random()
    if policy == "minraise" and aggr and r < 0.85:
        a = aggr[-1]; return (a, sized(a, "min"))
    if policy == "allin" and aggr and r < 0.8:
        a = aggr[-1]; return (a, sized(a, "max"))
    if policy == "caller" and r < 0.9:
        if "CALL" in by: return ("CALL", None if rng.random() < 0.5 else g.amount_to_call)
        if "CHECK" in by: return ("CHECK", 0 if rng.random() < 0.5 else None)
    if policy == "checkcall":
        if "CALL" in by: return ("CALL", None)
        if "CHECK" in by: return ("CHECK", None)
    if policy == "folder" and "FOLD" in by and r < 0.7:
        return ("FOLD", None if rng.random() < 0.5 else 0)
    if policy == "potty" and aggr and r < 0.7:
        a = aggr[-1]; return (a, sized(a, "any"))
    a, v = rng.choice(opts)
    if a in ("BET", "RAISE"):
        return (a, sized(a, "any"))
    if a == "CALL" and rng.random() < 0.4:
        return (a, g.amount_to_call)
    if a in ("CHECK", "FOLD") and rng.random() < 0.4:
        return (a, None)
    return (a, v)


def probe_candidates(rng, g, hist):
    n = g.num_players
    p = g.action if g.action is not None else 0
    try:
        stack = g.stacks[p]; m = max(g.pot.balances.values()); owedfull = m - g.pot.balances[p]
        owed = min(stack, owedfull); pot = sum(g.pot.balances.values())
    except Exception:
        stack = owed = pot = 0
    bb = hist.bb; lr = hist.last_raise
    bal = sorted(g.pot.balances.values(), reverse=True)
    gap = bal[0] - bal[1] if len(bal) > 1 else 0
    amts = {None, 0, 1, -1, owed - 1, owed, owed + 1, stack - 1, stack, stack + 1, bb, bb - 1, bb + 1,
            owed + bb, owed + bb - 1, owed + lr, owed + lr - 1, owed + lr + 1, owed + gap, owed + gap - 1,
            2 * owed + pot, 2 * owed + pot + 1, 2 * owed + pot - 1}
    amts = sorted(amts, key=lambda x: (x is None, x if x is not None else 0))
    seats = [p, (p + 1) % n, (p - 1) % n, n, -1]
    types = list(TYPES) + ["DRAW", "XX", "check"]
    out = []
    for _ in range(64):
        q = p if rng.random() < 0.8 else rng.choice(seats)
        t = rng.choice(types) if rng.random() < 0.9 else rng.choice(types[5:])
        a = rng.choice(amts)
        out.append([q, t, a])
    return out


class Hist:
    """spec-side history of the current betting round (Spec/Legality.lean: `lastRaise`)"""

    def __init__(self, ante, blinds):
        self.bb = max([ante, *blinds]) if blinds else ante
        self.has_blinds = any(blinds)
        self.last_raise = 0
        self.street = 0

    def on_accept(self, m_before, m_after, aggressive, street_after):
        if aggressive and m_after > m_before:
            self.last_raise = max(self.last_raise, m_after - m_before)
        if street_after != self.street:
            self.street = street_after
            self.last_raise = 0


def play(rng, case, probes_per_state=3, max_ops=400, policy=None):
    """play the real engine from `case`'s configuration with a policy; fills case['ops']."""
    ops = []
    case["ops"] = ops
    try:
        g = new_game(case)
    except Exception:
        return case
    policy = policy or rng.choice(POLICIES)
    blinds = g.blinds
    hist = Hist(g.ante, blinds)
    steps = 0
    while not g.is_complete and steps < max_ops:
        steps += 1
        if probes_per_state:
            cands = probe_candidates(rng, g, hist)
            for pr in cands[:probes_per_state]:
                ops.append({"o": pr, "probe": True})
        ch = choose(rng, g, policy if rng.random() < 0.8 else "random")
        if ch is None or g.action is None:
            break
        op = [g.action, ch[0], ch[1]]
        m0 = max(g.pot.balances.values())
        r, _ = apply_op(g, op)
        ops.append({"o": op})
        if r != "ok":
            break
        hist.on_accept(m0, max(g.pot.balances.values()), ch[0] in ("BET", "RAISE"), g.street)
    if g.is_complete and probes_per_state:
        ops.append({"o": [0, "CHECK", None], "probe": True})
        ops.append({"o": [g.num_players - 1, "FOLD", 0], "probe": True})
    return case


# ---------------------------------------------------------------- specs on observations (oracles)

def live_seats(o):
    return [p for p in range(len(o["stacks"])) if o["last"][p] != "FOLD" and o["stacks"][p] > 0]


def spec_closed(stacks, pot, last):
    """Spec/BettingRules.lean `Closed`: everybody able to bet has acted since the last raise and matched it"""
    n = len(stacks)
    folded = [last[p] == "FOLD" for p in range(n)]
    nf = n - sum(folded)
    live = [p for p in range(n) if not folded[p] and stacks[p] > 0]
    m = max(pot)
    if nf <= 1:
        return True
    if any(pot[p] != m for p in live):
        return False
    if all(last[p] is not None for p in live):
        return True
    acted = [p for p in range(n) if last[p] is not None and not folded[p]]
    return len(live) == 1 and not acted


def spec_legal(o, game, hist, op):
    """Spec/Legality.lean `Legal` evaluated on an observation `o` of the implementation"""
    q, t, a = op
    if o["complete"]:
        return False
    p = o["action"]
    if p is None or q != p or isinstance(q, bool):
        return False
    if t not in TYPES:
        return False
    if a is not None and (not isinstance(a, int) or isinstance(a, bool)):
        return False
    stack = o["stacks"][p]; m = max(o["pot"]); owed = min(stack, m - o["pot"][p]); pot = sum(o["pot"])
    n = len(o["stacks"])
    bbseat = 0 if n == 2 else 1
    bbopt = o["street"] == 0 and p == bbseat and owed == 0 and hist.has_blinds

    def size(a):
        if a is None or not (0 < a <= stack):
            return False
        if game == "PLO" and a > 2 * owed + pot:
            return False
        if a == stack:
            return True
        return a >= hist.bb and a - owed >= max(hist.bb, hist.last_raise)
    if t == "CHECK":
        return owed == 0 and a in (None, 0)
    if t == "FOLD":
        return owed > 0 and a in (None, 0)
    if t == "CALL":
        return owed > 0 and a in (None, owed)
    if t == "BET":
        return owed == 0 and size(a)
    return (owed > 0 or bbopt) and size(a)


def f5_deviation(o, game, hist, op):
    """the open finding F5: the implementation's minimum re-raise is the gap between the two largest hand
    contributions; a raise that satisfies *that* minimum but not the rule's is the deviation"""
    q, t, a = op
    if t not in ("BET", "RAISE") or a is None or o["action"] != q:
        return False
    p = q
    stack = o["stacks"][p]; m = max(o["pot"]); owed = min(stack, m - o["pot"][p]); pot = sum(o["pot"])
    if owed == 0:
        return False
    bal = sorted(o["pot"], reverse=True)
    impl_min = min(max(bal[0] - bal[1], hist.bb) + owed, stack)
    if not (0 < a <= stack) or a == stack:
        return False
    if game == "PLO" and a > 2 * owed + pot:
        return False
    return impl_min <= a and a - owed < max(hist.bb, hist.last_raise)


def iter_ops(case):
    """generator version of run_ops (non-probe ops only are expected): yields the record after every step"""
    rec = {"steps": []}
    try:
        g = new_game(case)
    except Exception as e:
        rec["ctor"] = {"err": type(e).__name__, "msg": str(e)[:100]}
        yield rec
        return
    rec["ctor"] = observe(g)
    yield rec
    for o in case["ops"]:
        if o.get("probe"):
            g2 = copy.deepcopy(g); g2._cv_fake = copy.copy(g._cv_fake)
            r, e = apply_op(g2, o["o"])
            st = {"r": r}
            if r == "ok":
                st["s"] = observe(g2)
        else:
            r, e = apply_op(g, o["o"])
            st = {"r": r}
            if r == "ok":
                st["s"] = observe(g)
        rec["steps"].append(st)
        yield rec
        if r == "internal" and not o.get("probe"):
            return


def small_configs():
    """complete small scope for the thorough tier: 2-3 seats, stacks <= 3, blinds 1/2 or 1/1, optional ante 1"""
    import itertools
    from card_utils.deck import cards as CARDS
    out = []
    for game in ("NLHE", "PLO"):
        k = 2 if game == "NLHE" else 4
        for n in (2, 3):
            for stacks in itertools.product(range(0, 4), repeat=n):
                if sum(1 for x in stacks if x > 0) < 2:
                    continue
                for blinds in ([1, 2], [1, 1]):
                    for ante in (0, 1):
                        deck = list(CARDS)
                        hands = [deck[i * k:(i + 1) * k] for i in range(n)]
                        out.append({"game": game, "n": n, "deck": deck[n * k:], "hands": hands, "stacks": list(stacks),
                                    "board": [], "ante": ante, "blinds": list(blinds), "runouts": 1, "f": [0, 1], "cap": 0,
                                    "samp": [0, 1]})
    return out


def enumerate_tree(case, max_leaves=400):
    """every action sequence of a small table: DFS over the real engine, trying every type x amount at every state;
    yields one case per maximal path, with the rejected candidates of each node as probes"""
    try:
        root = new_game(case)
    except Exception:
        yield {**case, "ops": []}
        return
    leaves = [0]

    def rec(g, ops):
        if leaves[0] >= max_leaves:
            return
        if g.is_complete or sum(1 for o in ops if not o.get("probe")) > 40:
            leaves[0] += 1
            yield {**case, "ops": list(ops), "_tree": True}
            return
        p = g.action
        stack = g.stacks[p] if p is not None else 0
        cands = []
        for t in TYPES:
            for a in [None] + list(range(0, stack + 2)):
                cands.append([p, t, a])
        accepted = []
        probes = []
        for c in cands:
            g2 = copy.deepcopy(g); g2._cv_fake = copy.copy(g._cv_fake)
            r, _ = apply_op(g2, c)
            if r == "ok":
                accepted.append((c, g2))
            else:
                probes.append({"o": c, "probe": True})
        if not accepted:
            leaves[0] += 1
            yield {**case, "ops": list(ops) + probes, "_tree": True, "_stuck": True}
            return
        # equivalent spellings (amount None vs explicit) lead to the same state: keep one continuation each
        seen = set()
        for c, g2 in accepted:
            sig = (tuple(g2.stacks), tuple(sorted(g2.pot.balances.items())), g2.street, g2.action, tuple(sorted(g2.last_actions.items())), g2.is_complete)
            if sig in seen:
                probes.append({"o": c, "probe": True})
                continue
            seen.add(sig)
        seen = set()
        for c, g2 in accepted:
            sig = (tuple(g2.stacks), tuple(sorted(g2.pot.balances.items())), g2.street, g2.action, tuple(sorted(g2.last_actions.items())), g2.is_complete)
            if sig in seen:
                continue
            seen.add(sig)
            yield from rec(g2, list(ops) + probes + [{"o": c}])
    yield from rec(root, [])
