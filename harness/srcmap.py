"""Source map: which functions of card_utils differ from the revision the Lean model was written against."""
import ast, hashlib, json, os
from . import core


def _strip_doc(node):
    for n in ast.walk(node):
        if isinstance(n, (ast.FunctionDef, ast.AsyncFunctionDef, ast.ClassDef, ast.Module)) and n.body:
            f = n.body[0]
            if isinstance(f, ast.Expr) and isinstance(getattr(f, "value", None), ast.Constant) and isinstance(f.value.value, str):
                n.body = n.body[1:] or [ast.Pass()]
    return node


def function_hashes(repo):
    out = {}
    root = os.path.join(repo, "card_utils")
    for dp, _, files in os.walk(root):
        for f in sorted(files):
            if not f.endswith(".py"):
                continue
            path = os.path.join(dp, f)
            rel = os.path.relpath(path, repo)
            try:
                tree = ast.parse(open(path, encoding="utf-8").read())
            except SyntaxError:
                out[rel + "::<syntax error>"] = "x"
                continue

            def visit(node, prefix):
                for ch in node.body if hasattr(node, "body") else []:
                    if isinstance(ch, (ast.FunctionDef, ast.AsyncFunctionDef)):
                        h = hashlib.sha1(ast.dump(_strip_doc(ch), include_attributes=False).encode()).hexdigest()[:12]
                        out[f"{rel}::{prefix}{ch.name}"] = h
                    elif isinstance(ch, ast.ClassDef):
                        visit(ch, prefix + ch.name + ".")
            visit(tree, "")
            # module / class level statements (constants, class attributes) as one pseudo-function per file
            top = [n for n in ast.walk(tree) if isinstance(n, (ast.Assign, ast.AnnAssign, ast.AugAssign))
                   and getattr(n, "col_offset", 0) <= 4]
            out[f"{rel}::<module-level>"] = hashlib.sha1("".join(ast.dump(n, include_attributes=False) for n in top).encode()).hexdigest()[:12]
    return out


def changed_functions():
    """names of functions of the working tree that differ from model_map.json (added, removed or edited)"""
    path = os.path.join(core.VERIF, "model_map.json")
    if not os.path.exists(path):
        return None
    base = json.load(open(path))["functions"]
    cur = function_hashes(core.REPO)
    return sorted(k for k in set(base) | set(cur) if base.get(k) != cur.get(k))


def anchored_files(pid):
    for line in open(os.path.join(core.VERIF, "properties.jsonl")):
        d = json.loads(line)
        if d["id"] == pid:
            return list(d.get("anchors", {}).get("files", []))
    return []


def boost(pid, changed):
    """3 if a changed function lies in a file the property is anchored in (or in a file imported by everything), else 1"""
    if not changed:
        return 1
    files = set(anchored_files(pid))
    common = {"card_utils/deck/__init__.py", "card_utils/deck/utils.py", "card_utils/util.py"}
    hit = [c for c in changed if c.split("::")[0] in files | common]
    return 3 if hit else 1
