"""Poker properties C01, C03, C04, C07, C13 over traces of the real betting engine vs the Lean model."""
import json
from fractions import Fraction
import random as random_mod
from . import core, poker
from .engine import Prop, Verdict


def eq_num(a, b):
    """impl number (int/float) vs model rational [num,den]"""
    if a is None or b is None:
        return a is None and b is None
    return core.close(a, core.unrat(b))


def cmp_field(name, iv, mv, big=1.0):
    if name in ("pay", "rake", "pnl"):
        if iv is None or mv is None or iv == "!" or isinstance(mv, str):
            return (iv is None and mv is None) or (iv == "!" and isinstance(mv, str))
        if name == "pnl":
            # pnl = payout + stack - starting stack is computed in floats: its rounding error is relative to the largest
            # figure in that sum (a ten-digit stack), not to the result (which may be a third of a chip)
            scale = max([1.0, float(big)] + [abs(float(x)) for x in iv] + [abs(float(core.unrat(y))) for y in mv])
            return len(iv) == len(mv) and all(abs(float(x) - float(core.unrat(y))) <= 1e-9 * scale for x, y in zip(iv, mv))
        return len(iv) == len(mv) and all(eq_num(x, y) for x, y in zip(iv, mv))
    if name in ("toCall", "minBet", "maxBet", "closed"):
        if iv == "!" or isinstance(mv, str):
            return iv == "!" and isinstance(mv, str)
        return iv == mv
    if name == "valid":
        if iv == "!" or isinstance(mv, str):
            return iv == "!" and isinstance(mv, str)
        return sorted(iv) == sorted(mv)
    return iv == mv


def diff_obs(io, mo, fields):
    # (the largest chip figure of the observation: the float error of pnl = payout + stack - starting stack is relative to it)
    big = 1.0
    for k in ("stacks", "pot", "pay"):
        v = io.get(k)
        if isinstance(v, list):
            big = max([big] + [abs(float(x)) for x in v if isinstance(x, (int, float))])
    return [f"{f}: impl={io.get(f)!r} model={mo.get(f)!r}" for f in fields if not cmp_field(f, io.get(f), mo.get(f), big)]


ALL_FIELDS = ("stacks", "pot", "street", "action", "board", "deck", "last", "complete", "pay", "rake", "log",
              "toCall", "minBet", "maxBet", "valid", "closed", "pnl")


class Event:
    __slots__ = ("i", "kind", "op", "prev", "ri", "oi", "rm", "om", "synced", "hist_bb", "hist_lr", "hist_blinds",
                 "unchanged", "exc", "first")


class HistView:
    def __init__(self, bb, lr, hb):
        self.bb, self.last_raise, self.has_blinds = bb, lr, hb


def walk(case, rec, mo):
    """pair implementation and model step records; track the spec-side history on the implementation's states"""
    evs = []
    ci, cm = rec.get("ctor"), mo.get("ctor")
    e = Event(); e.i = -1; e.kind = "ctor"; e.op = None; e.prev = None
    e.ri = "rej" if (ci is None or "err" in ci) else "ok"
    e.rm = "rej" if "err" in cm else "ok"
    e.oi = ci if e.ri == "ok" else None; e.om = cm if e.rm == "ok" else None
    e.synced = True; e.unchanged = None; e.exc = (ci or {}).get("msg", ""); e.first = True
    e.hist_bb = e.hist_lr = 0; e.hist_blinds = False
    evs.append(e)
    if e.ri != "ok":
        return evs
    blinds = case["blinds"] if case["blinds"] is not None else [1, 2]
    hist = poker.Hist(case["ante"], blinds)
    cur = ci
    synced = e.rm == "ok"
    msteps = mo.get("steps", [])
    accepted = 0
    for i, (o, st) in enumerate(zip(case["ops"], rec["steps"])):
        ms = msteps[i] if i < len(msteps) else {"r": "dead"}
        e = Event(); e.i = i; e.op = o.get("o"); e.prev = cur
        e.kind = "reset" if o.get("k") == "reset" else ("probe" if o.get("probe") else "act")
        e.ri = st["r"]; e.rm = poker.model_result(ms["r"]); e.oi = st.get("s"); e.om = ms.get("s")
        e.synced = synced; e.unchanged = st.get("unchanged"); e.exc = st.get("e", "")
        e.hist_bb, e.hist_lr, e.hist_blinds = hist.bb, hist.last_raise, hist.has_blinds
        e.first = accepted == 0
        evs.append(e)
        if e.kind == "act":
            if e.ri == "ok":
                accepted += 1
                hist.on_accept(max(cur["pot"]), max(e.oi["pot"]), e.op[1] in ("BET", "RAISE"), e.oi["street"])
                cur = e.oi
            if e.ri != e.rm:
                synced = False
        elif e.kind == "reset":
            if e.ri == "ok":
                cur = e.oi
                hist = poker.Hist(case["ante"], blinds)   # (round history is rebuilt only approximately after a reset)
                hist.street = cur["street"]
            if e.ri != e.rm:
                synced = False
    return evs


def fork_diff(case, io, fields, compare_results, fmt=None):
    """a deep copy of the live object, continued after the original was played on, must go through the same steps: compared
    on the observables the property owns (and on accept/reject if it owns those)"""
    fk = io.get("fork")
    if not fk:
        return None
    for j, fst in enumerate(fk["steps"]):
        if fst is None:
            continue
        i = fk["from"] + j
        if i >= len(io["steps"]):
            break
        mst = io["steps"][i]
        op = case["ops"][i]
        what = fmt(op) if fmt else op.get("o")
        if compare_results and fst["r"] != mst["r"]:
            return (f"a deep copy taken before step {fk['from']} and continued later: step {i} {what} went {fst['r']} "
                    f"({fst.get('e', '')}) on the copy, {mst['r']} on the original")
        if "s" in fst and "s" in mst:
            for f in fields:
                a, b = fst["s"].get(f), mst["s"].get(f)
                if a != b and not (f in ("pay", "rake", "pnl") and a is not None and b is not None and a != "!" and b != "!"
                                   and len(a) == len(b) and all(core.close(x, y) for x, y in zip(a, b))):
                    return (f"a deep copy taken before step {fk['from']} and continued later differs at step {i} {what}: "
                            f"{f} = {str(a)[:120]} on the copy, {str(b)[:120]} on the original")
        elif ("s" in fst) != ("s" in mst) and compare_results:
            return f"a deep copy taken before step {fk['from']}: step {i} {what} accepted on one object only"
    return None


class PokerProp(Prop):
    batch = 40
    probes = 2
    fields = ALL_FIELDS          # observables this property's correspondence compares
    compare_results = True       # whether accept/reject of operations is compared with the model
    scope = "mixed"
    trusted_base = ["random.sample replaced by a deterministic sampler passed identically to model and implementation",
                    "payout floats compared with exact rationals at relative tolerance 1e-9"]
    assumptions = ["board lists are passed by value (the unchanged engine writes to the caller's board list); deck and hands objects are "
                   "shared between replays on purpose", "ante <= big blind when blinds are posted",
                   "chip counts < 2^53 wherever floats are involved (rake, payouts, pnl); C04 also plays tables beyond 2^53, judged on the "
                   "integer quantities only"]

    huge_stacks = False          # C04: also tables with chip counts beyond 2^53 (integer bet sizing only)

    def gen_case(self, rng):
        case = poker.gen_cfg(rng, self.scope, huge=self.huge_stacks)
        return poker.play(rng, case, probes_per_state=self.probes)

    def generate(self, rng, tier, shard):
        while True:
            yield self.gen_case(rng)

    small_scope = False          # thorough tier: all action trees of the small tables (C03, C04, C13)

    def exhaustive(self, tier, shard, nshards):
        if tier != "thorough" or not self.small_scope:
            return
        cfgs = poker.small_configs()
        for i, cfg in enumerate(cfgs):
            if i % nshards != shard:
                continue
            for case in poker.enumerate_tree(cfg, max_leaves=120):
                yield case

    def impl(self, case):
        rec, _ = poker.run_ops(case)
        return rec

    def request(self, case, io):
        return poker.request(case)

    # -- correspondence on the owned fields
    def correspondence(self, case, evs):
        why = []
        for e in evs:
            if not e.synced:
                break
            if self.compare_results and e.ri != e.rm:
                why.append(f"step {e.i} {e.kind} {e.op}: impl {e.ri} ({e.exc}) / model {e.rm}")
                break
            if e.oi is not None and e.om is not None:
                d = diff_obs(e.oi, e.om, self.fields)
                if d:
                    why.append(f"step {e.i} {e.kind} {e.op}: " + "; ".join(d[:4]))
                    break
        return why

    def oracle(self, case, evs):
        """returns list of reasons the PROPERTY fails on the implementation's own observations"""
        return []

    def key_tags(self, case, evs):
        acts = [e for e in evs if e.kind == "act" and e.ri == "ok"]
        last = acts[-1].oi if acts else None
        tags = [case["game"], f"n={case['n']}", "ante" if case["ante"] else "no-ante",
                "ante-only" if case["blinds"] == [] else "blinds"]
        if last is not None:
            if last["complete"]:
                nf = sum(1 for x in last["last"] if x != "FOLD")
                tags.append("end:foldout" if nf < 2 else ("end:runout" if last["action"] is None else "end:showdown"))
            else:
                tags.append("end:open")
            tags.append(f"street={last['street']}")
        key = None
        if len(acts) >= 2:
            key = core.stable_hash([case["game"], case["stacks"], case["ante"], case["blinds"], [e.op for e in acts]])
        return key, tags

    def judge(self, case, io, mo):
        evs = walk(case, io, mo)
        cw = self.correspondence(case, evs)
        ow = self.oracle(case, evs)
        fd = fork_diff(case, io, self.fields, self.compare_results)
        if fd:
            ow = [fd] + ow
        if io.get("resume_exc"):
            ow = ["the constructor refused the serialisable fields of a reachable in-progress state: " + io["resume_exc"]] + ow
        if io.get("hostile_diff"):
            ow = [io["hostile_diff"]] + ow
        key, tags = self.key_tags(case, evs)
        if case.get("hostile"):
            tags = list(tags) + ["caller-edits-results"]
        if io.get("fork"):
            tags = list(tags) + ["forked"]
        return Verdict(not cw, not ow, " ;; ".join([w[:500] for w in (ow[:6] + cw[:3])]), key, tags)

    def shrink_candidates(self, case):
        ops = case["ops"]
        # drop probes, then truncate from the end
        real = [o for o in ops if not o.get("probe")]
        if len(real) < len(ops):
            for i, o in enumerate(ops):
                if o.get("probe"):
                    yield {**case, "ops": ops[:i] + ops[i + 1:]}
                    break
        for cut in (len(ops) // 2, len(ops) - 1):
            if 0 < cut < len(ops):
                yield {**case, "ops": ops[:cut]}


# ------------------------------------------------------------------------------------------------ C01

class C01(PokerProp):
    pid = "C01"
    title = "chips conserved: stacks+pot constant and non-negative; payouts+rake = pot; pnl sums to -rake"
    fields = ("stacks", "pot", "complete", "pnl")
    compare_results = False
    probes = 1
    rule = ("random configurations (2-9 seats, NLHE/PLO, antes, blinds either order heads-up, ante-only, short and empty "
            "stacks, rake, 1-3 run-outs) played by 7 policies with boundary amounts; equations checked after construction and "
            "after every operation; non-trivial = hand with >= 2 accepted actions; distinct by (config, action sequence)")

    def oracle(self, case, evs):
        why = []
        total = sum(case["stacks"])
        if evs and evs[0].kind == "ctor" and evs[0].ri != "ok" and evs[0].rm == "ok":
            # the forced bets of a valid table (the model posts them: short stacks post what they have) could not be posted
            return [f"a valid table could not be set up: the constructor failed while posting antes / blinds "
                    f"(stacks {case['stacks']}, ante {case['ante']}, blinds {case['blinds']})"]
        for e in evs:
            o = e.oi
            if o is None or e.kind == "probe" and e.ri != "ok":
                continue
            if any(x is None for x in o["pot"]):
                why.append(f"step {e.i}: pot has no entry for some seat"); break
            s = sum(o["stacks"]) + sum(o["pot"])
            if s != total:
                why.append(f"step {e.i} {e.op}: stacks {o['stacks']} + pot {o['pot']} = {s} != starting total {total}"); break
            if min(o["stacks"]) < 0 or min(o["pot"]) < 0:
                why.append(f"step {e.i} {e.op}: negative stack or contribution: {o['stacks']} {o['pot']}"); break
            if o["complete"]:
                if o["pay"] is None or o["rake"] is None or any(x is None for x in o["pay"]):
                    why.append(f"step {e.i}: complete without payouts for every seat"); break
                if not core.close(sum(o["pay"]) + sum(o["rake"]), sum(o["pot"])):
                    why.append(f"step {e.i} {e.op}: payouts {o['pay']} + rake {o['rake']} != pot {sum(o['pot'])}"); break
                if min(o["pay"]) < -1e-9:
                    why.append(f"step {e.i}: negative payout {o['pay']}"); break
                # (rounding of the float pnl figures is relative to the largest figure that went into them -- pnl = payout +
                #  stack - starting stack cancels ten-digit stacks on a deep table --, not to the size of their sum)
                big = max([1.0] + [abs(x) for x in o["pnl"]] + [abs(float(x)) for x in case["stacks"]] + [abs(float(x)) for x in o["pay"]]) \
                    if o["pnl"] != "!" else 1.0
                if o["pnl"] != "!" and abs(sum(o["pnl"]) + sum(o["rake"])) > 1e-9 * big:
                    why.append(f"step {e.i}: pnl {o['pnl']} does not sum to minus the rake {sum(o['rake'])}"); break
        return why


# ------------------------------------------------------------------------------------------------ C03

def after_append(prev, op):
    """the state the round-closure rule looks at: previous observation + the accepted action's effect"""
    p, t, a = op
    stacks = list(prev["stacks"]); pot = list(prev["pot"]); last = list(prev["last"])
    if t in ("CALL", "BET", "RAISE"):
        amt = a if a is not None else min(stacks[p], max(pot) - pot[p])
        stacks[p] -= amt; pot[p] += amt
    last[p] = t
    return stacks, pot, last


class C03(PokerProp):
    pid = "C03"
    small_scope = True
    title = "betting protocol: actor is live, clockwise order, closure rule, fold-out, run-out, 3/1/1 dealing"
    fields = ("street", "action", "board", "deck", "last", "complete", "closed")
    compare_results = False
    probes = 0
    rule = ("as C01; thorough adds small tables (2-3 seats, stacks <= 4); closure/actor/deal rules evaluated on every "
            "state of the real object; non-trivial = hand with >= 2 accepted actions; distinct by (config, action sequence)")

    def oracle(self, case, evs):
        why = []
        n = case["n"]
        utg = 1 if n == 2 else 2
        for e in evs:
            o = e.oi
            if o is None or e.kind in ("probe", "reset"):
                continue
            if e.kind == "ctor":
                if o["street"] != 0 or o["action"] != utg:
                    why.append(f"construction: street {o['street']} action {o['action']}, expected pre-flop on seat {utg}")
                blinds = case["blinds"] if case["blinds"] is not None else [1, 2]
                if n == 2 and len(blinds) >= 2 and blinds[0] < blinds[1]:
                    blinds = [blinds[1], blinds[0]]
                exp = [min(case["stacks"][p], case["ante"]) for p in range(n)]
                for p, b in enumerate(blinds[:n]):
                    exp[p] += min(case["stacks"][p] - exp[p], b)
                if o["pot"] != exp:
                    why.append(f"construction: forced bets {o['pot']}, expected {exp} (big blind on seat {0 if n == 2 else 1})")
                if not o["complete"] and (o["stacks"][o["action"]] == 0):
                    why.append("[dev:C03.preflop_actor_cannot_act] construction: the seat asked to act first is all-in")
                elif spec_closed_obs(o):
                    why.append("[dev:C03.preflop_actor_cannot_act] construction: the opening round is already closed but a seat is asked to act")
                continue
            # accepted action
            prev = e.prev
            p, t, a = e.op
            stacks, pot, last = after_append(prev, e.op)
            closed = poker.spec_closed(stacks, pot, last)
            nonfolded = [q for q in range(n) if last[q] != "FOLD"]
            live = [q for q in nonfolded if stacks[q] > 0]
            if not closed:
                if o["street"] != prev["street"] or o["complete"]:
                    why.append(f"step {e.i} {e.op}: round moved on (street {prev['street']}->{o['street']}, complete={o['complete']}) "
                               f"although a live seat has not acted or matched (stacks {stacks} pot {pot} last {last})")
                    break
                exp = next(((p + k) % n for k in range(1, n + 1) if ((p + k) % n) in live), None)
                if o["action"] != exp:
                    why.append(f"step {e.i} {e.op}: action passed to seat {o['action']}, expected next live seat clockwise {exp}")
                    break
                if o["board"] != prev["board"] or o["deck"] != prev["deck"]:
                    why.append(f"step {e.i} {e.op}: cards moved while the round is still open"); break
            else:
                if o["street"] == prev["street"] and not o["complete"]:
                    why.append(f"step {e.i} {e.op}: round did not close although every live seat has acted and matched "
                               f"(stacks {stacks} pot {pot} last {last})")
                    break
                if len(nonfolded) == 1:
                    if not o["complete"] or o["board"] != prev["board"] or o["deck"] != prev["deck"]:
                        why.append(f"step {e.i} {e.op}: all but one folded but complete={o['complete']} / cards were dealt"); break
                elif len(live) <= 1:
                    if not o["complete"] or o["action"] is not None or o["board"] != prev["board"]:
                        why.append(f"step {e.i} {e.op}: at most one seat can still bet but the hand was not run out at once "
                                   f"(complete={o['complete']} action={o['action']} board={o['board']})")
                        break
                else:
                    if o["complete"]:
                        if prev["street"] != 3 or o["street"] != 4:
                            why.append(f"step {e.i} {e.op}: hand completed from street {prev['street']} with {len(live)} live seats"); break
                    else:
                        if o["street"] != prev["street"] + 1:
                            why.append(f"step {e.i} {e.op}: street jumped {prev['street']}->{o['street']}"); break
                        want = {1: 3, 2: 4, 3: 5}[o["street"]]
                        newc = max(0, want - len(prev["board"]))
                        if o["board"] != prev["board"] + prev["deck"][:newc] or o["deck"] != prev["deck"][newc:]:
                            why.append(f"step {e.i} {e.op}: street {o['street']} board {o['board']} not {want} cards from the top of the deck"); break
                        exp = min(live)
                        if o["action"] != exp:
                            why.append(f"step {e.i} {e.op}: street {o['street']} opens on seat {o['action']}, expected first live seat {exp}"); break
                        if any(x is not None and x != "FOLD" for x in o["last"]):
                            why.append(f"step {e.i}: last actions not reset on the new street: {o['last']}"); break
            if o["complete"]:
                if o["street"] != 4:
                    why.append(f"step {e.i}: complete on street {o['street']}"); break
            else:
                a2 = o["action"]
                if a2 is None or o["last"][a2] == "FOLD" or o["stacks"][a2] == 0:
                    why.append(f"step {e.i} {e.op}: seat asked to act ({a2}) has folded or is all-in"); break
        return why


def spec_closed_obs(o):
    return poker.spec_closed(o["stacks"], o["pot"], o["last"])


# ------------------------------------------------------------------------------------------------ C04

class C04(PokerProp):
    pid = "C04"
    huge_stacks = True
    small_scope = True
    title = "wager legality: accepted iff legal (seat, type, size); rejected actions leave the state unchanged"
    fields = ("toCall", "minBet", "maxBet", "valid", "stacks", "pot")
    compare_results = True
    probes = 8
    batch = 25
    rule = ("every state of random play-outs is probed with 8 candidate actions (right/wrong seat, all types incl. garbage, "
            "amounts one chip either side of every boundary: owed, min-raise, pot, stack, big blind); non-trivial = trace "
            "with >= 2 accepted actions; distinct by (config, ops)")

    def oracle(self, case, evs):
        why = []
        for e in evs:
            if e.kind not in ("probe", "act"):
                continue
            hv = HistView(e.hist_bb, e.hist_lr, e.hist_blinds)
            L = poker.spec_legal(e.prev, case["game"], hv, e.op)
            acc = e.ri == "ok"
            if e.ri == "internal":
                continue   # C13's business
            if acc != L:
                if acc and poker.f5_deviation(e.prev, case["game"], hv, e.op):
                    why.append(f"[dev:C04.min_reraise_after_call] step {e.i}: {e.op} accepted although the largest raise of the round "
                               f"was {hv.last_raise} (state pot {e.prev['pot']} stacks {e.prev['stacks']})")
                else:
                    why.append(f"step {e.i}: {e.op} {'accepted' if acc else 'rejected (' + e.exc + ')'} but it is "
                               f"{'legal' if L else 'illegal'} (seat to act {e.prev['action']}, street {e.prev['street']}, pot {e.prev['pot']}, "
                               f"stacks {e.prev['stacks']}, last raise {hv.last_raise}, big blind {hv.bb})")
                    break
            if not acc and e.unchanged is False:
                why.append(f"step {e.i}: rejected action {e.op} changed the state"); break
            if acc and e.op[1] == "CALL":
                p = e.op[0]
                owed = min(e.prev["stacks"][p], max(e.prev["pot"]) - e.prev["pot"][p])
                moved = e.oi["pot"][p] - e.prev["pot"][p] if not e.oi["complete"] or True else None
                if moved != owed:
                    why.append(f"step {e.i}: call moved {moved} chips, owed {owed}"); break
        return why


# ------------------------------------------------------------------------------------------------ C13

class C13(PokerProp):
    pid = "C13"

    def impl(self, case):
        rec, g = poker.run_ops(case)
        if g is not None and case.get("again"):
            # the same hand played again (and again) from the very deck and hands objects the first game was given: every
            # action that was legal the first time is legal -- and works -- the next time
            cur = g
            for k in range(case["again"]):
                rec2, g2 = poker.run_ops({**case, "ops": [o for o in case["ops"] if not o.get("probe")]}, shared_from=cur)
                sig = lambda st: [st["r"]] + ([st["s"]["board"], st["s"]["deck"], st["s"]["stacks"], st["s"]["pay"]] if "s" in st else [])

                def same(a, b):     # payouts are floats: equal up to rounding (the order of summation may differ)
                    if len(a) != len(b) or a[:4] != b[:4]:
                        return False
                    if len(a) == 5:
                        x, y = a[4], b[4]
                        if (x is None) != (y is None):
                            return False
                        if x is not None and not (len(x) == len(y) and all(core.close(u, v) for u, v in zip(x, y))):
                            return False
                    return True
                first = [sig(st) for o, st in zip(case["ops"], rec["steps"]) if not o.get("probe")]
                again = [sig(st) for st in rec2["steps"]]
                if len(first) != len(again) or not all(same(a, b) for a, b in zip(first, again)) or ("err" in rec2.get("ctor", {})):
                    bad = next((i for i, (a, b) in enumerate(zip(first, again)) if not same(a, b)), min(len(first), len(again)))
                    rec["again_diff"] = (f"game {k + 2} built from the same deck and hands objects: step {bad} gave "
                                         f"{str(again[bad])[:200] if bad < len(again) else 'missing'} ({rec2['steps'][bad].get('e', '') if bad < len(again) else rec2.get('ctor')}), "
                                         f"the first time {str(first[bad])[:200] if bad < len(first) else 'missing'}")
                    break
                if g2 is None:
                    break
                cur = g2
        return rec

    small_scope = True
    title = "progress: a legal action always exists, legal actions never fail internally, hands terminate, complete shape"
    fields = ("complete", "street")
    compare_results = True
    probes = 1
    rule = ("adversarial policies (min-raise wars, all-in storms, call-downs, 9 seats, rake 0.7/1.0 with caps, 3 run-outs, "
            "one-chip and empty stacks); every hand is played to completion; non-trivial = >= 2 accepted actions")

    def judge(self, case, io, mo):
        v = super().judge(case, io, mo)
        if io.get("again_diff"):
            return Verdict(v.agree, False, (io["again_diff"] + (" ;; " + v.why if v.why else ""))[:1500], v.key, v.tags)
        return v

    def oracle(self, case, evs):
        why = []
        n = case["n"]
        bound = (sum(case["stacks"]) + 1) * 5 * (n + 1)
        acts = 0
        last_o = None
        for e in evs:
            if e.ri == "internal":
                hv = HistView(e.hist_bb, e.hist_lr, e.hist_blinds)
                why.append(f"step {e.i}: {e.kind} {e.op} failed inside the engine after being accepted: {e.exc}")
                break
            if e.kind == "ctor":
                last_o = e.oi
                continue
            if e.kind == "act" and e.ri == "ok":
                acts += 1
                last_o = e.oi
            if e.kind in ("act", "probe") and e.prev is not None and e.prev["complete"] and e.ri == "ok":
                why.append(f"step {e.i}: action {e.op} accepted after the hand was complete"); break
            if e.kind in ("act", "probe") and e.prev is not None and not e.prev["complete"]:
                # a legal action must exist at e.prev: CHECK if nothing owed, else FOLD and CALL
                p = e.prev["action"]
                if p is None:
                    why.append(f"step {e.i}: hand in progress but nobody is asked to act"); break
                hv = HistView(e.hist_bb, e.hist_lr, e.hist_blinds)
                L = poker.spec_legal(e.prev, case["game"], hv, e.op)
                if L and e.ri != "ok":
                    why.append(f"step {e.i}: legal action {e.op} was not accepted ({e.ri}: {e.exc})"); break
        if acts > bound:
            why.append(f"{acts} accepted actions exceed the bound {bound}")
        if last_o is not None and last_o["complete"]:
            if last_o["street"] != 4 or last_o["pay"] is None or len(last_o["pay"]) != n or any(x is None for x in last_o["pay"]):
                why.append(f"complete hand has street {last_o['street']} / payouts {last_o['pay']}")
        elif last_o is not None and not why:
            # the play-out stopped although the hand is open: the engine offered no usable action
            # (paths of the exhaustive small-scope trees may be cut at the depth limit: only a node where the engine
            # accepted none of the candidates -- `_stuck` -- counts there)
            real = [e for e in evs if e.kind == "act"]
            if case.get("_tree") and not case.get("_stuck"):
                pass
            elif (real and real[-1].ri == "ok" and len(real) < 400) or case.get("_stuck"):
                why.append("hand still in progress but the engine offered no legal action (valid_actions/min_bet/max_bet unusable)")
        return why

    def gen_case(self, rng):
        case = poker.gen_cfg(rng, self.scope)
        if rng.random() < 0.3:
            case["f"] = core.ratj(rng.choice([0.7, 1.0])); case["cap"] = rng.choice([1, 5, 10**6])
            case["runouts"] = 3
        pol = rng.choice(["minraise", "allin", "caller", "checkcall", "random", "potty"])
        case = poker.play(rng, case, probes_per_state=self.probes, policy=pol)
        if rng.random() < 0.3:
            case["again"] = rng.choice([1, 2, 4])
        return case


# ------------------------------------------------------------------------------------------------ C07

class C07(PokerProp):
    pid = "C07"
    title = "showdown: tiers by true strength, payouts = side-pot settlement under that ranking averaged over run-outs; fold-outs"
    fields = ("pay", "rake", "board", "deck", "complete")
    compare_results = False
    probes = 0
    batch = 30
    rule = ("hands steered to showdown / all-in run-outs (1-3 run-outs, injected samples) / fold-outs on every street, tie-prone "
            "decks, side pots, folded seats between contenders, rake; non-trivial = completed hand with >= 2 contenders; "
            "distinct by (config, actions)")

    def setup(self):
        super().setup()

    def gen_case(self, rng):
        import copy
        case = poker.gen_cfg(rng, self.scope)
        pol = rng.choice(["checkcall", "caller", "allin", "allin", "random", "folder", "potty"])
        sibp = None
        if rng.random() < 0.3:
            # a "sibling" hand played just before in the same process: the same cards under other roles (a seat's hole cards
            # swapped with cards that will come on the board: the same nine / seven cards, split differently; hands rotated;
            # another board) -- what a showdown cache keyed too coarsely would confuse.  It is generated AND played before the
            # target hand is played for the first time (generation itself plays hands on the implementation).
            from .p_iso import sibling
            cfg = {k: copy.deepcopy(v) for k, v in case.items() if k not in ("ops", "fork_at", "fork_mode", "via_resume", "resume_at")}
            cfg["deck"] = list(cfg.get("board") or []) + cfg["deck"]
            cfg["board"] = []
            try:
                if rng.random() < 0.7 and len(cfg["deck"]) >= 5:
                    sib = copy.deepcopy(cfg)
                    i = rng.randrange(cfg["n"])
                    for a, b in zip(rng.sample(range(len(sib["hands"][i])), rng.choice([1, 2])), rng.sample(range(5), 2)):
                        sib["hands"][i][a], sib["deck"][b] = sib["deck"][b], sib["hands"][i][a]
                else:
                    sib = sibling(rng, cfg)
                sib["stacks"] = [max(4, x) for x in sib["stacks"]]
                sibp = poker.play(rng, sib, probes_per_state=0, policy="checkcall")
            except Exception:
                sibp = None
        case = poker.play(rng, case, probes_per_state=0, policy=pol)
        if sibp is not None:
            case["sib"] = sibp
        return case

    def impl(self, case):
        """as PokerProp.impl, but additionally records every board the evaluator was shown"""
        # (the public hook `order_hands(players)` of the game classes is wrapped, not a helper the modules happen to import)
        seen = []
        orig = {}
        for cls in poker.classes().values():
            f = cls.order_hands
            orig[cls] = f

            def wrap(self, players, _f=f):
                try:
                    seen.append([list(self.board), [list(self.hands[p]) for p in players]])
                except Exception:
                    pass
                return _f(self, players)
            cls.order_hands = wrap
        if case.get("sib"):
            try:
                poker.run_ops(case["sib"])
            except Exception:
                pass
            del seen[:]
        try:
            rec, g = poker.run_ops(case)
        finally:
            for cls, f in orig.items():
                cls.order_hands = f
        rec["boards_seen"] = seen
        return rec

    def oracle(self, case, evs):
        # payouts are determined uniquely by the rules (C02/C05/C06 theorems): the comparison with the model on
        # pay / rake IS the judgement; here: structural facts about the run-out boards and fold-outs
        return []

    def judge(self, case, io, mo):
        evs = walk(case, io, mo)
        cw = self.correspondence(case, evs)
        ow = []
        hole = {c for h in case["hands"] for c in h}
        for b, hands in io.get("boards_seen", []):
            if len(b) != 5 or len(set(b)) != 5 or set(b) & hole:
                ow.append(f"the evaluator was shown board {b}: not five distinct cards disjoint from the hole cards"); break
        acts = [e for e in evs if e.kind == "act" and e.ri == "ok"]
        if acts and acts[-1].oi["complete"]:
            o = acts[-1].oi
            nf = [p for p in range(case["n"]) if o["last"][p] != "FOLD"]
            if len(nf) == 1:
                if io.get("boards_seen"):
                    ow.append("a hand won by folds consulted the evaluator")
                flop = len(o["board"]) >= 3
                if not flop and o["rake"] is not None and sum(o["rake"]) != 0:
                    ow.append(f"fold-out before the flop was raked: {o['rake']}")
                if o["pay"] is not None and o["rake"] is not None:
                    exp = sum(o["pot"]) - sum(o["rake"])
                    if not core.close(o["pay"][nf[0]], exp) or any(abs(o["pay"][p]) > 1e-9 for p in range(case["n"]) if p != nf[0]):
                        ow.append(f"fold-out: payouts {o['pay']}, expected the whole pot {exp} to seat {nf[0]}")
            # a payout disagreement with the (proved) model is a violation of the property itself
            if cw and any(("pay:" in w or "rake:" in w) for w in cw):
                ow.append("payouts differ from the settlement of the final contributions under the true ranking: " + cw[0][:400])
        key, tags = self.key_tags(case, evs)
        if not (acts and acts[-1].oi["complete"]):
            key = None
        if io.get("boards_seen") and len(io["boards_seen"]) > 1:
            tags = list(tags) + [f"runouts={len(io['boards_seen'])}"]
        return Verdict(not cw, not ow, " ;; ".join([w[:600] for w in ow[:4] + cw[:2]]), key, tags)


# ------------------------------------------------------------------------------------------------ C15

REBUILD_FIELDS = ("stacks", "pot", "street", "action", "board", "deck", "complete", "pay", "log")


def same_obs(a, b, fields):
    out = []
    for f in fields:
        x, y = a.get(f), b.get(f)
        if f in ("pay", "rake", "pnl") and x is not None and y is not None and x != "!" and y != "!":
            ok = len(x) == len(y) and all(core.close(u, v) for u, v in zip(x, y))
        else:
            ok = x == y
        if not ok:
            out.append(f"{f}: {x!r} vs {y!r}")
    return out


class C15(PokerProp):
    pid = "C15"
    title = "replay from the action log, idempotent re-application, resume from serialisable fields"
    batch = 25
    probes = 0
    rule = ("random traces cut at a random point (also at completion): (a) rebuilt with from_action_dicts, (b) log re-applied "
            "1-3 times to the same object, (c) resumed through the constructor from stacks/pot/street/action/last actions/"
            "board/deck and continued with the same actions and probes; non-trivial = cut after >= 2 actions")

    def gen_case(self, rng):
        case = poker.gen_cfg(rng, self.scope)
        poker.play(rng, case, probes_per_state=0)
        if rng.random() < 0.25 and case["ops"]:
            # take-back: the object is played along line A, rewound with reset_state_from_action_dicts to a prefix of a
            # DIFFERENT line B of the same deal, and then driven along B -- it must behave like a fresh object playing B
            import copy
            alt = {k: copy.deepcopy(v) for k, v in case.items() if k != "ops"}
            poker.play(rng, alt, probes_per_state=0, policy=rng.choice(["minraise", "caller", "random", "potty", "allin"]))
            b_ops = [o for o in alt["ops"] if not o.get("probe")]
            if b_ops:
                m = rng.randrange(0, len(b_ops))
                try:
                    _, gb = poker.run_ops({**alt, "ops": b_ops[:m], "fork_at": None, "resume_at": None})
                    blog = [[a.player, a.action, a.amount] for a in gb.actions] if gb is not None else None
                except Exception:
                    blog = None
                if blog is not None and len(blog) == m:
                    # (line A is cut while the first street is still being played: a reset deliberately keeps the object's
                    # board and deck, so rewinding across a deal is not "the same inputs")
                    a_ops = [o for o in case["ops"] if not o.get("probe")]
                    ka = 0
                    for j in range(1, len(a_ops) + 1):
                        try:
                            _, ga = poker.run_ops({**case, "ops": a_ops[:j], "fork_at": None, "resume_at": None})
                        except Exception:
                            break
                        if ga is None or ga.street != 0 or ga.is_complete or len(ga.actions) != j:
                            break
                        ka = j
                    if ka >= 1:
                        ka = rng.randrange(1, ka + 1)
                        case["ops"] = a_ops[:ka] + [{"k": "reset", "log": blog}] + b_ops[m:]
                        case["fork_at"] = None; case["resume_at"] = None
        ops = case["ops"]
        k = rng.choice([len(ops), len(ops), rng.randrange(0, len(ops) + 1)]) if ops else 0
        if any(o.get("k") == "reset" for o in ops):
            k = len(ops)
        case["cut"] = k
        case["resets"] = rng.choice([1, 2, 3])
        # the action log is not among the serialisable fields the property lists: resume without it in part of the cases
        case["nolog"] = rng.random() < 0.4
        case["share"] = rng.random() < 0.5
        # continuation: the remaining real actions, each preceded by two probes
        cont = []
        prng = random_mod.Random(rng.random())
        for o in ops[k:]:
            q, t, a = o["o"]
            cont.append({"o": [q, prng.choice(poker.TYPES), prng.choice([None, 0, 1, 2, a, (a or 0) + 1])], "probe": True})
            cont.append({"o": [(q + 1) % case["n"], t, a], "probe": True})
            cont.append(o)
        cont.append({"o": [0, "CHECK", None], "probe": True})
        case["cont"] = cont
        return case

    def impl(self, case):
        out = {}
        k = case["cut"]
        base = {**case, "ops": case["ops"][:k]}
        rec, g = poker.run_ops(base)
        out["orig"] = rec
        if g is None or any(st["r"] != "ok" for st in rec["steps"]):
            return out
        S = poker.observe(g)
        out["S"] = S
        # the log as the library itself serialises it (Action.to_dict), passed through a JSON round trip
        log = json.loads(json.dumps([a.to_dict() for a in g.actions]))
        cls = poker.classes()[case["game"]]
        # (a) replay
        try:
            fake = poker.FakeRandom(*case.get("samp", [0, 0])); poker.install_sampler(fake)
            kw = poker.cfg_kwargs(case)
            if case.get("share"):
                # "the same inputs": the very deck and hands objects the original game was built from (the engine only ever
                # rebinds its deck and never writes to the hands, so a caller may keep and reuse them)
                kw["deck"] = g._cv_kw["deck"]; kw["hands"] = g._cv_kw["hands"]
            g2 = cls.from_action_dicts(num_players=kw["num_players"], deck=kw["deck"], hands=kw["hands"],
                                       starting_stacks=kw["starting_stacks"], boards=kw["boards"], ante=kw["ante"],
                                       blinds=kw["blinds"], action_dicts=[dict(d) for d in log],
                                       all_in_runouts=kw["all_in_runouts"], rake_fraction=kw["rake_fraction"], max_rake=kw["max_rake"])
            out["replay"] = poker.observe(g2)
        except Exception as e:
            out["replay"] = {"exc": f"{type(e).__name__}: {str(e)[:100]}"}
        # (b) reset 1..r times on a copy of the object itself
        import copy
        g3 = copy.deepcopy(g); g3._cv_fake = copy.copy(g._cv_fake)
        out["reset"] = []
        for _ in range(case["resets"]):
            try:
                poker.install_sampler(g3._cv_fake)
                g3.reset_state_from_action_dicts([dict(d) for d in log])
                out["reset"].append(poker.observe(g3))
            except Exception as e:
                out["reset"].append({"exc": f"{type(e).__name__}: {str(e)[:100]}"}); break
        # (c) resume from serialisable fields, then the same continuation on both
        try:
            fake = poker.FakeRandom(*case.get("samp", [0, 0])); poker.install_sampler(fake)
            kw = poker.cfg_kwargs(case)
            # the serialisable fields as the library exposes them (state_dict of the seat to act; stacks and deck are not
            # part of that per-player view and are taken from the object), deep-copied as a serialisation would
            from card_utils.games.poker.action import Action as ActionCls
            sd = copy.deepcopy(g.state_dict(g.action if g.action is not None else 0))
            g4 = cls(num_players=sd["num_players"], deck=list(g.deck), starting_stacks=list(sd["starting_stacks"]), hands=kw["hands"],
                     boards=[list(sd["board"])], ante=sd["ante"], blinds=list(sd["blinds"]), stacks=list(g.stacks), action=sd["action"],
                     street=sd["street"],
                     actions=(None if case.get("nolog") else [ActionCls(**ad) for ad in json.loads(json.dumps(sd["actions"]))]),
                     last_actions=dict(sd["last_actions"]),
                     pot_balances=dict(sd["pot_balances"]), all_in_runouts=kw["all_in_runouts"],
                     rake_fraction=kw["rake_fraction"], max_rake=kw["max_rake"])
            g4._cv_fake = fake
            out["resume0"] = poker.observe(g4)
        except Exception as e:
            out["resume0"] = {"exc": f"{type(e).__name__}: {str(e)[:100]}"}
            g4 = None

        def transcript(obj):
            tr = []
            for o in case["cont"]:
                tgt = obj
                if o.get("probe"):
                    tgt = copy.deepcopy(obj); tgt._cv_fake = copy.copy(obj._cv_fake)
                r, e = poker.apply_op(tgt, o["o"])
                st = {"r": r}
                if r == "ok":
                    st["s"] = poker.observe(tgt)
                tr.append(st)
                if r == "internal" and not o.get("probe"):
                    break
            return tr
        out["cont_orig"] = transcript(g)
        out["cont_resume"] = transcript(g4) if g4 is not None else None
        return out

    def request(self, case, io):
        k = case["cut"]
        reqs = [poker.request({**case, "ops": case["ops"][:k]})]
        S = io.get("S")
        if S is not None:
            log = S["log"]
            reqs.append(poker.request({**case, "ops": [], "pre": log}))
            reqs.append(poker.request({**case, "ops": case["ops"][:k] + [{"k": "reset", "log": log}] * case["resets"]}))
            if not S["complete"] and S["action"] is not None:
                n = case["n"]
                blinds = case["blinds"]
                reqs.append(poker.request({**case, "deck": S["deck"], "board": S["board"], "ops": case["cont"],
                                           "resume": {"stacks": S["stacks"], "pot": S["pot"], "street": S["street"],
                                                      "action": S["action"], "last": S["last"],
                                                      "log": ([] if case.get("nolog") else S["log"])}}))
        return {"op": "multi", "reqs": reqs}

    def judge(self, case, io, mo):
        why_c = []; why_o = []
        k = case["cut"]
        base = {**case, "ops": case["ops"][:k]}
        evs = walk(base, io["orig"], mo[0])
        self.fields = ALL_FIELDS
        why_c += self.correspondence(base, evs)
        S = io.get("S")
        tags = [case["game"], f"n={case['n']}"]
        key = None
        if S is not None:
            tags.append("cut:complete" if S["complete"] else "cut:open")
            # (a) replay
            rp = io["replay"]
            if "exc" in rp:
                why_o.append(f"replaying the log of {len(S['log'])} actions failed: {rp['exc']}")
            else:
                d = same_obs(S, rp, REBUILD_FIELDS)
                if d:
                    why_o.append("hand rebuilt from its log differs: " + "; ".join(d[:3]))
                if len(mo) > 1 and "err" not in mo[1]["ctor"]:
                    d = diff_obs(rp, mo[1]["ctor"], REBUILD_FIELDS)
                    if d:
                        why_c.append("replay: " + "; ".join(d[:3]))
            # (b) reset
            for i, rs in enumerate(io["reset"]):
                if "exc" in rs:
                    why_o.append(f"re-applying the log (time {i + 1}) failed: {rs['exc']}"); break
                d = same_obs(S, rs, REBUILD_FIELDS)
                if d:
                    why_o.append(f"re-applying the log {i + 1}x to the same object gives a different state: " + "; ".join(d[:3])); break
                if len(mo) > 2 and k + i < len(mo[2]["steps"]) and "s" in mo[2]["steps"][k + i]:
                    d = diff_obs(rs, mo[2]["steps"][k + i]["s"], REBUILD_FIELDS)
                    if d:
                        why_c.append(f"reset {i + 1}: " + "; ".join(d[:3])); break
            # (c) resume
            co, cr = io["cont_orig"], io["cont_resume"]
            dev = []
            r0 = io["resume0"]
            if "exc" in r0 or cr is None:
                dev.append(f"constructing from the serialisable fields failed: {r0.get('exc')}")
            else:
                d = same_obs(S, r0, ("stacks", "pot", "street", "action", "board", "deck", "last", "toCall", "minBet", "maxBet", "valid"))
                if d:
                    dev.append("resumed object differs at once: " + "; ".join(d[:3]))
                for i, (a, b) in enumerate(zip(co, cr)):
                    if a["r"] != b["r"]:
                        dev.append(f"continuation step {i} {case['cont'][i]['o']}: original {a['r']}, resumed {b['r']}"); break
                    if "s" in a:
                        d = same_obs(a["s"], b["s"], ("stacks", "pot", "street", "action", "board", "deck", "last", "complete", "pay", "rake"))
                        if d:
                            dev.append(f"continuation step {i}: " + "; ".join(d[:3])); break
                if len(co) != len(cr):
                    dev.append("continuations have different lengths")
            if dev:
                tag = "[dev:C15.resume_completed_state] " if S["complete"] else ""
                why_o.append(tag + dev[0])
            if len(mo) > 3 and cr is not None and "err" not in mo[3]["ctor"]:
                msteps = mo[3]["steps"]
                for i, b in enumerate(cr):
                    if i >= len(msteps):
                        break
                    if b["r"] != poker.model_result(msteps[i]["r"]):
                        why_c.append(f"resume continuation step {i}: impl {b['r']} model {msteps[i]['r']}"); break
                    if "s" in b and "s" in msteps[i]:
                        d = diff_obs(b["s"], msteps[i]["s"], ("stacks", "pot", "street", "action", "board", "deck", "last", "complete", "pay", "rake"))
                        if d:
                            why_c.append(f"resume continuation step {i}: " + "; ".join(d[:3])); break
            if len(S["log"]) >= 2:
                key = core.stable_hash([case["game"], case["stacks"], case["ante"], case["blinds"], S["log"], case["resets"]])
        return Verdict(not why_c, not why_o, " ;; ".join([w[:500] for w in why_o[:4] + why_c[:3]]), key, tags)

    def shrink_candidates(self, case):
        return iter(())
