from .p_pot import C02, C14
from .p_poker import C01, C03, C04, C07, C13, C15
from .p_eval import C05, C06
from .p_sym import C18, C20
from .p_iso import C16
from .p_gin import C08, C09, C10, C11, C12, C17, C19

REGISTRY = {"C01": C01, "C02": C02, "C03": C03, "C04": C04, "C05": C05, "C07": C07, "C06": C06, "C08": C08, "C09": C09, "C10": C10, "C11": C11, "C12": C12, "C17": C17, "C19": C19, "C13": C13, "C14": C14, "C15": C15, "C16": C16, "C18": C18, "C20": C20}
