from .p_pot import C02, C14

REGISTRY = {"C02": C02, "C14": C14}
