from .p_pot import C02, C14
from .p_poker import C01, C03, C04, C13
from .p_eval import C05

REGISTRY = {"C01": C01, "C02": C02, "C03": C03, "C04": C04, "C05": C05, "C13": C13, "C14": C14}
