"""C02 (side pots) and C14 (rake): Pot.settle_showdown / Pot.get_rake_per_player vs the Lean model/spec."""
import itertools, random
from fractions import Fraction
from . import core
from .engine import Prop, Verdict

FRACTIONS = [0.0, 1.0, 0.05, 0.1, 0.29, 0.3, 0.57, 0.7, 0.5, 0.25, 0.125, 1 / 3, 0.01, 0.99, 0.15, 0.2, 0.6, 0.9]


def gen_balances(rng, n, small=False):
    style = rng.randrange(6)
    if small:
        return [rng.randrange(0, 7) for _ in range(n)]
    if style == 0:
        pool = [rng.randrange(0, 30) for _ in range(3)]
        return [rng.choice(pool) for _ in range(n)]
    if style == 1:
        base = rng.randrange(1, 200)
        return [max(0, base + rng.choice([-1, 0, 0, 1, 2, -2])) for _ in range(n)]
    if style == 2:
        return [rng.choice([0, 1, 2, 3, 5, 10, 20, 40, 100]) for _ in range(n)]
    if style == 3:
        return [rng.randrange(0, 2000) for _ in range(n)]
    if style == 4:
        b = [rng.randrange(0, 12) for _ in range(n)]
        b[rng.randrange(n)] = 0
        return b
    return [rng.randrange(0, 60) for _ in range(n)]


def gen_ranking(rng, bal, with_max=True):
    n = len(bal)
    m = max(bal)
    seats = list(range(n))
    k = rng.randrange(1, n + 1)
    cont = rng.sample(seats, k)
    if with_max and not any(bal[p] == m for p in cont):
        cont[rng.randrange(len(cont))] = rng.choice([p for p in seats if bal[p] == m])
        cont = list(dict.fromkeys(cont))
    rng.shuffle(cont)
    tiers = []
    i = 0
    while i < len(cont):
        sz = 1 if rng.random() < 0.6 else rng.randrange(1, len(cont) - i + 1)
        tiers.append(cont[i:i + sz]); i += sz
    return tiers


def ordered_partitions(items):
    """all ordered set partitions (lists of lists, order inside a tier irrelevant -> sorted)"""
    items = list(items)
    if not items:
        yield []
        return
    first, rest = items[0], items[1:]
    for r in range(len(rest) + 1):
        for comp in itertools.combinations(rest, r):
            block = [first, *comp]
            others = [x for x in rest if x not in comp]
            for sub in ordered_partitions(others):
                for pos in range(len(sub) + 1):
                    yield sub[:pos] + [block] + sub[pos:]


def impl_settle(case):
    from card_utils.games.poker.pot import Pot
    n = len(case["bal"])
    f = float(Fraction(*case["f"]))
    out = {}
    # the mapping seat -> contribution may be built by the caller in any key order (e.g. after a JSON round trip or
    # when seats joined the pot in betting order): `korder` picks the insertion order
    order = list(range(n))
    ko = case.get("korder")
    if ko == 1:
        order.reverse()
    elif ko:
        order = order[ko % n:] + order[:ko % n]

    def balances():
        return {p: case["bal"][p] for p in order}
    keep = bool(case.get("keep"))
    tiers_obj = [list(t) for t in case["tiers"]]       # `keep`: ONE ranking object, used for every settlement of this case

    def scrib(d):
        if keep and isinstance(d, dict):
            for k in list(d):
                d[k] = (d[k] if isinstance(d[k], (int, float)) else 0) + 7
    if keep:
        # a caller who settles two pots of the same showdown with the ranking list he built once, and who uses the payout
        # and rake dicts he gets back as his own ledger (overwrites the figures): a sibling pot (same contributions,
        # unraked and raked) is settled first with the very ranking object, its reports are overwritten
        for rk in (False, True):
            try:
                sib = Pot(n, f, case["cap"], balances())
                scrib(sib.get_rake_per_player(rk))
                pay0, r0 = sib.settle_showdown(tiers_obj, rk)
                scrib(pay0); scrib(r0)
            except Exception:
                pass
    try:
        pot = Pot(n, f, case["cap"], balances())
    except Exception as e:
        return {"exc": type(e).__name__, "msg": "constructing the pot failed: " + str(e)[:80], "rake_exc": type(e).__name__}
    try:
        if case.get("twice"):
            # the rake query is read-only: asking twice (also once for an unraked pot) gives the same answer
            pot.get_rake_per_player(case["rake_pot"]); pot.get_rake_per_player(not case["rake_pot"])
        r = pot.get_rake_per_player(case["rake_pot"])
        out["rake"] = [r[p] for p in range(n)]
        scrib(r)
    except Exception as e:
        out["rake_exc"] = type(e).__name__
    if not case.get("twice"):
        pot = Pot(n, f, case["cap"], balances())      # otherwise: settle the very pot that was queried
    if case.get("dcopy"):
        # a deep copy of the pot ("what if" settlement): the original is settled first (which drains it), then the copy
        import copy
        pc = copy.deepcopy(pot)
        try:
            pot.settle_showdown(tiers_obj if keep else [list(t) for t in case["tiers"]], case["rake_pot"])
        except Exception:
            pass
        pot = pc
    try:
        pay, r = pot.settle_showdown(tiers_obj if keep else [list(t) for t in case["tiers"]], case["rake_pot"])
        out["pay"] = [pay[p] for p in range(n)]
        out["rake2"] = [r[p] for p in range(n)]
    except Exception as e:
        out["exc"] = type(e).__name__
        out["msg"] = str(e)[:80]
    return out


def request_settle(case, io, fl="f53"):
    r = {"op": "settle", "bal": case["bal"], "tiers": case["tiers"], "f": case["f"], "cap": case["cap"],
         "rake_pot": case["rake_pot"], "fl": fl}
    if "rake" in io and all(isinstance(x, int) for x in io["rake"]):
        r["impl_rake"] = io["rake"]
    return r


def has_max(case):
    flat = [p for t in case["tiers"] for p in t]
    return bool(flat) and max(case["bal"]) in [case["bal"][p] for p in flat]


def rake_bounds(case, rake):
    """C14's inequalities, judged on the implementation's own rake vector"""
    bal = case["bal"]
    f = Fraction(*case["f"])
    n = len(bal)
    if not case["rake_pot"]:
        return None if all(r == 0 for r in rake) else "rake taken although the hand saw no flop"
    for p in range(n):
        if not isinstance(rake[p], int) or isinstance(rake[p], bool):
            return f"rake of seat {p} is not a whole number: {rake[p]!r}"
        if rake[p] < 0:
            return f"negative rake {rake[p]} for seat {p}"
        if rake[p] > bal[p]:
            return f"seat {p} pays rake {rake[p]} > contribution {bal[p]}"
    for p in range(n):
        for q in range(n):
            if bal[p] == bal[q] and rake[p] != rake[q]:
                return f"equal contributions {bal[p]} pay different rake ({rake[p]} vs {rake[q]})"
            if bal[p] <= bal[q] and rake[p] > rake[q]:
                return f"larger contribution pays less rake: seats {p},{q}"
            if bal[p] <= bal[q] and bal[p] - rake[p] > bal[q] - rake[q]:
                return f"order not preserved after rake: seats {p},{q}: {bal[p]}-{rake[p]} > {bal[q]}-{rake[q]}"
    tot = sum(rake)
    if tot > case["cap"]:
        return f"total rake {tot} exceeds cap {case['cap']}"
    if tot > f * sum(bal) + Fraction(1, 10**6):
        return f"total rake {tot} exceeds rake fraction of the pot {float(f*sum(bal))}"
    return None


class C14(Prop):
    pid = "C14"
    title = "rake bounds, exact recurrence, order preservation; raked settlement never fails"
    rule = ("random and boundary (contributions, float fraction, cap, ranking) tuples; non-trivial = rake_pot and "
            "some seat pays rake > 0; distinct by (contributions, fraction, cap)")
    trusted_base = ["Float53.rnd models CPython double arithmetic (correct rounding of * - /)"]
    assumptions = ["chip counts < 2^53", "rake fraction is a float in [0,1]"]
    batch = 500

    def gen_case(self, rng, small=False):
        n = rng.randrange(2, 5 if small else 10)
        if not small and rng.random() < 0.05:
            n = rng.choice([10, 11, 12, 15, 23])
        bal = gen_balances(rng, n, small)
        if max(bal) == 0:
            bal[rng.randrange(n)] = rng.randrange(1, 9)
        f = rng.choice(FRACTIONS) if rng.random() < 0.8 else rng.random()
        if rng.random() < 0.15:  # fractions whose product with a level lands next to an integer
            k = rng.randrange(1, 50); m = rng.randrange(1, 200)
            f = min(1.0, k / m)
        tot = sum(bal)
        cap = rng.choice([0, 1, 2, 3, 5, 10, max(1, int(f * tot) // 2), int(f * tot), int(f * tot) + 1, 10**6, rng.randrange(0, 50)])
        c = {"bal": bal, "f": core.ratj(f), "cap": cap, "rake_pot": rng.random() < 0.92,
             "tiers": gen_ranking(rng, bal, True)}
        if rng.random() < 0.3:
            c["korder"] = rng.randrange(1, n + 1)
        if rng.random() < 0.3:
            c["twice"] = True
        if rng.random() < 0.3:
            c["keep"] = True
        if rng.random() < 0.25:
            c["dcopy"] = True
        return c

    def generate(self, rng, tier, shard):
        from . import poker
        while True:
            if rng.random() < 0.12:
                # complete hands played with rake: fold-outs before/after the flop, showdowns, all-in run-outs
                cfg = poker.gen_cfg(rng)
                cfg["f"] = core.ratj(rng.choice([0.05, 0.1, 0.3, 0.5, 0.7, 1.0])); cfg["cap"] = rng.choice([1, 3, 10, 10**6])
                tr = poker.play(rng, cfg, probes_per_state=0, policy=rng.choice(["allin", "caller", "folder", "checkcall", "potty"]))
                yield {"trace": tr}
            else:
                yield self.gen_case(rng, small=rng.random() < 0.25)

    def exhaustive(self, tier, shard, nshards):
        if tier != "thorough":
            return
        i = 0
        for n in (2, 3):
            for bal in itertools.product(range(0, 5), repeat=n):
                if max(bal) == 0:
                    continue
                for f in (0.0, 1.0, 0.05, 0.3, 0.5, 0.7, 1 / 3):
                    for cap in (0, 1, 2, 3, 100):
                        i += 1
                        if i % nshards != shard:
                            continue
                        top = [p for p in range(n) if bal[p] == max(bal)]
                        yield {"bal": list(bal), "f": core.ratj(f), "cap": cap, "rake_pot": True, "tiers": [[top[0]]]}

    def impl(self, case):
        if "trace" in case:
            return C02._c07(self).impl(case["trace"])
        return impl_settle(case)

    def request(self, case, io):
        if "trace" in case:
            return C02._c07(self).request(case["trace"], io)
        return request_settle(case, io)

    def judge_trace(self, case, io, mo):
        from .p_poker import walk, diff_obs
        tr = case["trace"]
        evs = walk(tr, io, mo)
        why = []
        acts = [e for e in evs if e.kind == "act" and e.ri == "ok"]
        key = None
        internal = [e for e in evs if e.ri == "internal"]
        if internal:
            why.append(f"a raked hand failed inside the engine: {internal[0].exc}")
        if acts and acts[-1].oi["complete"]:
            o = acts[-1].oi
            rake = o["rake"] or []
            saw_flop = len(o["board"]) >= 3 or (o["action"] is None and sum(1 for x in o["last"] if x != "FOLD") >= 2)
            if rake and sum(rake) > 1e-9 and not saw_flop:
                why.append(f"rake {rake} taken from a hand that saw no flop")
            for p_, r in enumerate(rake):
                if r < -1e-9 or r > o["pot"][p_] + 1e-9:
                    why.append(f"seat {p_} pays rake {r} on a contribution of {o['pot'][p_]}"); break
            if rake and sum(rake) > tr["cap"] + 1e-9:
                why.append(f"total rake {sum(rake)} exceeds the cap {tr['cap']}")
            m = acts[-1].om
            if m is not None and acts[-1].synced and m.get("complete"):
                d = diff_obs(o, m, ("rake",))
                if d:
                    why.append(f"rake of the hand is not the layer recurrence on its contributions {o['pot']}: {d[0]}")
            if rake and sum(rake) > 0:
                key = core.stable_hash([tr["stacks"], tr["blinds"], tr["ante"], tr["f"], tr["cap"], [e.op for e in acts]])
        return Verdict(True, not why, " ;; ".join(why[:3]), key, ["engine-hand"])

    def judge(self, case, io, mo):
        if "trace" in case:
            return self.judge_trace(case, io, mo)
        why = []
        agree = True
        holds = True
        if "rake" not in io:
            return Verdict(False, False, f"get_rake_per_player raised {io.get('rake_exc')}")
        if io["rake"] != mo["rake"]:
            agree = False
            # exactness is part of the property: the layer recurrence (in CPython float arithmetic, or in
            # exact arithmetic -- either reading of "rounded down" is accepted) determines the rake
            ex = core.run_driver([request_settle(case, io, fl="exact")])[0]
            if io["rake"] != ex["rake"]:
                holds = False
            why.append(f"rake impl={io['rake']} model={mo['rake']} exact-arith={ex['rake']}")
        b = rake_bounds(case, io["rake"])
        if b:
            holds = False; why.append(b)
        if has_max(case):
            if "exc" in io:
                holds = False; why.append(f"settlement of a raked pot failed: {io['exc']}: {io.get('msg')}")
            else:
                tot = sum(io["pay"]) + sum(io["rake2"])
                if not core.close(tot, sum(case["bal"])):
                    holds = False; why.append(f"payouts+rake={tot} != pot {sum(case['bal'])}")
                if io["rake2"] != io["rake"]:
                    holds = False; why.append("settle_showdown reports a different rake than get_rake_per_player")
        if ("exc" in io) != ("err" in mo):
            agree = False; why.append(f"settle impl_exc={io.get('exc')} model={mo.get('err')}")
        nontriv = case["rake_pot"] and any(r > 0 for r in io["rake"])
        key = (tuple(case["bal"]), tuple(case["f"]), case["cap"]) if nontriv else None
        tags = ["raked" if case["rake_pot"] else "unraked",
                "cap-binding" if sum(io["rake"]) == case["cap"] and case["rake_pot"] else "cap-slack",
                f"levels={min(4, len(set(case['bal'])))}"]
        return Verdict(agree, holds, " ;; ".join(why), key, tags)

    def shrink_candidates(self, case):
        if "trace" in case:
            return
        bal = case["bal"]
        n = len(bal)
        if n > 2:
            for p in range(n):
                nb = bal[:p] + bal[p + 1:]
                if max(nb) == 0:
                    continue
                remap = {q: (q if q < p else q - 1) for q in range(n) if q != p}
                tiers = [[remap[q] for q in t if q != p] for t in case["tiers"]]
                tiers = [t for t in tiers if t]
                if tiers and any(nb[q] == max(nb) for t in tiers for q in t):
                    yield {**case, "bal": nb, "tiers": tiers}
        for p in range(n):
            for nv in (bal[p] // 2, bal[p] - 1):
                if 0 <= nv < bal[p]:
                    nb = list(bal); nb[p] = nv
                    if max(nb) > 0 and any(nb[q] == max(nb) for t in case["tiers"] for q in t):
                        yield {**case, "bal": nb}
        if case["cap"] > 0:
            yield {**case, "cap": case["cap"] // 2}
            yield {**case, "cap": case["cap"] - 1}


class C02(Prop):
    pid = "C02"
    title = "settlement = unit-layer side-pot spec (each layer to the best eligible contenders, split equally)"
    rule = ("random / boundary pots (2-9 seats, tie-heavy contributions, every kind of ordered tier partition), raked and "
            "unraked, plus rankings without a maximal contributor; non-trivial = at least two distinct positive "
            "contribution levels among >= 2 contenders or a tie tier; distinct by (contributions, tiers, rake setting)")
    trusted_base = ["payout floats compared with exact rationals at relative tolerance 1e-9"]
    assumptions = ["contributions are non-negative ints", "tiers are disjoint lists of seats in range"]
    batch = 500

    def gen_case(self, rng, small=False):
        n = rng.randrange(2, 5 if small else 10)
        if not small and rng.random() < 0.05:
            n = rng.choice([10, 11, 12, 15, 23])          # as many seats as a deck can serve
        bal = gen_balances(rng, n, small)
        if max(bal) == 0:
            bal[rng.randrange(n)] = rng.randrange(1, 9)
        raked = rng.random() < 0.4
        f = rng.choice(FRACTIONS) if raked else 0.0
        cap = rng.choice([0, 1, 3, 10, 10**6]) if raked else 0
        with_max = rng.random() < 0.9
        c = {"bal": bal, "f": core.ratj(f), "cap": cap, "rake_pot": raked, "tiers": gen_ranking(rng, bal, with_max)}
        if rng.random() < 0.3:
            c["korder"] = rng.randrange(1, n + 1)
        if rng.random() < 0.3:
            c["twice"] = True
        if rng.random() < 0.3:
            c["keep"] = True
        if rng.random() < 0.25:
            c["dcopy"] = True
        return c

    def generate(self, rng, tier, shard):
        from . import poker
        while True:
            if rng.random() < 0.12:
                # the same rule inside real hands: uneven stacks, all-ins, 1-3 run-outs, rake -- settled by the engine
                cfg = poker.gen_cfg(rng)
                cfg["stacks"] = [max(0, x) for x in cfg["stacks"]]
                tr = poker.play(rng, cfg, probes_per_state=0, policy=rng.choice(["allin", "allin", "caller", "potty"]))
                yield {"trace": tr}
            else:
                yield self.gen_case(rng, small=rng.random() < 0.3)

    def exhaustive(self, tier, shard, nshards):
        """all pots with <= 4 seats (3 at contributions <= 4, 4 at <= 2), every contender subset with a
        maximal contributor and every ordered partition of it, unraked and raked"""
        if tier != "thorough":
            return
        i = 0
        for n, top in ((2, 4), (3, 4), (4, 2)):
            for bal in itertools.product(range(0, top + 1), repeat=n):
                if max(bal) == 0:
                    continue
                for k in range(1, n + 1):
                    for cont in itertools.combinations(range(n), k):
                        if max(bal[p] for p in cont) != max(bal):
                            continue
                        for tiers in ordered_partitions(cont):
                            for (f, cap, rp) in ((0.0, 0, False), (0.5, 2, True)):
                                i += 1
                                if i % nshards != shard:
                                    continue
                                yield {"bal": list(bal), "f": core.ratj(f), "cap": cap, "rake_pot": rp,
                                       "tiers": [list(t) for t in tiers]}

    def impl(self, case):
        if "trace" in case:
            return self._c07().impl(case["trace"])
        return impl_settle(case)

    def request(self, case, io):
        if "trace" in case:
            return self._c07().request(case["trace"], io)
        return request_settle(case, io)

    def _c07(self):
        if not hasattr(self, "_c07_inst"):
            from .p_poker import C07
            self._c07_inst = C07()
        return self._c07_inst

    def judge_trace(self, case, io, mo):
        """a complete hand: the engine's payouts must be the layered settlement of the final contributions under the
        ranking -- the Lean model computes exactly that (settle = spec is theorem C02.settle_eq_spec)"""
        from .p_poker import walk, diff_obs
        tr = case["trace"]
        evs = walk(tr, io, mo)
        why = []
        acts = [e for e in evs if e.kind == "act" and e.ri == "ok"]
        key = None
        if acts and acts[-1].oi["complete"] and acts[-1].om is not None and acts[-1].synced and acts[-1].om.get("complete"):
            o, m = acts[-1].oi, acts[-1].om
            d = diff_obs(o, m, ("pay",))
            if d:
                why.append(f"hand with contributions {o['pot']} (stacks {tr['stacks']}, {tr['runouts']} run-out(s), rake {tr['cap']}): "
                           f"payouts {o['pay']} are not the layer-by-layer settlement {[float(core.unrat(q)) for q in m['pay']] if m['pay'] else None}")
            if len(set(x for x in o["pot"] if x > 0)) >= 2:
                key = core.stable_hash([tr["stacks"], tr["blinds"], tr["ante"], [e.op for e in acts]])
        return Verdict(True, not why, " ;; ".join(why), key, ["engine-hand"])

    def judge(self, case, io, mo):
        if "trace" in case:
            return self.judge_trace(case, io, mo)
        why = []
        agree = True; holds = True
        n = len(case["bal"])
        hm = has_max(case)
        if ("exc" in io) != ("err" in mo):
            agree = False; why.append(f"settle impl_exc={io.get('exc')} model_err={mo.get('err')}")
        if hm and "exc" in io:
            holds = False; why.append(f"ranking holds a maximal contributor but settlement raised {io['exc']}: {io.get('msg')}")
        if "pay" in io:
            # (rankings without a maximal contributor are outside the property; they are only compared with the model)
            if "pay" in mo:
                for p in range(n):
                    if not core.close(io["pay"][p], core.unrat(mo["pay"][p])):
                        agree = False; why.append(f"payout seat {p}: impl={io['pay'][p]} model={float(core.unrat(mo['pay'][p]))}")
                        break
            spec = mo.get("spec_on_impl")
            if spec is not None and hm:
                for p in range(n):
                    if not core.close(io["pay"][p], core.unrat(spec[p])):
                        holds = False
                        why.append(f"seat {p} is paid {io['pay'][p]} but the layer-by-layer rule gives {float(core.unrat(spec[p]))} "
                                   f"(contributions after rake {[b - r for b, r in zip(case['bal'], io.get('rake', [0]*n))]}, tiers {case['tiers']})")
                        break
        flat = [p for t in case["tiers"] for p in t]
        lv = set(case["bal"][p] for p in flat if case["bal"][p] > 0)
        nontriv = hm and ((len(flat) >= 2 and len(set(b for b in case["bal"] if b > 0)) >= 2) or any(len(t) > 1 for t in case["tiers"]))
        key = (tuple(case["bal"]), tuple(tuple(t) for t in case["tiers"]), tuple(case["f"]), case["cap"], case["rake_pot"]) if nontriv else None
        tags = ["has-max" if hm else "no-max", "raked" if case["rake_pot"] else "unraked",
                "tie-tier" if any(len(t) > 1 for t in case["tiers"]) else "single-tiers",
                f"contender-levels={min(4, len(lv))}", "folded-money" if len(flat) < n else "all-contend"]
        return Verdict(agree, holds, " ;; ".join(why), key, tags)

    def shrink_candidates(self, case):
        if "trace" in case:
            return iter(())
        return C14.shrink_candidates(self, case)
