"""Gin harness: drives the real GinRummyGameState / GinRickyGameState, independent Python renderings of the specs
(legal melds, optimal deadwood, lay-off closure, ricky value), injected shuffles."""
import collections, copy, itertools, random
from . import core

SU = "cdhs"
RANKS = "23456789TJQKA"
CARDS = [r + s for r in RANKS for s in SU]
RV = {"A": 1, "T": 10, "J": 11, "Q": 12, "K": 13, **{d: int(d) for d in "23456789"}}
R = {1: "A", 14: "A", **{v: r for r, v in RV.items() if r != "A"}}


class FakeShuffle:
    """stand-in for the `random` module inside card_utils.games.gin.game_state / deck.utils"""

    def __init__(self, mode=0, k=0):
        self.mode, self.k, self.calls = mode, k, 0

    def shuffle(self, l):
        self.calls += 1
        n = len(l)
        if self.mode == 0 or n == 0:
            return
        if self.mode == 1:
            l.reverse(); return
        if self.mode == 2:
            r = self.k % n
            l[:] = l[r:] + l[:r]; return
        h = n // 2
        a, b = l[:h], l[h:]
        out = []
        for i in range(n):
            src = b if i % 2 == 0 else a
            if i // 2 < len(src):
                out.append(src[i // 2])
        l[:] = out

    def __getattr__(self, name):
        # anything else the code under test asks of `random` (choices, sample, randrange, ...) gets the real thing,
        # seeded per case: the code then runs with its real semantics and the oracles judge what it did
        if name.startswith("__"):
            raise AttributeError(name)
        import random as _r
        rr = self.__dict__.get("_real")
        if rr is None:
            rr = self.__dict__["_real"] = _r.Random(1000 * self.mode + self.k)
        return getattr(rr, name)


def install_shuffle(fake):
    import card_utils.games.gin.game_state as ggs
    ggs.random = fake


def turn_enum():
    from card_utils.games.gin.utils import RummyTurn
    return RummyTurn


def new_game(case):
    from card_utils.games.gin.rummy.game_state import GinRummyGameState
    from card_utils.games.gin.ricky.game_state import GinRickyGameState
    T = turn_enum()
    cls = GinRummyGameState if case["variant"] == "rummy" else GinRickyGameState
    t = T(case["turn"])
    fake = FakeShuffle(*case.get("shuffle", [0, 0]))
    install_shuffle(fake)
    g = cls(deck=list(case["deck"]), discard=list(case["discard"]), p1_hand=list(case["p1"]), p2_hand=list(case["p2"]),
            turn=t, first_turn=t, max_turns=case.get("max_turns"),
            **({"public_hud": {}} if case.get("hud0") == "empty" else {}),
            **({"p1_points": 0, "p2_points": 0} if case.get("pts0") else {}))
    g._cv_fake = fake
    g._cv_ints = bool(case.get("ints"))
    g._cv_hostile = bool(case.get("hostile"))
    return g


def canon_melds(melds):
    return sorted(sorted(m) for m in melds)


def observe_view(g, is1):
    def take():
        try:
            v = g.to_dict((1 if is1 else 0) if getattr(g, "_cv_ints", False) else is1)
        except Exception as e:
            return None, "!" + type(e).__name__
        try:
            return v, {"hand": list(v["hand"]), "points": v["points"], "top": v["top_of_discard"], "lfd": v["last_draw_from_discard"],
                       "deck_length": v["deck_length"], "hud": [[c, l.value] for c, l in v["hud"].items()],
                       "action": (v["action"].value if v["action"] is not None else "none"),
                       "drawn": v.get("drawn_card"), "last_draw": v.get("last_draw")}
        except Exception as e:       # a view without its documented fields
            return v, "!view:" + type(e).__name__
    v, out = take()
    if getattr(g, "_cv_hostile", False) and v is not None:
        # the receiver edits the view he was handed (takes the drawn card out of the displayed hand, pops what he has shown);
        # asked again in the same state, the game must show the same view as before
        scribble(v)
        v2, out2 = take()
        if v2 is not None:
            scribble(v2)
        if isinstance(out, dict) and (not isinstance(out2, dict) or sorted(out2["hand"]) != sorted(out["hand"]) or
                                      dict(map(tuple, out2["hud"])) != dict(map(tuple, out["hud"])) or
                                      any(out2[k] != out[k] for k in ("points", "top", "deck_length", "action"))):
            return "!the view asked for again after its receiver edited the first one differs: " + json_short(out) + " then " + json_short(out2)
    return out


def json_short(x):
    import json
    return json.dumps(x, default=str)[:160]


def scribble(x, depth=0):
    """what a caller may do with a RESULT it was handed (a view, a candidate list, a report): edit it -- pull the drawn card
    out of the displayed hand, pop entries it has shown, reuse the dict as its own record.  Every mutable container reachable
    from the result is emptied in place; nothing the game keeps may be affected"""
    if depth > 4:
        return
    if isinstance(x, dict):
        for v in list(x.values()):
            scribble(v, depth + 1)
        try:
            x.clear()
        except Exception:
            pass
    elif isinstance(x, (list, set)):
        for v in list(x):
            scribble(v, depth + 1)
        try:
            x.clear()
        except Exception:
            pass


def observe(g):
    def act(is1):
        a = g.get_action((1 if is1 else 0) if getattr(g, "_cv_ints", False) else is1)
        return a.value if a is not None else "none"
    o = {"deck": list(g.deck), "discard": list(g.discard), "p1": list(g.p1_hand), "p2": list(g.p2_hand),
         "turn": g.turn.value, "complete": bool(g.is_complete), "turns": g.turns, "shuffles": g.shuffles,
         "p1_points": g.p1_points, "p2_points": g.p2_points, "hud": [[c, l.value] for c, l in g.public_hud.items()],
         "last_draw": g.last_draw, "lfd": g.last_draw_from_discard,
         "a1": act(True), "a2": act(False)}
    if not g.is_complete:
        o["v1"] = observe_view(g, True); o["v2"] = observe_view(g, False)
    else:
        o["v1"] = o["v2"] = None

        def cview(is1):
            try:
                v = g.to_dict(is1)
                r = {"points": v["points"], "opp_points": v["opponent_points"], "opp_hand": list(v["opponent_hand"]),
                     "action": getattr(v["action"], "value", v["action"])}
                # (the view of a FINISHED game hands out the game's own hand list as `opponent_hand`; the statements speak
                #  about games in progress, so this result is read, not edited)
                return r
            except Exception as e:
                return "!" + type(e).__name__
        o["cv1"] = cview(True); o["cv2"] = cview(False)    # what each player is shown once the game is over
    try:
        kc = g.get_knock_candidates() if hasattr(g, "get_knock_candidates") else []
        o["kc"] = [[dw, [list(m) for m in melds]] for dw, melds in kc]
        if getattr(g, "_cv_hostile", False):
            scribble(kc)
    except Exception as e:
        o["kc"] = "!" + type(e).__name__
    return o


def digest(o):
    return (tuple(o["deck"]), tuple(o["discard"]), tuple(o["p1"]), tuple(o["p2"]), o["turn"], o["complete"], o["turns"],
            o["shuffles"], o["p1_points"], o["p2_points"], tuple(map(tuple, o["hud"])), o["last_draw"], o["lfd"])


def apply_op(g, op):
    install_shuffle(g._cv_fake)
    k = op["k"]
    try:
      with core.time_limit(5.0):
        if k == "pass":
            g.first_turn_pass()
        elif k == "draw":
            d = bool(op["d"])
            g.draw_card((1 if d else 0) if getattr(g, "_cv_ints", False) else d)     # `ints` cases: 1/0 for True/False
        elif k == "discard":
            g.discard_card(op["c"])
        elif k == "knock":
            kn = bool(op["knocks"])
            g.decide_knock((1 if kn else 0) if getattr(g, "_cv_ints", False) else kn,
                           [list(m) for m in op["melds"]] if op.get("melds") is not None else None)
        else:
            raise RuntimeError("bad op")
      return "ok", ""
    except Exception as e:
        return "rej", f"{type(e).__name__}: {str(e)[:100]}"


def run_ops(case):
    rec = {"steps": []}
    try:
        g = new_game(case)
    except Exception as e:
        rec["ctor"] = {"err": type(e).__name__}
        return rec
    rec["ctor"] = observe(g)
    fork_at = case.get("fork_at"); forked = None; nreal = 0; resumed = False
    for oi, op in enumerate(case["ops"]):
        if case.get("resume_at") is not None and not op.get("probe") and nreal == case["resume_at"] and forked is None \
                and not resumed and not g.is_complete and not g.turn.value.endswith("from-deck"):
            resumed = True
            # the game is stored and restored: a new object built through the constructor from the current fields (Spec:
            # `DealH`, any observable turn, the public card map as it stands); play goes on with the restored object
            try:
                hp1, hp2 = list(g.p1_hand), list(g.p2_hand)
                if case.get("resume_order"):
                    # ... with the hands written in another order than the one they were held in (sorted, as displayed,
                    # reversed): which cards a hand holds is state, the order in which a store wrote them is not
                    def reorder(hd):
                        m = case["resume_order"]
                        if m == "sorted":
                            return sorted(hd)
                        if m == "reversed":
                            return hd[::-1]
                        if m == "display":
                            try:
                                return list(type(g).sort_hand(list(hd))) if hasattr(type(g), "sort_hand") else sorted(hd, key=lambda c: (RV[c[0]], c[1]))
                            except Exception:
                                return sorted(hd, key=lambda c: (RV[c[0]], c[1]))
                        return hd[1:] + hd[:1]
                    hp1, hp2 = reorder(hp1), reorder(hp2)
                    if sorted(hp1) != sorted(g.p1_hand) or sorted(hp2) != sorted(g.p2_hand):
                        hp1, hp2 = sorted(g.p1_hand), sorted(g.p2_hand)
                    rec["reorder"] = {"oi": oi, "p1": list(hp1), "p2": list(hp2)}
                h = type(g)(deck=list(g.deck), discard=list(g.discard), p1_hand=hp1, p2_hand=hp2,
                            turn=g.turn, first_turn=g.first_turn, public_hud=dict(g.public_hud), last_draw=g.last_draw,
                            last_draw_from_discard=g.last_draw_from_discard, turns=g.turns, max_turns=g.max_turns)
                h.shuffles = g.shuffles          # (a counter the subclasses' constructors do not take)
                h._cv_fake = g._cv_fake; h._cv_ints = g._cv_ints; h._cv_hostile = getattr(g, "_cv_hostile", False)
                g = h
            except Exception as e:
                rec["resume_exc"] = f"{type(e).__name__}: {str(e)[:100]}"
        if fork_at is not None and forked is None and not op.get("probe"):
            if nreal == fork_at:
                if case.get("fork_mode") == "stale":
                    # play goes on with a deep copy while the original stays behind, frozen in this state (and alive)
                    rec.setdefault("_frozen", []).append(g)
                    g = copy.deepcopy(g)
                    forked = (oi, None)
                else:
                    forked = (oi, copy.deepcopy(g))     # a deep copy of the live game, continued after the original (see below)
        if not op.get("probe"):
            nreal += 1
        tgt = g
        if op.get("probe"):
            tgt = copy.deepcopy(g)
            tgt._cv_fake = copy.copy(g._cv_fake)
        before = digest(observe(tgt))
        r, e = apply_op(tgt, op)
        st = {"r": r, "e": e}
        if r == "ok":
            st["s"] = observe(tgt)
        else:
            after = observe(tgt)
            st["unchanged"] = digest(after) == before
            if not st["unchanged"]:
                st["s_rej"] = after     # the object lives on in this state: invariants must still hold in it
        rec["steps"].append(st)
    rec.pop("_frozen", None)
    if forked is not None and forked[1] is not None:
        oi0, c = forked
        fsteps = []
        for op in case["ops"][oi0:]:
            if op.get("probe"):
                fsteps.append(None); continue
            r, e = apply_op(c, op)
            st = {"r": r, "e": e}
            if r == "ok":
                st["s"] = observe(c)
            fsteps.append(st)
        rec["fork"] = {"from": oi0, "steps": fsteps}
    return rec


def request(case, io=None):
    ops = case["ops"]
    ro = (io or {}).get("reorder") if isinstance(io, dict) else None
    if ro:
        # the model's hands are put in the same order as the restored object's (a silent driver operation)
        ops = list(ops[:ro["oi"]]) + [{"k": "reorder", "p1": ro["p1"], "p2": ro["p2"]}] + list(ops[ro["oi"]:])
    r = {"op": "gin", "variant": case["variant"], "max_turns": case.get("max_turns"), "deck": case["deck"],
         "discard": case["discard"], "p1": case["p1"], "p2": case["p2"], "turn": case["turn"],
         "shuffle": case.get("shuffle", [0, 0]), "ops": ops}
    if case.get("hud0") == "empty":
        r["hud0"] = []          # the game starts from an explicitly empty public card map (model: newGameWith … (some []))
    return r


# ---------------------------------------------------------------- independent specs

def all_melds(hand, run_lens=None, set_sizes=(3, 4)):
    """every legal meld inside `hand`, straight from the rule"""
    hs = set(hand); ms = set()
    byr = collections.defaultdict(list)
    for c in hand:
        byr[c[0]].append(c)
    for r, cs in byr.items():
        for k in set_sizes:
            for comb in itertools.combinations(cs, k):
                ms.add(frozenset(comb))
    for s in SU:
        for lo in range(1, 13):
            for hi in range(lo + 2, 15):
                if hi - lo + 1 > 13:
                    continue
                if run_lens is not None and (hi - lo + 1) not in run_lens:
                    continue
                cs = [R[v] + s for v in range(lo, hi + 1)]
                if len(set(cs)) == len(cs) and all(c in hs for c in cs):
                    ms.add(frozenset(cs))
    return sorted(ms, key=lambda m: sorted(m))


def is_legal_meld(m):
    m = list(m)
    if len(set(m)) != len(m) or len(m) < 3:
        return False
    if len({c[0] for c in m}) == 1:
        return len(m) in (3, 4)
    if len({c[1] for c in m}) != 1:
        return False
    vals = sorted(RV[c[0]] for c in m)
    if vals == list(range(vals[0], vals[0] + len(vals))):
        return True
    if vals[0] == 1:   # ace high
        v2 = vals[1:] + [14]
        return v2 == list(range(v2[0], v2[0] + len(v2)))
    return False


def dw(cs):
    return sum(min(10, RV[c[0]]) for c in cs)


def best_deadwood(hand, layoff=None):
    ms = all_melds(hand)
    b = [10 ** 9]

    def rec(i, used):
        U = [c for c in hand if c not in used]
        L = layoff(U) if layoff else set()
        b[0] = min(b[0], dw([c for c in U if c not in L]))
        for j in range(i, len(ms)):
            if not (ms[j] & used):
                rec(j + 1, used | ms[j])
    rec(0, frozenset())
    return b[0]


def is_set(m):
    return len({c[0] for c in m}) == 1


def span(m):
    s = next(iter(m))[1]
    v = sorted(RV[c[0]] for c in m)
    if v[0] == 1 and v[-1] == 13:
        v = v[1:] + [14]
    return s, v[0], v[-1]


def mk_layoff(opp):
    """maximal legal lay-off set (fixed point of the rule) for unmelded cards U"""
    spans = [span(m) for m in opp if not is_set(m)]
    sets3 = [next(iter(m))[0] for m in opp if is_set(m) and len(m) == 3]

    def f(U):
        U = set(U)
        L = {c for c in U if c[0] in sets3}
        for (s, lo, hi) in spans:
            v = lo - 1
            while v >= 1 and R[v] + s in U:
                L.add(R[v] + s); v -= 1
            v = hi + 1
            while v <= 14 and R[v] + s in U:
                L.add(R[v] + s); v += 1
        return L
    return f


def layoff_ok(opp, laid):
    """every card in `laid` is a legal lay-off on the knocker's melds `opp` (given the others in `laid`)"""
    f = mk_layoff(opp)
    return set(laid) <= f(set(laid))


def ricky_value(hand):
    """gin ricky value by the 3+4 rule, independent of the implementation"""
    n = len(hand)

    def val(cs):
        t = sum(RV[c[0]] for c in cs)
        if n == 8:
            t -= max(RV[c[0]] for c in cs)
        return t
    m3 = all_melds(hand, run_lens=(3,), set_sizes=(3,))
    m4 = all_melds(hand, run_lens=(4,), set_sizes=(4,))
    for a in m3:
        for b in m4:
            if not (a & b):
                return 0
    best = val(hand)
    for m in m3 + m4:
        best = min(best, val([c for c in hand if c not in m]))
    return best


# ---------------------------------------------------------------- generators

def dense_deck(rng):
    d = list(CARDS)
    rng.shuffle(d)
    r = rng.random()
    if r < 0.35:
        d.sort(key=lambda c: (c[1], RV[c[0]]))
    elif r < 0.7:
        d.sort(key=lambda c: (RV[c[0]], c[1]))
    if r < 0.7:
        for _ in range(rng.randint(0, 14)):
            i, j = rng.randrange(52), rng.randrange(52)
            d[i], d[j] = d[j], d[i]
    return d


def dense_cards(rng, k, exclude=()):
    style = rng.randrange(5)
    pool = [c for c in CARDS if c not in exclude]
    if style == 0:
        ranks = rng.sample(RANKS, rng.choice([4, 5, 6, 7])); p = [c for c in pool if c[0] in ranks]
    elif style == 1:
        suits = rng.sample(SU, rng.choice([1, 2])); p = [c for c in pool if c[1] in suits]
    elif style == 2:
        p = [c for c in pool if c[0] in "A23456JQK"]
    elif style == 3:
        i = rng.randrange(0, 8); win = RANKS[i:i + 6]; p = [c for c in pool if c[0] in win or c[0] == "A"]
    else:
        p = pool
    if len(p) < k:
        p = pool
    return rng.sample(p, k)


def ricky_made_hand(rng, k=None):
    """a 7- or 8-card gin ricky hand BUILT from melds (random samples almost never hold them): a four-card meld plus a
    disjoint three-card meld (gin), or the same with one card of a meld replaced / a card of the other meld's suit or rank
    added, runs and sets in every mix (run+run in two suits or one, set+run crossing, set+set), in a random card order"""
    k = k or rng.choice([7, 8])

    def run(n, avoid=()):
        for _ in range(40):
            s_ = rng.choice(SU); lo = rng.randrange(1, 15 - n + 1)
            cs = [R[v] + s_ for v in range(lo, lo + n)]
            if len(set(cs)) == n and not (set(cs) & set(avoid)):
                return cs
        return None

    def kind_set(n, avoid=()):
        for _ in range(40):
            r = rng.choice(RANKS); cs = [r + s_ for s_ in rng.sample(SU, n)]
            if not (set(cs) & set(avoid)):
                return cs
        return None
    for _ in range(60):
        m4 = (run if rng.random() < 0.6 else kind_set)(4)
        if m4 is None:
            continue
        m3 = (run if rng.random() < 0.6 else kind_set)(3, m4)
        if m3 is None:
            continue
        hand = m4 + m3
        mode = rng.randrange(5)
        pool = [c for c in CARDS if c not in hand]
        if mode == 1:       # one card short of gin: a meld card replaced by a neighbour / stranger
            i = rng.randrange(len(hand)); hand[i] = rng.choice(pool); pool = [c for c in CARDS if c not in hand]
        elif mode == 2:     # the four-card meld cut to three: two three-card melds and a loose card
            hand.remove(rng.choice([m4[0], m4[-1]])); hand.append(rng.choice(pool)); pool = [c for c in CARDS if c not in hand]
        if k == 8:
            near = [c for c in pool if c[0] in {x[0] for x in hand} or c[1] in {x[1] for x in hand}]
            hand.append(rng.choice(near if near and rng.random() < 0.7 else pool))
        if len(set(hand)) != k:
            continue
        order = rng.randrange(4)
        if order == 0:
            rng.shuffle(hand)
        elif order == 1:
            hand = hand[::-1]
        elif order == 2:
            hand = m3 + [c for c in hand if c not in m3]
        return hand
    return dense_cards(rng, k)


def gen_game(rng):
    variant = "rummy" if rng.random() < 0.65 else "ricky"
    n = 10 if variant == "rummy" else 7
    d = dense_deck(rng)
    stock = d[2 * n + 1:]
    if rng.random() < 0.35:   # short stock: reach the wall / exhaustion quickly
        stock = stock[:rng.choice([2, 3, 4, 5, 8])]
    case = {"variant": variant, "max_turns": rng.choice([None, None, None, 1, 2, 3, 8, 40]),
            "deck": stock, "discard": [d[2 * n]], "p1": d[:n], "p2": d[n:2 * n],
            "turn": rng.choice(["p1-draws-first", "p2-draws-first"]),
            "shuffle": [rng.randrange(4), rng.randrange(0, 20)], "ops": []}
    if rng.random() < 0.3:
        case["ints"] = True          # seat / pile / knock flags given as 1 and 0 instead of True and False
    if rng.random() < 0.35:
        case["hostile"] = True       # every view / candidate list handed out is edited by its receiver (gin.scribble)
    if rng.random() < 0.2:
        case["resume_at"] = rng.choice([0, 1, 2, 3, 5, 8, 13])
    if rng.random() < 0.3:
        case["fork_at"] = rng.choice([0, 1, 2, 3, 4, 6, 9, 15])
        case["fork_mode"] = rng.choice(["late", "stale"])
    if rng.random() < 0.2:
        # long ricky games that exhaust the stock (several times): a shuffled (melds are rare) deal, a short stock, no
        # turn limit, and `play` keeps the hands away from gin -- the discards are reshuffled into a new stock
        d = list(CARDS); rng.shuffle(d)
        case.update({"variant": "ricky", "max_turns": rng.choice([None, None, 60]), "p1": d[:7], "p2": d[7:14], "discard": [d[14]],
                     "deck": d[15:15 + rng.choice([1, 2, 3, 4, 6, 9, 37])], "shuffle": [rng.randrange(1, 4), rng.randrange(0, 20)],
                     "_avoid_gin": True})
    return case


def probe_ops(rng, g):
    hand = g.p1_hand if g.turn.p1() else g.p2_hand
    other = g.p2_hand if g.turn.p1() else g.p1_hand
    cand = [{"k": "pass"}, {"k": "draw", "d": True}, {"k": "draw", "d": False},
            {"k": "knock", "knocks": False}, {"k": "knock", "knocks": True}]
    if hand and len(hand) >= 6 and g.turn.is_knock():
        # knocks that name something that is not a legal arrangement: a triple that is neither a set nor a run, a meld
        # using a card the knocker does not hold, the same meld twice -- each must be refused and leave everything as it was
        h = list(hand)
        bad = [c for c in itertools.combinations(h[:7], 3) if not is_legal_meld(c)]
        if bad:
            cand.append({"k": "knock", "knocks": True, "melds": [list(rng.choice(bad))]})
        good = [list(m) for m in all_melds(h)]
        if good:
            m = rng.choice(good)
            cand.append({"k": "knock", "knocks": True, "melds": [m, list(rng.choice(bad))] if bad else [m, m]})
            cand.append({"k": "knock", "knocks": True, "melds": [m, m]})
            if other:
                cand.append({"k": "knock", "knocks": True, "melds": [m[:-1] + [rng.choice(other)]]})
    if hand:
        cand.append({"k": "discard", "c": rng.choice(hand)})
    if other:
        cand.append({"k": "discard", "c": rng.choice(other)})
    if g.deck:
        cand.append({"k": "discard", "c": g.deck[0]})
    return cand


def play(rng, case, probes=2, max_ops=160):
    ops = case["ops"] = []
    try:
        g = new_game(case)
    except Exception:
        return case
    steps = 0
    while not g.is_complete and steps < max_ops:
        steps += 1
        if probes:
            pc = probe_ops(rng, g)
            rng.shuffle(pc)
            for p in pc[:probes]:
                ops.append({**p, "probe": True})
        t = g.turn
        p1 = t.p1()
        hand = g.p1_hand if p1 else g.p2_hand
        if t.is_first_draw():
            op = {"k": "pass"} if rng.random() < 0.5 else {"k": "draw", "d": True}
        elif t.is_draw():
            op = {"k": "draw", "d": True} if (g.discard and rng.random() < 0.4) else {"k": "draw", "d": False}
            if not g.deck and not g.discard:
                break
            if not g.deck:
                op = {"k": "draw", "d": True}
        elif t.is_discard():
            if case.get("_avoid_gin") and hand and rng.random() < 0.9:
                try:
                    c = max(hand, key=lambda c: (g.get_deadwood([x for x in hand if x != c]), c))
                except Exception:
                    c = rng.choice(hand)
            elif rng.random() < 0.6 and hand:
                try:
                    c = min(hand, key=lambda c: g.get_deadwood([x for x in hand if x != c]))
                except Exception:
                    c = rng.choice(hand)
            else:
                c = rng.choice(hand)
            op = {"k": "discard", "c": c}
        elif t.is_knock():
            try:
                cands = g.get_knock_candidates()
            except Exception:
                cands = []
            if rng.random() < 0.55 and cands:
                _, melds = rng.choice(cands)
                op = {"k": "knock", "knocks": True, "melds": [list(m) for m in melds] if rng.random() < 0.85 else None}
            else:
                op = {"k": "knock", "knocks": False}
        else:
            break
        r, _ = apply_op(g, op)
        ops.append(op)
        if r != "ok":
            break
    return case


def iter_ops(case):
    rec = {"steps": []}
    try:
        g = new_game(case)
    except Exception as e:
        rec["ctor"] = {"err": type(e).__name__}
        yield rec
        return
    rec["ctor"] = observe(g)
    yield rec
    for op in case["ops"]:
        tgt = g
        if op.get("probe"):
            tgt = copy.deepcopy(g); tgt._cv_fake = copy.copy(g._cv_fake)
        r, e = apply_op(tgt, op)
        st = {"r": r}
        if r == "ok":
            st["s"] = observe(tgt)
        rec["steps"].append(st)
        yield rec


def helper_prelude(hand, code):
    """Calls the library's public, pure gin helpers on the very hand about to be evaluated, under settings chosen by
    `code` other than the ones the evaluation itself uses (deadwood limits, stop-on-gin, own meld choices, the ricky
    valuation, the rank/suit helpers with other ace flags).  On correct code these calls have no effect; a result that
    changes after them depends on process history (e.g. a memo table keyed too coarsely or poisoned by a filtered
    result), which the properties that quantify over every hand exclude."""
    from card_utils.games.gin.rummy import utils as ru
    from card_utils.games.gin.ricky import utils as ku
    from card_utils.games.gin import utils as gu
    from card_utils.deck import utils as du
    hand = list(hand)
    k = 0

    def on():
        nonlocal k
        k += 1
        return (code >> (k % 16)) & 1

    cands = []
    for md in (10, 0, 5, None, 60):
        for stop in (True, False):
            if on():
                try:
                    cands = list(ru.get_candidate_melds(list(hand), max_deadwood=md, stop_on_gin=stop)) or cands
                except Exception:
                    pass
    if on():
        try:
            ru.split_melds(list(hand))
        except Exception:
            pass
    if cands and on():
        try:
            worst = max(cands, key=lambda c: c[0])
            ru.split_melds(list(hand), melds=[list(m) for m in worst[1]])
        except Exception:
            pass
    for n in (7, 8):
        if on():
            try:
                ku.hand_points(list(hand[:n]))
            except Exception:
                pass
    for s in SU:
        ranks = [c[0] for c in hand if c[1] == s]
        for ah, al in ((False, True), (True, False)):
            if on():
                try:
                    gu.rank_straights(ranks, aces_high=ah, aces_low=al, suit=s)
                except Exception:
                    pass
        for other in SU:
            if other != s and on():
                try:
                    gu.rank_straights(ranks, suit=other)
                except Exception:
                    pass
    for f in (gu.get_sets, du.rank_partition, du.suit_partition):
        try:
            f(list(hand))
        except Exception:
            pass
    # ... and a caller that EDITS what these helpers hand back (pops the cards it has shown, sorts the meld lists, reuses
    # them as scratch space): every container reachable from a result is emptied in place (scribble); the results belong to
    # the caller, nothing the library keeps may change with them
    for f in (ku.get_runs, ku.get_melds, gu.get_sets, ku.sort_hand, lambda h: ku.sorted_hand_points(h), du.rank_partition,
              du.suit_partition, lambda h: ru.get_candidate_melds(h), lambda h: ru.split_melds(h),
              lambda h: gu.rank_straights([c[0] for c in h if c[1] == h[0][1]], suit=h[0][1]) if h else None):
        if on():
            for n in (len(hand), 7, 8):
                try:
                    r = f(list(hand[:n]))
                    scribble(list(r) if isinstance(r, tuple) else r)
                except Exception:
                    pass
