"""C16: games are isolated -- transcripts do not depend on other games played earlier in, or interleaved with, the
same interpreter; process-global containers of card_utils are never written."""
import json, os, random, sys, hashlib, copy
from . import core, poker, gin
from .engine import Prop, Verdict
from .p_poker import walk as poker_walk, diff_obs, ALL_FIELDS
from . import p_gin


def run_deal(t):
    """a deal made by the library's own helpers under an injected shuffle that permutes BY POSITION whatever list it is
    given (like a real seeded shuffle): the outcome is a function of the permutation only -- not of earlier deals"""
    import card_utils.deck.utils as du
    import card_utils.games.poker.util as pu
    import card_utils.games.gin.utils as gu
    idx = t["perm"]

    class Fake:
        def shuffle(_, l):
            l[:] = [l[i] for i in idx] if len(l) == len(idx) else l[::-1]

        def __getattr__(_, name):
            if name.startswith("__"):
                raise AttributeError(name)
            return getattr(random.Random(len(idx)), name)
    old = du.random
    du.random = Fake()
    try:
        h = t["helper"]
        if h == "deck":
            out = {"deck": list(du.random_deck())}
        elif h == "hands":
            rest, hands = pu.deal_random_hands(t["nh"], t["nc"])
            out = {"rest": list(rest), "hands": [list(x) for x in hands]}
        else:
            g = gu.new_game(t["n"])
            out = {k: list(v) for k, v in g.items()}
    except Exception as e:
        out = {"exc_deal": type(e).__name__}
    finally:
        du.random = old
    return {"deal": out, "steps": []}


def iter_trace(t):
    if t["kind"] == "deal":
        yield run_deal(t)
    elif t["kind"] == "poker":
        yield from poker.iter_ops(t)
    else:
        yield from gin.iter_ops(t)


def run_trace(t):
    rec = None
    for rec in iter_trace(t):
        pass
    return rec


def global_inventory():
    """every module-level and class-level mutable container of card_utils, rendered canonically"""
    inv = {}
    for name, mod in sorted(sys.modules.items()):
        if not (name == "card_utils" or name.startswith("card_utils.")) or mod is None:
            continue
        for k, v in sorted(vars(mod).items()):
            if k.startswith("_") and k != "_cards_rds":
                continue        # private globals (a correctly keyed cache is a legitimate optimisation): judged by behaviour only
            if isinstance(v, (list, dict, set, frozenset, tuple)) and getattr(v, "__module__", None) is None:
                inv[f"{name}.{k}"] = canon(v)
            if isinstance(v, type) and getattr(v, "__module__", "") == name:
                for a, av in sorted(vars(v).items()):
                    if a.startswith("_"):
                        continue        # interpreter caches (copyreg __slotnames__, Enum internals)
                    if isinstance(av, (list, dict, set)):
                        inv[f"{name}.{k}.{a}"] = canon(av)
    return inv


def canon(v):
    if isinstance(v, dict):
        return "{" + ",".join(sorted(f"{canon(k)}:{canon(x)}" for k, x in v.items())) + "}"
    if isinstance(v, (set, frozenset)):
        return "s{" + ",".join(sorted(canon(x) for x in v)) + "}"
    if isinstance(v, (list, tuple)):
        return "[" + ",".join(canon(x) for x in v) + "]"
    return repr(v)


class Zygote:
    """a pristine interpreter: imports card_utils, never plays; forks one child per trace"""

    def __init__(self):
        import subprocess
        env = dict(os.environ)
        env["PYTHONHASHSEED"] = os.environ.get("PYTHONHASHSEED", "0")
        self.p = subprocess.Popen([sys.executable, "-c", "import sys; sys.path.insert(0, %r); from harness import p_iso; p_iso.zygote_main()" % core.VERIF],
                                  stdin=subprocess.PIPE, stdout=subprocess.PIPE, text=True, env=env, cwd=core.VERIF)

    def run(self, traces):
        self.p.stdin.write(json.dumps(traces) + "\n"); self.p.stdin.flush()
        line = self.p.stdout.readline()
        if not line:
            raise core.Infra("zygote died")
        return json.loads(line)

    def close(self):
        try:
            self.p.stdin.close(); self.p.wait(timeout=5)
        except Exception:
            self.p.kill()


def zygote_main():
    core.import_repo()
    # import everything a trace may touch, but play nothing
    poker.classes()
    import card_utils.games.gin.rummy.game_state, card_utils.games.gin.ricky.game_state  # noqa
    for line in sys.stdin:
        traces = json.loads(line)
        out = []
        for t in traces:
            r, w = os.pipe()
            pid = os.fork()
            if pid == 0:
                os.close(r)
                try:
                    rec = run_trace(t)
                    data = json.dumps(rec)
                except Exception as e:
                    data = json.dumps({"exc": type(e).__name__})
                with os.fdopen(w, "w") as fh:
                    fh.write(data)
                os._exit(0)
            os.close(w)
            with os.fdopen(r) as fh:
                data = fh.read()
            os.waitpid(pid, 0)
            out.append(json.loads(data) if data else {"exc": "child died"})
        sys.stdout.write(json.dumps(out) + "\n"); sys.stdout.flush()


def sibling(rng, cfg):
    """a hand sharing cards with `cfg` under different roles"""
    c = copy.deepcopy(cfg)
    n = c["n"]
    kind = rng.randrange(5)
    if kind == 0:      # one player swaps hole cards with the cards that will become the board
        i = rng.randrange(n)
        k = rng.randrange(1, len(c["hands"][i]) + 1)
        hi = rng.sample(range(len(c["hands"][i])), k)
        m = min(5, len(c["deck"]))          # small-scope configurations may come with a very short deck
        bi = rng.sample(range(m), min(k, m))
        for a, b in zip(hi, bi):
            c["hands"][i][a], c["deck"][b] = c["deck"][b], c["hands"][i][a]
    elif kind == 1:    # same hands, another board
        head, rest = c["deck"][:5], c["deck"][5:]
        rng.shuffle(rest)
        c["deck"] = rest[:5] + head + rest[5:]
    elif kind == 2:    # same board, hands rotated among the seats
        c["hands"] = c["hands"][1:] + c["hands"][:1]
    elif kind == 3:    # same cards, other order inside hands and board
        for h in c["hands"]:
            rng.shuffle(h)
        head = c["deck"][:5]; rng.shuffle(head)
        c["deck"] = head + c["deck"][5:]
    else:              # same cards, other stacks / blinds
        c["stacks"] = [max(4, x + rng.choice([-3, 5, 40])) for x in c["stacks"]]
    return c


class C16(Prop):
    pid = "C16"
    title = "isolation: transcripts in a pristine interpreter = after/between other games; process-global containers never written"
    rule = ("each case = 3-5 poker/gin traces (with probes); transcripts are produced (a) each in a freshly forked pristine "
            "interpreter, (b) sequentially in shuffled order after earlier games in the long-lived worker, (c) interleaved step "
            "by step; all three must coincide and match the per-game Lean model; module/class-level containers are deep-compared "
            "before/after; non-trivial = case with >= 2 traces of >= 2 accepted steps; distinct by trace contents")
    batch = 8
    trusted_base = ["a freshly forked child of a process that imported card_utils but never played stands for a fresh interpreter"]
    assumptions = ["inputs are passed by value (fresh lists per game object), except blinds, deck and starting stacks: in the sequential "
                   "pass all tables of a case with equal blinds / the same deal / the same line-up are built from one list object each "
                   "(a game must not write to the lists it is given; the unchanged engine only ever rebinds its deck)"]

    def setup(self):
        super().setup()
        poker.classes()
        import card_utils.games.gin.rummy.game_state, card_utils.games.gin.ricky.game_state  # noqa
        import card_utils.games.poker.community.omaha.hutchinson, card_utils.games  # noqa
        self.zy = Zygote()
        self.inv0 = global_inventory()

    def generate(self, rng, tier, shard):
        while True:
            traces = []
            for _ in range(rng.randrange(3, 6)):
                if rng.random() < 0.65:
                    t = poker.play(rng, poker.gen_cfg(rng), probes_per_state=2)
                    t["kind"] = "poker"
                else:
                    t = gin.play(rng, gin.gen_game(rng), probes=1, max_ops=40)
                    t["kind"] = "gin"
                traces.append(t)
            for _ in range(rng.randrange(0, 3)):
                perm = list(range(52)); rng.shuffle(perm)
                traces.insert(rng.randrange(len(traces) + 1),
                              {"kind": "deal", "helper": rng.choice(["deck", "hands", "gin"]), "perm": perm, "nh": rng.randrange(1, 7),
                               "nc": rng.randrange(1, 5), "n": rng.choice([7, 10, 3]), "ops": []})
            order = list(range(len(traces))); rng.shuffle(order)
            if rng.random() < 0.6:
                # adversarial history: "sibling" hands that share cards with a target hand under different roles (same
                # nine cards split differently between hole cards and board, same hands on another board, same cards
                # in another order, other stacks) -- whatever a process-wide cache might be keyed on too coarsely.
                # The siblings are played first, the target last.
                tgt = poker.gen_cfg(rng)
                tgt["stacks"] = [max(4, x) for x in tgt["stacks"]]
                tgt["board"] = []
                sibs = [sibling(rng, tgt) for _ in range(rng.randrange(1, 4))]
                group = []
                for cfg in sibs + [tgt]:
                    t = poker.play(rng, copy.deepcopy(cfg), probes_per_state=0, policy="checkcall")
                    t["kind"] = "poker"
                    group.append(t)
                base = len(traces)
                traces = traces + group
                order = order + list(range(base, base + len(group)))
            if rng.random() < 0.3:
                # the same for gin: the target deal after siblings with suits relabelled / hands swapped / another stock order
                tg = gin.gen_game(rng)
                group = []
                for j in range(rng.randrange(1, 3)):
                    sb = copy.deepcopy(tg)
                    kindg = rng.randrange(3)
                    if kindg == 0:
                        perm = dict(zip("cdhs", rng.sample("cdhs", 4)))
                        for k in ("deck", "discard", "p1", "p2"):
                            sb[k] = [c[0] + perm[c[1]] for c in sb[k]]
                    elif kindg == 1:
                        sb["p1"], sb["p2"] = sb["p2"], sb["p1"]
                    else:
                        rng.shuffle(sb["deck"])
                    group.append(sb)
                group.append(tg)
                base = len(traces)
                for cfgg in group:
                    t = gin.play(rng, cfgg, probes=0, max_ops=30)
                    t["kind"] = "gin"
                    traces = traces + [t]
                order = order + list(range(base, base + len(group)))
            yield {"traces": traces, "order": order, "iseed": rng.randrange(1 << 30)}

    def impl(self, case):
        traces = case["traces"]
        out = {}
        inv_before = global_inventory()
        out["fresh"] = self.zy.run(traces)
        # (b) batched, shuffled order, in this long-lived worker (which has played many games before)
        res = [None] * len(traces)
        poker.SHARED = {}       # tables with equal blinds are seated from ONE blinds list object in this pass (poker.cfg_kwargs)
        try:
            for i in case["order"]:
                try:
                    res[i] = run_trace(traces[i])
                except Exception as e:
                    res[i] = {"exc": type(e).__name__}
        finally:
            poker.SHARED = None
        out["batched"] = res
        # (c) interleaved step by step
        rng = random.Random(case["iseed"])
        its = [iter_trace(t) for t in traces]
        cur = [None] * len(traces)
        live = list(range(len(traces)))
        while live:
            i = rng.choice(live)
            try:
                cur[i] = copy.deepcopy(next(its[i]))
            except StopIteration:
                live.remove(i)
            except Exception as e:
                cur[i] = {"exc": type(e).__name__}; live.remove(i)
        out["inter"] = cur
        # (d) deep copies: a trace with a fork point is run once more through the forking runner (copy continued after the
        # original / original left behind): the copy is an independent game object
        from .p_poker import fork_diff
        forks = []
        for i, t in enumerate(traces):
            if t.get("fork_at") is None or t["kind"] not in ("poker", "gin"):
                continue
            try:
                if t["kind"] == "poker":
                    rec, _ = poker.run_ops(t)
                    fd = fork_diff(t, rec, ALL_FIELDS, True)
                else:
                    rec = gin.run_ops(t)
                    fd = fork_diff(t, rec, ("deck", "discard", "p1", "p2", "turn", "complete", "p1_points", "p2_points", "hud"), True, fmt=p_gin.op_str)
                if fd:
                    forks.append(f"trace {i}: {fd}")
                elif t.get("fork_mode") == "stale" and norm_steps(rec) != norm_steps(res[i]):
                    forks.append(f"trace {i}: played on a deep copy (original left behind after {t['fork_at']} moves) the game differs "
                                 f"from the same game played on one object: {first_diff(norm_steps(res[i]), norm_steps(rec))}")
            except Exception as e:
                forks.append(f"trace {i}: forking runner failed: {type(e).__name__}: {str(e)[:80]}")
        out["forks"] = forks
        inv_after = global_inventory()
        # (containers of modules imported lazily in between appear as new keys: only keys present on both sides count)
        # only the library's shared CONSTANTS count (containers that were non-empty when the library was imported: the deck,
        # the rank / suit maps, the Action sets -- C16's and C20's statements name them); a container that starts empty
        # and fills up is a cache, and a cache is judged by behaviour (histories, siblings, forks), not by its existence
        const = {k for k, v in self.inv0.items() if v not in ("[]", "{}", "s{}")}
        out["globals_changed"] = sorted(k for k in set(inv_before) & set(inv_after) & const if inv_before[k] != inv_after[k])
        out["globals_vs_start"] = sorted(k for k in const & set(inv_after) if self.inv0[k] != inv_after[k])
        return out

    def request(self, case, io):
        return {"op": "multi", "reqs": [poker.request(t) if t["kind"] == "poker" else gin.request(t) if t["kind"] == "gin"
                                        else {"op": "rank5", "hands": []} for t in case["traces"]]}

    def judge(self, case, io, mo):
        why_o = []; why_c = []
        norm = lambda r: json.loads(json.dumps(r))
        for i, t in enumerate(case["traces"]):
            f, b, c = norm(io["fresh"][i]), norm(io["batched"][i]), norm(io["inter"][i])
            if f != b:
                why_o.append(f"trace {i} ({t['kind']}): transcript after other games differs from the transcript in a pristine interpreter: {first_diff(f, b)}")
            if f != c:
                why_o.append(f"trace {i} ({t['kind']}): transcript when interleaved with other games differs from the pristine one: {first_diff(f, c)}")
            # correspondence of the pristine transcript with the per-game model
            if "exc" in f:
                why_c.append(f"trace {i}: harness error {f['exc']}")
                continue
            if t["kind"] == "deal":
                continue        # the dealing helpers' own contract is C20's; here only: same permutation, same deal
            if t["kind"] == "poker":
                evs = poker_walk(t, f, mo[i])
                for e in evs:
                    if not e.synced: break
                    if e.ri != e.rm:
                        why_c.append(f"trace {i} step {e.i}: impl {e.ri} model {e.rm}"); break
                    if e.oi is not None and e.om is not None:
                        d = diff_obs(e.oi, e.om, ALL_FIELDS)
                        if d:
                            why_c.append(f"trace {i} step {e.i}: " + "; ".join(d[:3])); break
            else:
                evs = p_gin.walk(t, f, mo[i])
                for e in evs:
                    if not e.synced: break
                    if e.ri != e.rm:
                        why_c.append(f"trace {i} step {e.i}: impl {e.ri} model {e.rm}"); break
                    if e.oi is not None and e.om is not None:
                        d = [x for fl in ("deck", "discard", "p1", "p2", "turn", "complete", "p1_points", "p2_points", "hud") for x in p_gin.cmp_field(fl, e.oi, e.om)]
                        if d:
                            why_c.append(f"trace {i} step {e.i}: " + "; ".join(d[:3])); break
        for w in io.get("forks", [])[:2]:
            why_o.append(w)
        if io["globals_changed"] or io["globals_vs_start"]:
            why_o.append(f"process-global containers of card_utils were modified: {io['globals_changed'] or io['globals_vs_start']}")
        ok_traces = sum(1 for f in io["fresh"] if "steps" in f and sum(1 for s in f["steps"] if s["r"] == "ok") >= 2)
        key = core.stable_hash([[t.get("stacks"), t.get("p1"), t["ops"]] for t in case["traces"]]) if ok_traces >= 2 else None
        tags = [f"traces={len(case['traces'])}"] + sorted({t["kind"] for t in case["traces"]})
        return Verdict(not why_c, not why_o, " ;; ".join([w[:500] for w in why_o[:3] + why_c[:2]]), key, tags)


def norm_steps(rec):
    """accept/reject + state of every non-probe... every step, JSON-normalised, without the fork bookkeeping"""
    if rec is None or "steps" not in rec:
        return rec
    return json.loads(json.dumps([{k: v for k, v in st.items() if k in ("r", "s")} for st in rec["steps"]]))


def first_diff(a, b, path=""):
    if type(a) != type(b):
        return f"{path}: {str(a)[:80]} vs {str(b)[:80]}"
    if isinstance(a, dict):
        for k in sorted(set(a) | set(b)):
            if a.get(k) != b.get(k):
                return first_diff(a.get(k), b.get(k), f"{path}.{k}")
    if isinstance(a, list):
        if len(a) != len(b):
            return f"{path}: lengths {len(a)} vs {len(b)}"
        for i, (x, y) in enumerate(zip(a, b)):
            if x != y:
                return first_diff(x, y, f"{path}[{i}]")
    return f"{path}: {str(a)[:80]} vs {str(b)[:80]}"
