"""Gin properties: C08 meld search, C09 containers, C10 turn protocol, C11 ending/scoring, C12 lay-offs, C17 views,
C19 ricky value."""
import collections, itertools, random
from . import core, gin
from .engine import Prop, Verdict

OPP = {"p1": "p2", "p2": "p1"}


def who(turn):
    return "p1" if turn.startswith("p1") else "p2"


def kind(turn):
    if turn.endswith("draws-first"): return "first"
    if turn.endswith("draws-from-deck"): return "fromdeck"
    if turn.endswith("draws"): return "draw"
    if turn.endswith("discards"): return "discard"
    return "knock"


def ms(l):
    return collections.Counter(l)


def cmp_view(iv, mv):
    if iv is None or mv is None:
        return [] if iv is None and mv is None else [f"view presence impl={iv is not None} model={mv is not None}"]
    if isinstance(iv, str) or isinstance(mv, str):
        return [] if isinstance(iv, str) and isinstance(mv, str) else [f"view impl={iv} model={mv}"]
    d = []
    if ms(iv["hand"]) != ms(mv["hand"]): d.append(f"view.hand impl={iv['hand']} model={mv['hand']}")
    for k in ("points", "top", "lfd", "deck_length", "action", "drawn"):
        if iv[k] != mv[k]: d.append(f"view.{k} impl={iv[k]} model={mv[k]}")
    if dict(map(tuple, iv["hud"])) != dict(map(tuple, mv["hud"])): d.append(f"view.hud impl={iv['hud']} model={mv['hud']}")
    return d


def canon_kc(kc):
    if isinstance(kc, str):
        return kc
    out = set()
    for e in kc:
        dwv, melds = (e["dw"], e["melds"]) if isinstance(e, dict) else (e[0], e[1])
        out.add((dwv, frozenset(frozenset(m) for m in melds)))
    return out


def cmp_field(name, io, mo):
    iv, mv = io.get(name), mo.get(name)
    if name in ("v1", "v2"):
        return cmp_view(iv, mv)
    if name == "hud":
        return [] if dict(map(tuple, iv)) == dict(map(tuple, mv)) else [f"hud impl={iv} model={mv}"]
    if name == "kc":
        return [] if canon_kc(iv) == canon_kc(mv) else [f"knock candidates impl={iv} model={mv}"]
    return [] if iv == mv else [f"{name} impl={iv} model={mv}"]


class Ev:
    pass


def walk(case, rec, mo):
    evs = []
    ci, cm = rec.get("ctor"), mo.get("ctor")
    e = Ev(); e.i = -1; e.kind = "ctor"; e.op = None; e.prev = None
    e.ri = "ok" if ci and "err" not in ci else "rej"; e.rm = "ok" if "err" not in cm else "rej"
    e.oi = ci if e.ri == "ok" else None; e.om = cm if e.rm == "ok" else None; e.synced = True; e.unchanged = None; e.exc = ""; e.srej = None
    evs.append(e)
    if e.ri != "ok":
        return evs
    cur = ci; synced = e.rm == "ok"
    msteps = mo.get("steps", [])
    ro = rec.get("reorder")
    for i, (op, st) in enumerate(zip(case["ops"], rec["steps"])):
        m = msteps[i] if i < len(msteps) else {"r": "missing"}
        if ro and ro["oi"] == i:
            # the game was stored and restored before this move with the hands written in another order
            cur = {**cur, "p1": list(ro["p1"]), "p2": list(ro["p2"])}
        e = Ev(); e.i = i; e.op = op; e.kind = "probe" if op.get("probe") else "act"; e.prev = cur
        e.ri = st["r"]; e.rm = "ok" if m["r"] == "ok" else "rej"; e.oi = st.get("s"); e.om = m.get("s")
        e.synced = synced; e.unchanged = st.get("unchanged"); e.exc = st.get("e", ""); e.srej = st.get("s_rej")
        evs.append(e)
        if e.kind == "act":
            if e.ri == "ok":
                cur = e.oi
            if e.ri != e.rm:
                synced = False
    return evs


def op_str(op):
    if op is None:
        return "ctor"
    k = op["k"]
    if k == "draw": return "draw(discard)" if op["d"] else "draw(stock)"
    if k == "discard": return f"discard({op['c']})"
    if k == "knock": return f"knock({op['knocks']}, melds={op.get('melds')})"
    return k


class GinProp(Prop):
    batch = 25
    probes = 2
    fields = ()
    compare_results = True
    trusted_base = ["random.shuffle replaced by deterministic permutations passed identically to model and implementation",
                    "PYTHONHASHSEED=0; set-order dependent outputs compared as multisets / sets"]
    assumptions = ["games start from a legal deal (10+10+1 or 7+7+1 distinct cards, stock = the rest or a prefix of it)",
                   "moves after the game is complete are not probed (the properties do not speak about them)"]

    def gen_case(self, rng):
        c = gin.gen_game(rng)
        if c.get("resume_at") is not None and rng.random() < 0.6:
            c["resume_order"] = rng.choice(["sorted", "reversed", "display", "rot"])
        return gin.play(rng, c, probes=self.probes)

    def generate(self, rng, tier, shard):
        while True:
            yield self.gen_case(rng)

    def impl(self, case):
        return gin.run_ops(case)

    def request(self, case, io):
        return gin.request(case, io)

    def correspondence(self, case, evs):
        why = []
        for e in evs:
            if not e.synced:
                break
            if self.compare_results and e.ri != e.rm:
                why.append(f"step {e.i} {op_str(e.op)}: impl {e.ri} ({e.exc}) / model {e.rm}"); break
            if e.oi is not None and e.om is not None:
                d = [x for f in self.fields for x in cmp_field(f, e.oi, e.om)]
                if d:
                    why.append(f"step {e.i} {op_str(e.op)}: " + "; ".join(d[:3])); break
        return why

    def oracle(self, case, evs):
        return []

    def key_tags(self, case, evs):
        acts = [e for e in evs if e.kind == "act" and e.ri == "ok"]
        last = acts[-1].oi if acts else None
        tags = [case["variant"], f"max_turns={case.get('max_turns')}"]
        if last is not None:
            tags.append("complete" if last["complete"] else "open")
            tags.append("reshuffled" if last["shuffles"] and not last["complete"] or (case["variant"] == "ricky" and last["shuffles"]) else "no-reshuffle")
        key = core.stable_hash([case["variant"], case["p1"], case["p2"], [op_str(e.op) for e in acts]]) if len(acts) >= 3 else None
        return key, tags

    def judge(self, case, io, mo):
        evs = walk(case, io, mo)
        cw = self.correspondence(case, evs)
        ow = self.oracle(case, evs)
        from .p_poker import fork_diff
        fd = fork_diff(case, io, self.fields, self.compare_results, fmt=op_str)
        if fd:
            ow = [fd] + ow
        if io.get("resume_exc"):
            ow = ["the constructor refused the fields of a game in progress: " + io["resume_exc"]] + ow
        key, tags = self.key_tags(case, evs)
        if io.get("fork"):
            tags = list(tags) + ["forked"]
        if case.get("ints"):
            tags = list(tags) + ["int-flags"]
        return Verdict(not cw, not ow, " ;; ".join([w[:500] for w in ow[:5] + cw[:3]]), key, tags)

    def shrink_candidates(self, case):
        ops = case["ops"]
        for i, o in enumerate(ops):
            if o.get("probe"):
                yield {**case, "ops": ops[:i] + ops[i + 1:]}
                break
        for cut in (len(ops) // 2, len(ops) - 1):
            if 0 < cut < len(ops):
                yield {**case, "ops": ops[:cut]}


# ------------------------------------------------------------------------------------------------ C09

class C09(GinProp):
    pid = "C09"
    title = "stock, discard pile and hands partition the deal; hand sizes; each move moves exactly one card"
    fields = ("deck", "discard", "p1", "p2")
    compare_results = False
    probes = 1
    rule = ("random/steered rummy and ricky games (dense deals, short stocks, turn limits, 4 injected shuffle permutations), "
            "containers checked after every call; non-trivial = game with >= 3 accepted moves; distinct by (deal, move list)")

    def oracle(self, case, evs):
        why = []
        n = 10 if case["variant"] == "rummy" else 7
        init = ms(case["deck"] + case["discard"] + case["p1"] + case["p2"])
        for e in evs:
            o = e.oi
            if o is None and e.srej is not None:
                # a call that raised but left the object changed: the cards must still be the dealt ones
                allc = e.srej["deck"] + e.srej["discard"] + e.srej["p1"] + e.srej["p2"]
                if ms(allc) != init or any(c is None for c in allc):
                    why.append(f"step {e.i} {op_str(e.op)} raised ({e.exc}) and left containers that no longer hold each dealt card "
                               f"exactly once (extra {list((ms(allc) - init).elements())}, missing {list((init - ms(allc)).elements())})"); break
            if o is None:
                continue
            allc = o["deck"] + o["discard"] + o["p1"] + o["p2"]
            if ms(allc) != init or any(c is None for c in allc):
                why.append(f"step {e.i} {op_str(e.op)}: containers no longer hold each dealt card exactly once "
                           f"(extra {list((ms(allc) - init).elements())}, missing {list((init - ms(allc)).elements())})"); break
            if not o["complete"]:
                k = kind(o["turn"]); w = who(o["turn"])
                exp = {"p1": n, "p2": n}
                if k == "discard":
                    exp[w] = n + 1
                if len(o["p1"]) != exp["p1"] or len(o["p2"]) != exp["p2"]:
                    why.append(f"step {e.i} {op_str(e.op)}: hand sizes {len(o['p1'])},{len(o['p2'])} on turn {o['turn']}, expected {exp}"); break
            if e.kind == "ctor" or e.prev is None:
                continue
            p = e.prev; op = e.op
            mover = who(p["turn"])
            if op["k"] == "draw" or (op["k"] == "pass" and kind(o["turn"]) == "discard" and len(o[who(o["turn"])]) == n + 1):
                if op["k"] == "pass":
                    mover = who(o["turn"]); src = "deck"
                else:
                    src = "discard" if op["d"] else "deck"
                card = p["discard"][-1] if src == "discard" else p["deck"][0]
                ok = (o[mover] == p[mover] + [card] and o[OPP[mover]] == p[OPP[mover]]
                      and (o["discard"] == p["discard"][:-1] and o["deck"] == p["deck"] if src == "discard"
                           else o["deck"] == p["deck"][1:] and o["discard"] == p["discard"]))
                if not ok:
                    why.append(f"step {e.i} {op_str(op)}: a draw must move exactly the top card {card} of the {src} into {mover}'s hand"); break
            elif op["k"] == "discard":
                card = op["c"]
                hand_ok = ms(o[mover]) == ms(p[mover]) - ms([card]) and o[OPP[mover]] == p[OPP[mover]]
                if o["discard"] == p["discard"] + [card] and o["deck"] == p["deck"]:
                    pile_ok = True
                elif o["discard"] == [] and ms(o["deck"]) == ms(p["deck"] + p["discard"] + [card]):
                    pile_ok = True   # reshuffle
                else:
                    pile_ok = False
                if not (hand_ok and pile_ok):
                    why.append(f"step {e.i} {op_str(op)}: a discard must move exactly {card} to the top of the pile (or the pile is reshuffled into the stock)"); break
            elif op["k"] in ("pass", "knock"):
                same = o["p1"] == p["p1"] and o["p2"] == p["p2"]
                piles = (o["deck"] == p["deck"] and o["discard"] == p["discard"]) or \
                        (op["k"] == "knock" and o["discard"] == [] and ms(o["deck"]) == ms(p["deck"] + p["discard"]))
                if not (same and piles):
                    why.append(f"step {e.i} {op_str(op)}: cards moved on a move that moves none"); break
        return why


# ------------------------------------------------------------------------------------------------ C10

def allowed(o, op):
    if o["complete"]:
        return None
    k = kind(o["turn"]); w = who(o["turn"])
    if op["k"] == "pass":
        return k == "first"
    if op["k"] == "draw":
        if op["d"]:
            return k in ("first", "draw") and len(o["discard"]) > 0
        return k == "draw" and len(o["deck"]) > 0
    if op["k"] == "discard":
        return k == "discard" and op["c"] in o[w]
    if op["k"] == "knock":
        if k != "knock":
            return False
        # Spec/GinRules.lean `Allowed`: a knock that names melds is entertained only if each named meld is at least of one
        # rank or of one suit (what the scoring code can read as a set or a run)
        if op.get("knocks") and op.get("melds") is not None:
            return all(len({c[0] for c in m}) == 1 or len({c[1] for c in m}) == 1 for m in op["melds"])
        return True
    return False


class C10(GinProp):
    pid = "C10"
    title = "turn protocol: a move is accepted iff the turn allows it; transitions; rejected moves change nothing"
    fields = ("turn", "complete", "kc")
    compare_results = True
    probes = 5
    rule = ("at every state of random games all five entry points are probed (pass, draw stock/discard, discard of held / "
            "unheld / stock cards, knock/decline); non-trivial = game with >= 3 accepted moves")

    def oracle(self, case, evs):
        why = []
        first = case["turn"]
        passes = 0
        for e in evs:
            if e.kind == "ctor":
                continue
            p = e.prev
            A = allowed(p, e.op)
            if A is None:
                continue
            acc = e.ri == "ok"
            if acc != A:
                why.append(f"step {e.i}: {op_str(e.op)} {'accepted' if acc else 'rejected (' + e.exc + ')'} on turn {p['turn']} "
                           f"(discard pile {len(p['discard'])} cards, stock {len(p['deck'])}) but the turn {'allows' if A else 'does not allow'} it"); break
            if not acc and e.unchanged is False:
                why.append(f"step {e.i}: rejected {op_str(e.op)} changed the state"); break
            if acc and not e.oi["complete"]:
                o = e.oi; w = who(p["turn"]); k = kind(p["turn"])
                if e.op["k"] == "pass":
                    if p["turn"] != first:      # second pass: the first player must draw from the stock
                        exp = [first.replace("draws-first", "discards")]
                    else:
                        exp = [OPP[w] + "-draws-first"]
                elif e.op["k"] == "draw":
                    exp = [w + "-discards"]
                elif e.op["k"] == "discard":
                    hand_after = [c for c in p[w] if c != e.op["c"]]
                    if case["variant"] == "rummy" and gin.best_deadwood(hand_after) <= 10:
                        exp = [w + "-may-knock"]
                    else:
                        exp = [OPP[w] + "-draws"]
                else:
                    exp = [OPP[w] + "-draws"]
                if o["turn"] not in exp:
                    why.append(f"step {e.i}: after {op_str(e.op)} on {p['turn']} the turn is {o['turn']}, expected {exp}"); break
            if e.kind == "act" and acc and not e.oi["complete"] and kind(e.oi["turn"]) == "knock" and not isinstance(e.oi.get("kc"), str):
                # the knock offer: exactly the arrangements of <= 3 melds within ten (or one gin arrangement)
                o = e.oi
                hand = o[who(o["turn"])]
                legal = gin.all_melds(hand)
                exp = set()
                for k in range(0, 4):
                    for comb in itertools.combinations(legal, k):
                        cards = [x for m in comb for x in m]
                        if len(set(cards)) != len(cards):
                            continue
                        d = gin.dw([x for x in hand if x not in cards])
                        if d <= 10:
                            exp.add((d, frozenset(comb)))
                got = canon_kc(o["kc"])
                zero = {x for x in exp if x[0] == 0 and x[1]}
                ok = (len(got) == 1 and got <= zero) if zero else (got == exp)
                if not ok:
                    why.append(f"step {e.i}: knock candidates offered for {hand} are not exactly the arrangements within ten "
                               f"(missing {list(exp - got)[:2]}, unexpected {list(got - exp)[:2]})"); break
        return why


# ------------------------------------------------------------------------------------------------ C11

def norm(a, b):
    if a > b: return a - b, 0
    if b > a: return 0, b - a
    return a, b


def layoff_trap(rng):
    """knocker melds and a defender hand built around a card that fits BOTH a knocker set and the end of a knocker run of its
    suit, with one or two cards chained behind it on the run (laying the card on the set strands them): returns
    (knocker hand, knocker melds, defender hand) or None"""
    s = rng.choice(gin.SU)
    others = [x for x in gin.SU if x != s]
    up = rng.random() < 0.5
    # value of the dual-fit card: every rank that can sit at a run end, the court cards included (a king below the
    # knocker's T-J-Q with the ace chained behind it -- the ace is high there --, a deuce above 3-4-5 with the ace below)
    r = rng.randrange(4, 14) if up else rng.randrange(2, 12)
    card = lambda v, su: gin.R[v] + su
    X = card(r, s)
    if up:
        run = [card(r - 3, s), card(r - 2, s), card(r - 1, s)]
        chain = [card(r + 1, s)] + ([card(r + 2, s)] if r + 2 <= 14 and rng.random() < 0.5 else [])
    else:
        run = [card(r + 1, s), card(r + 2, s), card(r + 3, s)]
        chain = [card(r - 1, s)] + ([card(r - 2, s)] if r - 2 >= 1 and rng.random() < 0.5 else [])
    kset = [card(r, su) for su in others]
    used = set(run + kset + chain + [X])
    # a third meld of low cards in another suit and one low card of deadwood
    s3 = rng.choice(others)
    third = None
    for lo3 in (1, 5, 9, 6):
        cand = [card(lo3, s3), card(lo3 + 1, s3), card(lo3 + 2, s3)]
        if not (used & set(cand)):
            third = cand
            break
    if third is None:
        return None
    used |= set(third)
    lows = [c for c in gin.CARDS if c not in used and gin.RV[c[0]] <= 5]
    if not lows:
        return None
    dwc = rng.choice(lows); used.add(dwc)
    kh = run + kset + third + [dwc]
    pool = [c for c in gin.CARDS if c not in used]
    rest = rng.sample(pool, 10 - 1 - len(chain))
    dh = [X] + chain + rest
    rng.shuffle(dh)
    melds = [list(run), list(kset), list(third)]
    rng.shuffle(melds)
    for m in melds:
        rng.shuffle(m)
    return kh, melds, dh


def knock_scenario(rng):
    """a gin rummy game at the knock decision, built for lay-offs: the knocker's melds come from a dense sub-deck, the
    defender holds ten cards of the same ranks (cards that fit a set AND a run of the knocker, chains behind them)"""
    if rng.random() < 0.4:
        t = layoff_trap(rng)
        if t is not None:
            kh, opp, dh = t
            others = [c for c in gin.CARDS if c not in kh and c not in dh]
            rng.shuffle(others)
            p1k = rng.random() < 0.5
            return {"variant": "rummy", "max_turns": None, "deck": others[1:], "discard": [others[0]],
                    "p1": kh if p1k else dh, "p2": dh if p1k else kh, "turn": "p1-may-knock" if p1k else "p2-may-knock",
                    "shuffle": [0, 0], "ops": [{"k": "knock", "knocks": True, "melds": opp}]}
    for _ in range(60):
        ranks = rng.sample("A23456789TJQK", rng.choice([5, 6, 7]))
        sub = [r + s for r in ranks for s in gin.SU]
        kh = rng.sample(sub, 10)
        legal = gin.all_melds(kh)
        opp = []; used = set()
        for m in rng.sample(legal, len(legal)):
            if not (m & used) and len(opp) < 3:
                opp.append(sorted(m)); used |= m
        if not opp or gin.dw([c for c in kh if c not in used]) > 10:
            continue
        rest = [c for c in sub if c not in kh]
        if len(rest) < 10:
            continue
        dh = rng.sample(rest, 10)
        others = [c for c in gin.CARDS if c not in kh and c not in dh]
        rng.shuffle(others)
        for m in opp:
            rng.shuffle(m)
        p1k = rng.random() < 0.5
        case = {"variant": "rummy", "max_turns": None, "deck": others[1:], "discard": [others[0]],
                "p1": kh if p1k else dh, "p2": dh if p1k else kh, "turn": "p1-may-knock" if p1k else "p2-may-knock",
                "shuffle": [0, 0], "ops": [{"k": "knock", "knocks": True, "melds": opp if rng.random() < 0.85 else None}]}
        return case
    return None


class C11(GinProp):
    pid = "C11"

    def gen_case(self, rng):
        if rng.random() < 0.25:
            c = knock_scenario(rng)
            if c is not None:
                return c
        return super().gen_case(rng)

    title = "ending and scoring: gin / knock+undercut / wall exactly when the rules say, with the right points"
    fields = ("complete", "p1_points", "p2_points")
    compare_results = False
    probes = 0
    rule = ("games steered to endings (near-gin deals, turn limits 1-3, short stocks, every offered knock arrangement); "
            "non-trivial = completed game; distinct by (deal, move list)")

    def oracle(self, case, evs):
        why = []
        rummy = case["variant"] == "rummy"
        mt = case.get("max_turns")
        bonus = 20 if rummy else 0
        for e in evs:
            if e.kind != "act" or e.ri != "ok":
                continue
            p, o, op = e.prev, e.oi, e.op
            if p["complete"]:
                continue
            w = who(p["turn"]); p1 = w == "p1"
            pts = (o["p1_points"], o["p2_points"])
            if o["complete"]:
                # the result each player is shown is the result: own points, the opponent's points and hand
                exp1 = {"points": o["p1_points"], "opp_points": o["p2_points"], "opp_hand": o["p2"], "action": "complete"}
                exp2 = {"points": o["p2_points"], "opp_points": o["p1_points"], "opp_hand": o["p1"], "action": "complete"}
                if "cv1" in o and (o["cv1"] != exp1 or o["cv2"] != exp2):
                    why.append(f"step {e.i} {op_str(op)}: the completed game is shown as {o['cv1']} / {o['cv2']}, the result is "
                               f"p1 {o['p1_points']} p2 {o['p2_points']}"); break
            if op["k"] == "discard":
                hand_after = [c for c in p[w] if c != op["c"]]
                my = gin.best_deadwood(hand_after) if rummy else gin.ricky_value(hand_after)
                is_gin = my == 0
                hit_turns = mt is not None and p["turns"] + 1 >= mt
                knock_offer = rummy and my <= 10
                stock_wall = rummy and not knock_offer and len(p["deck"]) == 2
                exp_c = is_gin or hit_turns or stock_wall
                if o["complete"] != exp_c:
                    why.append(f"step {e.i} {op_str(op)}: complete={o['complete']} but gin={is_gin} turn-limit={hit_turns} wall={stock_wall}"); break
                if o["complete"]:
                    if is_gin:
                        oh = p[OPP[w]]
                        od = gin.best_deadwood(oh) if rummy else gin.ricky_value(oh)
                        exp = norm(0, od + bonus) if p1 else norm(od + bonus, 0)
                        what = "gin" + (" on the last permitted turn" if hit_turns else "")
                    else:
                        exp = (0, 0); what = "wall"
                    if pts != exp:
                        why.append(f"step {e.i} {op_str(op)}: {what} scored {pts}, expected {exp}"); break
            elif op["k"] == "knock":
                if op["knocks"]:
                    kh, oh = p[w], p[OPP[w]]
                    if op.get("melds") is not None:
                        melded = {x for m in op["melds"] for x in m}
                        kd = gin.dw([c for c in kh if c not in melded])
                        od = gin.best_deadwood(oh, gin.mk_layoff([frozenset(m) for m in op["melds"]]))
                    else:
                        kd = gin.best_deadwood(kh); od = gin.best_deadwood(oh)
                    a, b = (kd, od) if p1 else (od, kd)
                    if od <= kd:
                        if p1: a += 20
                        else: b += 20
                    exp = norm(a, b)
                    if not o["complete"]:
                        why.append(f"step {e.i}: knock did not end the game"); break
                    if pts != exp:
                        why.append(f"step {e.i} {op_str(op)}: knock scored {pts}, expected {exp} (knocker deadwood {kd}, defender after lay-offs {od})"); break
                else:
                    stock_wall = len(p["deck"]) == 2
                    if o["complete"] != stock_wall:
                        why.append(f"step {e.i}: declined knock with {len(p['deck'])} stock cards: complete={o['complete']}"); break
                    if o["complete"] and pts != (0, 0):
                        why.append(f"step {e.i}: wall scored {pts}"); break
            else:
                if o["complete"]:
                    why.append(f"step {e.i} {op_str(op)}: game ended on a move that cannot end it"); break
            if o["complete"] and pts[0] is not None and min(pts) != 0 and pts[0] != pts[1]:
                why.append(f"step {e.i}: winner does not show zero: {pts}"); break
        return why

    def key_tags(self, case, evs):
        key, tags = super().key_tags(case, evs)
        acts = [e for e in evs if e.kind == "act" and e.ri == "ok"]
        if acts and acts[-1].oi["complete"]:
            op = acts[-1].op
            o = acts[-1].oi
            if op["k"] == "knock":
                tags.append("end:knock" if op["knocks"] else "end:wall-declined")
            elif (o["p1_points"], o["p2_points"]) == (0, 0):
                tags.append("end:wall-or-limit")
            else:
                tags.append("end:gin")
        else:
            key = None
        return key, tags


# ------------------------------------------------------------------------------------------------ C17

class C17(GinProp):
    pid = "C17"
    title = "views: public card map is truthful; own hand / top discard / stock size right; opponent cards only if public; wait iff off turn"
    fields = ("hud", "v1", "v2", "a1", "a2")
    compare_results = False
    probes = 0
    rule = ("both players' views and the public card map after every move of random games, incl. ricky games through stock "
            "exhaustion and reshuffles; non-trivial = game with >= 3 accepted moves")

    def gen_case(self, rng):
        case = gin.gen_game(rng)
        if rng.random() < 0.1:
            # a game (re)started with an explicitly EMPTY public card map (nothing is asserted about any card): everything the
            # property demands of the map and of the views still applies (model: `newGameWith`, theorems Props/C17b.lean)
            case["hud0"] = "empty"
        if rng.random() < 0.1:
            case["pts0"] = True       # a game in progress (re)built with the score fields set to 0 instead of None
        return gin.play(rng, case, probes=self.probes)

    def oracle(self, case, evs):
        why = []
        pub = {"p1": set(), "p2": set()}
        for e in evs:
            o = e.oi
            if o is None or e.kind == "probe":
                continue
            if e.kind == "act" and e.ri == "ok":
                p, op = e.prev, e.op
                w = who(p["turn"])
                if op["k"] == "draw" and op["d"]:
                    pub[w].add(p["discard"][-1])
                if op["k"] == "discard":
                    pub[w].discard(op["c"])
                if len(o["deck"]) == 0 and len(p["deck"]) > 0:
                    pub["p1"] = set(o["p1"]); pub["p2"] = set(o["p2"])
            if o["complete"]:
                break
            for c, loc in o["hud"]:
                ok = (loc == "1" and c in o["p1"]) or (loc == "2" and c in o["p2"]) or \
                     (loc == "t" and o["discard"] and o["discard"][-1] == c) or (loc == "d" and c in o["discard"])
                if not ok:
                    why.append(f"step {e.i} {op_str(e.op)}: public card map says {c} is '{loc}' but it is not"
                               + (" (after a reshuffle)" if o["shuffles"] else "")); break
            if why: break
            for who_, key in (("p1", "v1"), ("p2", "v2")):
                v = o[key]
                if isinstance(v, str) or v is None:
                    why.append(f"step {e.i}: view of {who_} failed: {v}"); break
                me, opp = o[who_], o[OPP[who_]]
                if ms(v["hand"]) != ms(me):
                    why.append(f"step {e.i}: {who_}'s view shows hand {v['hand']}, real hand {me}"); break
                if v["top"] != (o["discard"][-1] if o["discard"] else None) or v["deck_length"] != len(o["deck"]):
                    why.append(f"step {e.i}: {who_}'s view has top {v['top']} / stock size {v['deck_length']}"); break
                named_opp = {c for c, l in v["hud"] if l == "o"}
                if not named_opp <= pub[OPP[who_]]:
                    why.append(f"step {e.i} {op_str(e.op)}: {who_}'s view names opponent cards {sorted(named_opp - pub[OPP[who_]])} that were never public"); break
                if not named_opp <= set(opp):
                    why.append(f"step {e.i}: {who_}'s view places {sorted(named_opp - set(opp))} in the opponent's hand"); break
                named = {c for c, _ in v["hud"]} | {x for x in (v.get("drawn"), v.get("last_draw")) if x}
                if named & set(o["deck"]):
                    why.append(f"step {e.i} {op_str(e.op)}: {who_}'s view names stock cards {sorted(named & set(o['deck']))}"); break
            if why: break
            on = who(o["turn"])
            a_on = o["a1"] if on == "p1" else o["a2"]
            a_off = o["a2"] if on == "p1" else o["a1"]
            if kind(o["turn"]) != "fromdeck":
                if a_on == "wait":
                    why.append(f"step {e.i}: the player on turn ({o['turn']}) is told to wait"); break
                if a_off != "wait":
                    why.append(f"step {e.i}: the player off turn ({o['turn']}) is told '{a_off}'"); break
        return why


# ------------------------------------------------------------------------------------------------ C08 / C12 / C19

class C08(Prop):
    pid = "C08"
    title = "meld search: legal disjoint melds, unmelded = rest, deadwood = pip total, minimum deadwood; candidate list exact"
    rule = ("hands of 0-11 cards from dense sub-decks (few ranks, few suits, ace-centred windows) and uniform; "
            "non-trivial = hand contains at least two overlapping legal melds; distinct by sorted hand")
    batch = 300
    trusted_base = ["equal-deadwood arrangements are interchangeable: outputs compared as (deadwood, set of melds)"]
    assumptions = ["hand cards are distinct"]

    def setup(self):
        super().setup()
        from card_utils.games.gin.rummy import utils as ru
        self.ru = ru

    def gen_hand(self, rng):
        k = rng.choice([10, 10, 10, 11, 11, 7, 8, 5, 3, 0, 1])
        return gin.dense_cards(rng, k)

    def generate(self, rng, tier, shard):
        while True:
            h = self.gen_hand(rng)
            c = {"hand": h, "max_dw": rng.choice([None, 10, 10, 0, 25]), "stop": rng.random() < 0.5, "pos": rng.random() < 0.5}
            if rng.random() < 0.25:
                c["pre"] = rng.randrange(1, 1 << 16)
            yield c

    def exhaustive(self, tier, shard, nshards):
        if tier != "thorough":
            return
        sub = [r + s for r in "A2345" for s in "cdh"] + ["Kc"]     # 16-card sub-deck, melds overlap heavily
        for i, h in enumerate(itertools.combinations(sub, 10)):
            if i % nshards == shard:
                yield {"hand": list(h), "max_dw": 10, "stop": False}

    def pure_call(self, case):
        return self.ru.split_melds(list(case["hand"]))[0]

    def impl(self, case):
        out = {}
        if case.get("pre"):
            gin.helper_prelude(case["hand"], case["pre"])
        try:
            d, melds, um = self.ru.split_melds(list(case["hand"]))
            out["split"] = {"dw": d, "melds": [list(m) for m in melds], "um": list(um)}
        except Exception as e:
            out["split"] = "!" + type(e).__name__
        try:
            if case.get("pos"):   # the documented parameter order, passed positionally
                cs = self.ru.get_candidate_melds(list(case["hand"]), case["max_dw"], case["stop"])
            else:
                cs = self.ru.get_candidate_melds(list(case["hand"]), max_deadwood=case["max_dw"], stop_on_gin=case["stop"])
            out["cands"] = [{"dw": d, "melds": [list(m) for m in melds], "um": list(um)} for d, melds, um in cs]
        except Exception as e:
            out["cands"] = "!" + type(e).__name__
        return out

    def request(self, case, io):
        return {"op": "melds", "hand": case["hand"], "max_dw": case["max_dw"], "stop": case["stop"]}

    @staticmethod
    def arr_ok(hand, c):
        """is (dw, melds, um) a legal arrangement of `hand`"""
        melded = [x for m in c["melds"] for x in m]
        if len(set(melded)) != len(melded): return "melds overlap"
        if not set(melded) <= set(hand): return "meld card not in hand"
        for m in c["melds"]:
            if not gin.is_legal_meld(m): return f"illegal meld {m}"
        if ms(c["um"]) != ms([x for x in hand if x not in melded]): return f"unmelded {c['um']} is not the rest of the hand"
        if c["dw"] != gin.dw(c["um"]): return f"deadwood {c['dw']} is not the pip total {gin.dw(c['um'])}"
        return None

    def judge(self, case, io, mo):
        why = []; agree = True; holds = True
        hand = case["hand"]
        sp, msp = io["split"], mo["split"]
        if isinstance(sp, str) or isinstance(msp, str):
            if not (isinstance(sp, str) and isinstance(msp, str)):
                agree = False; why.append(f"split impl={sp} model={msp}")
            if isinstance(sp, str):
                holds = False; why.append(f"split_melds failed: {sp}")
        else:
            if sp["dw"] != msp["dw"]:
                agree = False; why.append(f"split deadwood impl={sp['dw']} model={msp['dw']}")
            bad = self.arr_ok(hand, sp)
            if bad:
                holds = False; why.append(f"best split of {hand}: {bad}")
            opt = gin.best_deadwood(hand)
            if sp["dw"] != opt:
                holds = False; why.append(f"best split of {hand} has deadwood {sp['dw']} but an arrangement with {opt} exists")
        ic, mc = io["cands"], mo["cands"]
        if isinstance(ic, str):
            holds = False; agree = False; why.append(f"get_candidate_melds failed: {ic}")
        else:
            ci = collections.Counter((c["dw"], frozenset(frozenset(m) for m in c["melds"])) for c in ic)
            cm = collections.Counter((c["dw"], frozenset(frozenset(m) for m in c["melds"])) for c in mc)
            if ci != cm:
                agree = False; why.append(f"candidate list differs: only impl {list((ci - cm))[:2]} only model {list((cm - ci))[:2]}")
            # the rule: arrangements of <= 3 disjoint melds within the limit, each once; or one gin arrangement
            legal = gin.all_melds(hand)
            exp = collections.Counter()
            for k in range(0, 4):
                for comb in itertools.combinations(legal, k):
                    cards = [x for m in comb for x in m]
                    if len(set(cards)) != len(cards):
                        continue
                    d = gin.dw([x for x in hand if x not in cards])
                    if case["max_dw"] is None or d <= case["max_dw"]:
                        exp[(d, frozenset(comb))] += 1
            zero = [k for k in exp if k[0] == 0 and len(k[1]) > 0]
            if case["stop"] and zero:
                if len(ic) != 1 or (ic[0]["dw"], frozenset(frozenset(m) for m in ic[0]["melds"])) not in zero:
                    holds = False; why.append(f"stop_on_gin: expected a single zero-deadwood arrangement, got {ic[:2]}")
            elif ci != exp:
                holds = False
                why.append(f"candidates of {hand} (limit {case['max_dw']}): missing {list((exp - ci))[:2]} unexpected {list((ci - exp))[:2]}")
            for c in ic:
                b = self.arr_ok(hand, c)
                if b:
                    holds = False; why.append(f"candidate {c}: {b}"); break
        nm = len(mo["all"])
        key = "".join(sorted(hand)) + f"|{case['max_dw']}|{case['stop']}" if nm >= 2 else None
        tags = [f"cards={len(hand)}", f"melds={min(nm, 6)}", "gin" if (not isinstance(sp, str) and sp["dw"] == 0 and hand) else "no-gin"]
        return Verdict(agree, holds, " ;; ".join(why[:4]), key, tags)


class C12(Prop):
    pid = "C12"
    title = "lay-offs: defender deadwood is the true minimum; every laid-off card is legal; melds/lay-offs/deadwood partition the hand"
    rule = ("knocker melds taken from the real candidate lists of dense 10-card hands (3/4-sets, runs of all lengths, ace-low "
            "and ace-high, several runs per suit), defender = 10 dense cards from the rest; with and without stop_on_zero; "
            "non-trivial = at least one card can be laid off; distinct by (defender hand, knocker melds)")
    batch = 200
    trusted_base = C08.trusted_base
    assumptions = ["defender hand and knocker melds are disjoint, knocker melds legal"]

    def setup(self):
        super().setup()
        from card_utils.games.gin.rummy import utils as ru
        self.ru = ru

    def generate(self, rng, tier, shard):
        while True:
            if rng.random() < 0.1:
                t = layoff_trap(rng)
                if t is not None:
                    yield {"hand": t[2], "opp": t[1], "stop": rng.random() < 0.5, "pos": rng.random() < 0.5}
                    continue
            ranks = rng.sample("A23456789TJQK", rng.choice([5, 6, 7, 13]))
            if rng.random() < 0.3:
                ranks = list("A2345JQK") if rng.random() < 0.5 else list("A23QK789")
            sub = [r + s for r in ranks for s in gin.SU]
            if len(sub) < 20:
                continue
            kh = rng.sample(sub, 10)
            legal = gin.all_melds(kh)
            if not legal:
                continue
            opp = []
            used = set()
            for m in rng.sample(legal, len(legal)):
                if not (m & used) and len(opp) < 3 and rng.random() < 0.8:
                    opp.append(sorted(m)); used |= m
            if not opp:
                continue
            for m in opp:
                rng.shuffle(m)
            rest = [c for c in sub if c not in kh]
            if len(rest) < 10:
                rest = [c for c in gin.CARDS if c not in kh]
            dh = rng.sample(rest, 10)
            c = {"hand": dh, "opp": opp, "stop": rng.random() < 0.5, "pos": rng.random() < 0.5}
            if rng.random() < 0.3:
                c["pre"] = rng.randrange(1, 1 << 16)
            yield c

    def pure_call(self, case):
        return self.ru.layoff_deadwood(list(case["hand"]), [list(m) for m in case["opp"]], stop_on_zero=case["stop"])[0]

    def impl(self, case):
        if case.get("pre"):
            gin.helper_prelude(case["hand"], case["pre"])
        try:
            if case.get("pos"):
                d, melds, lo, um = self.ru.layoff_deadwood(list(case["hand"]), [list(m) for m in case["opp"]], case["stop"])
            else:
                d, melds, lo, um = self.ru.layoff_deadwood(list(case["hand"]), [list(m) for m in case["opp"]], stop_on_zero=case["stop"])
            return {"dw": d, "melds": [list(m) for m in melds], "lo": list(lo), "um": list(um)}
        except Exception as e:
            return {"exc": type(e).__name__ + ": " + str(e)[:80]}

    def request(self, case, io):
        return {"op": "layoff", "hand": case["hand"], "opp": case["opp"], "stop": case["stop"]}

    def judge(self, case, io, mo):
        why = []; agree = True; holds = True
        hand = case["hand"]; opp = [frozenset(m) for m in case["opp"]]
        if "exc" in io:
            return Verdict("err" in mo, False, f"layoff_deadwood failed: {io['exc']}", None, ["exc"])
        if "err" in mo or io["dw"] != mo["dw"]:
            agree = False; why.append(f"deadwood impl={io['dw']} model={mo.get('dw', mo)}")
        lay = gin.mk_layoff(opp)
        spec = gin.best_deadwood(hand, lay)
        if io["dw"] != spec:
            holds = False; why.append(f"defender {hand} vs melds {case['opp']}: deadwood {io['dw']}, the minimum is {spec}")
        melded = [x for m in io["melds"] for x in m]
        parts = melded + io["lo"] + io["um"]
        if ms(parts) != ms(hand):
            holds = False; why.append(f"melds {io['melds']} + lay-offs {io['lo']} + deadwood {io['um']} do not partition the hand")
        for m in io["melds"]:
            if not gin.is_legal_meld(m):
                holds = False; why.append(f"illegal own meld {m}")
        if not gin.layoff_ok(opp, io["lo"]):
            holds = False; why.append(f"laid-off cards {io['lo']} are not all legal lay-offs on {case['opp']}")
        if io["dw"] != gin.dw(io["um"]):
            holds = False; why.append(f"deadwood {io['dw']} is not the pip total of {io['um']}")
        can = lay(hand)
        key = "".join(sorted(hand)) + "|" + str(sorted(map(sorted, case["opp"]))) if can else None
        tags = ["set-layoff" if any(c[0] in {next(iter(m))[0] for m in opp if gin.is_set(m) and len(m) == 3} for c in io["lo"]) else "no-set-layoff",
                "run-layoff" if any(not gin.is_set(m) for m in opp) and io["lo"] else "no-run-layoff", f"stop={case['stop']}"]
        return Verdict(agree, holds, " ;; ".join(why[:4]), key, tags)


class C19(Prop):
    pid = "C19"
    title = "gin ricky hand value: 0 iff disjoint 3-meld + 4-meld, else best single meld; sorted hand is a permutation, melds first"
    rule = ("7- and 8-card hands from dense sub-decks; thorough: all 7- and 8-card hands of a 16-card sub-deck; "
            "non-trivial = hand contains a 3- or 4-meld; distinct by sorted hand")
    batch = 500
    trusted_base = []
    assumptions = ["hand cards are distinct"]

    def setup(self):
        super().setup()
        from card_utils.games.gin.ricky import utils as ku
        from card_utils.games.gin.ricky.game_state import GinRickyGameState
        self.ku = ku
        self.GS = GinRickyGameState

    def generate(self, rng, tier, shard):
        while True:
            c = {"hand": (gin.ricky_made_hand(rng) if rng.random() < 0.4 else gin.dense_cards(rng, rng.choice([7, 8]))), "own": rng.random() < 0.4}
            if rng.random() < 0.25:
                c["pre"] = rng.randrange(1, 1 << 16)
            yield c

    def exhaustive(self, tier, shard, nshards):
        if tier != "thorough":
            return
        sub = [r + s for r in "A234" for s in "cdhs"]
        i = 0
        for k in (7, 8):
            for h in itertools.combinations(sub, k):
                i += 1
                if i % nshards == shard:
                    yield {"hand": list(h)}

    def pure_call(self, case):
        return self.ku.hand_points(list(case["hand"]))

    def impl(self, case):
        if case.get("pre"):
            gin.helper_prelude(case["hand"], case["pre"])
        try:
            s, p = self.ku.sorted_hand_points(list(case["hand"]))
            out = {"points": p, "sorted": list(s), "hp": self.ku.hand_points(list(case["hand"])), "sh": list(self.ku.sort_hand(list(case["hand"])))}
            # the same through the game class's own entry points; `own` cases: a caller that keeps the list sort_hand gave it
            # for the previous hand, rewrites it in place into this hand and has it valued (it owns that list)
            kept = self.__dict__.get("_kept")
            if case.get("own") and kept is not None:
                kept[:] = list(case["hand"])
                out["gd"] = self.GS.get_deadwood(kept)
            else:
                out["gd"] = self.GS.get_deadwood(list(case["hand"]))
            sh = self.GS.sort_hand(list(case["hand"]))
            out["gsh"] = list(sh)
            self._kept = sh
            return out
        except Exception as e:
            return {"exc": type(e).__name__}

    def request(self, case, io):
        return {"op": "ricky", "hand": case["hand"]}

    def judge(self, case, io, mo):
        why = []; agree = True; holds = True
        hand = case["hand"]
        if "exc" in io:
            return Verdict("err" in mo, False, f"sorted_hand_points failed: {io['exc']}", None, [])
        if "err" in mo or io["points"] != mo["points"]:
            agree = False; why.append(f"points impl={io['points']} model={mo.get('points', mo)}")
        spec = gin.ricky_value(hand)
        if io["points"] != spec or io["hp"] != spec or io.get("gd", spec) != spec:
            holds = False; why.append(f"{hand}: value {io['points']}/{io['hp']}/{io.get('gd')}, the 3+4 rule gives {spec}")
        for s in (io["sorted"], io["sh"], io.get("gsh", hand)):
            if ms(s) != ms(hand):
                holds = False; why.append(f"sorted hand {s} is not a permutation of {hand}"); break
        m3 = gin.all_melds(hand, run_lens=(3,), set_sizes=(3,)); m4 = gin.all_melds(hand, run_lens=(4,), set_sizes=(4,))
        if holds and spec == 0:
            s = io["sorted"]
            if not (frozenset(s[:4]) in m4 and frozenset(s[4:7]) in m3):
                holds = False; why.append(f"sorted hand {s} does not list the 4-meld and the 3-meld first")
        key = "".join(sorted(hand)) if (m3 or m4) else None
        return Verdict(agree, holds, " ;; ".join(why[:3]), key, [f"cards={len(hand)}", "zero" if spec == 0 else "nonzero"])
