#!/usr/bin/env python3
"""Entry point:  check.py <Cxx> --tier quick|thorough   |   check.py --replay <file>"""
import argparse, os, sys
sys.path.insert(0, os.path.dirname(os.path.abspath(__file__)))
os.environ.setdefault("PYTHONHASHSEED", "0")
if os.environ.get("PYTHONHASHSEED") != "0" or not os.environ.get("_CV_REEXEC"):
    # pin str hashing so that replays are exact (set iteration order in the gin code depends on it)
    os.environ["PYTHONHASHSEED"] = "0"; os.environ["_CV_REEXEC"] = "1"
    os.execv(sys.executable, [sys.executable, *sys.argv])

from harness import engine, registry


def main():
    ap = argparse.ArgumentParser()
    ap.add_argument("prop", nargs="?")
    ap.add_argument("--tier", default=os.environ.get("VERIF_TIER", "quick"), choices=["quick", "thorough"])
    ap.add_argument("--replay")
    a = ap.parse_args()
    os.chdir(os.path.dirname(os.path.abspath(__file__)))
    if a.replay:
        sys.exit(engine.run_replay(a.replay, registry.REGISTRY))
    if a.prop not in registry.REGISTRY:
        print(f"unknown property {a.prop}; known: {sorted(registry.REGISTRY)}"); sys.exit(2)
    sys.exit(engine.run_check(registry.REGISTRY[a.prop], a.tier))


if __name__ == "__main__":
    main()
