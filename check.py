#!/usr/bin/env python3
"""Entry point:  check.py <Cxx> --tier quick|thorough   |   check.py --replay <file>"""
import argparse, os, sys
sys.path.insert(0, os.path.dirname(os.path.abspath(__file__)))
# str hashing is pinned so that replays are exact (set iteration order in the gin code depends on it) -- to a value derived
# from the run's seed, so that different seeds also exercise different set orders (seed 0 -> hash seed 0); a replay file
# carries the hash seed it was found under (VERIF_HASHSEED overrides)
def _want_hashseed():
    if os.environ.get("VERIF_HASHSEED"):
        return os.environ["VERIF_HASHSEED"]
    if "--replay" in sys.argv:
        try:
            import json
            return str((json.load(open(sys.argv[sys.argv.index("--replay") + 1])).get("env") or {}).get("PYTHONHASHSEED", "0"))
        except Exception:
            return "0"
    try:
        return str(int(os.environ.get("VERIF_SEED", "0")) % 5)
    except ValueError:
        return "0"


_hs = _want_hashseed()
if os.environ.get("PYTHONHASHSEED") != _hs or not os.environ.get("_CV_REEXEC"):
    os.environ["PYTHONHASHSEED"] = _hs; os.environ["_CV_REEXEC"] = "1"
    os.execv(sys.executable, [sys.executable, *sys.argv])

from harness import engine, registry


def main():
    ap = argparse.ArgumentParser()
    ap.add_argument("prop", nargs="?")
    ap.add_argument("--tier", default=os.environ.get("VERIF_TIER", "quick"), choices=["quick", "thorough"])
    ap.add_argument("--replay")
    a = ap.parse_args()
    os.chdir(os.path.dirname(os.path.abspath(__file__)))
    if a.replay:
        sys.exit(engine.run_replay(a.replay, registry.REGISTRY))
    if a.prop not in registry.REGISTRY:
        print(f"unknown property {a.prop}; known: {sorted(registry.REGISTRY)}"); sys.exit(2)
    sys.exit(engine.run_check(registry.REGISTRY[a.prop], a.tier))


if __name__ == "__main__":
    main()
